#!/venv/bin/python -B
"""Seeded-change bookkeeping (not a registered check).

    tools/seed.py import C02 A          copy /tmp/wt/C02/SEED/A -> seeded/C02-A (demo made root-relative)
    tools/seed.py verify C02-A [--tier quick|thorough] [--checks C02,C06]
        scratch copy of /repo + patch; repo tests must pass; demo must fail there and pass on /repo;
        then the named checks (default: the seed's own property) run against the scratch copy.
        Results are written to seeded/<name>/meta.json.  The scratch copy is removed.
"""
import os
import re
import sys
import json
import shutil
import subprocess
import tempfile

VERIF = os.path.dirname(os.path.dirname(os.path.abspath(__file__)))
PY = '/venv/bin/python'


def sh(cmd, **kw):
    r = subprocess.run(cmd, stdout=subprocess.PIPE, stderr=subprocess.STDOUT, **kw)
    return r.returncode, r.stdout.decode('utf8', 'replace')


def do_import(pid, letter, root='/tmp/wt', as_letter=None):
    src = '%s/%s/SEED/%s' % (root, pid, letter)
    dst = os.path.join(VERIF, 'seeded', '%s-%s' % (pid, as_letter or letter))
    os.makedirs(dst, exist_ok=True)
    shutil.copy(os.path.join(src, 'patch.diff'), os.path.join(dst, 'patch.diff'))
    if os.path.exists(os.path.join(src, 'notes.md')):
        shutil.copy(os.path.join(src, 'notes.md'), os.path.join(dst, 'notes.md'))
    demo = open(os.path.join(src, 'demo.py')).read()
    # make the demo independent of the worktree it was written in
    demo = re.sub(r"^ROOT\s*=.*$", "ROOT = os.environ.get('GLOM_ROOT', '/repo')", demo, count=1, flags=re.M)
    demo = re.sub(r"startswith\(\s*'/tmp/wt[2357]?/%s'?\s*(\+\s*os\.sep|/')?\s*\)" % pid, "startswith(ROOT)", demo)
    for r_ in ('/tmp/wt7', '/tmp/wt5', '/tmp/wt3', '/tmp/wt2', '/tmp/wt'):
        demo = demo.replace("'%s/%s/'" % (r_, pid), "ROOT").replace("'%s/%s'" % (r_, pid), "ROOT")
    if 'GLOM_ROOT' not in demo:
        demo = ("import os, sys\nROOT = os.environ.get('GLOM_ROOT', '/repo')\nsys.path.insert(0, ROOT)\n" + demo)
    open(os.path.join(dst, 'demo.py'), 'w').write(demo)
    print('imported', dst)


def do_verify(name, tier, checks):
    d = os.path.join(VERIF, 'seeded', name)
    pid = name.split('-')[0]
    checks = checks or [pid]
    scratch = tempfile.mkdtemp(prefix='glom_seed_', dir='/tmp')
    repo = os.path.join(scratch, 'repo')
    meta_path = os.path.join(d, 'meta.json')
    meta = json.load(open(meta_path)) if os.path.exists(meta_path) else {}
    meta.setdefault('property', pid)
    try:
        shutil.copytree('/repo', repo, ignore=shutil.ignore_patterns('.git', '__pycache__', '*.pyc', '.tox'))
        rc, out = sh(['patch', '-p1', '--no-backup-if-mismatch', '-i', os.path.join(d, 'patch.diff')], cwd=repo)
        if rc:
            print('PATCH DOES NOT APPLY to current /repo:\n' + out)
            return 2
        if 'fuzz' in out or 'offset' in out:
            print('patch applied with fuzz/offset; refreshing patch.diff')
        # refresh the patch so that it applies cleanly to the current tree
        rc2, diff = sh(['diff', '-ruN', '-x', '__pycache__', '-x', '*.pyc', '-x', '*.orig', '-x', '*.rej',
                        '/repo/glom', os.path.join(repo, 'glom')])
        diff = diff.replace(os.path.join(repo, 'glom'), 'b/glom').replace('/repo/glom', 'a/glom')
        diff = re.sub(r'^diff -ruN .*$', '', diff, flags=re.M)
        diff = re.sub(r'^(--- a/\S+|\+\+\+ b/\S+)\t.*$', r'\1', diff, flags=re.M).lstrip('\n')
        open(os.path.join(d, 'patch.diff'), 'w').write(diff)
        rc, out = sh([PY, '-B', '-m', 'pytest', '-q', '-p', 'no:cacheprovider', '--deselect',
                      'glom/test/test_cli.py::test_main', 'glom/test'], cwd=repo)
        tests_line = out.strip().splitlines()[-1] if out.strip() else ''
        print('repo tests with change: rc=%d %s' % (rc, tests_line))
        meta['tests_with_change'] = tests_line
        if rc:
            print(out[-1500:])
            return 2
        env = dict(os.environ, GLOM_ROOT=repo, PYTHONDONTWRITEBYTECODE='1')
        rc_with, out_with = sh([PY, '-B', os.path.join(d, 'demo.py')], env=env, cwd=repo)
        env0 = dict(os.environ, GLOM_ROOT='/repo', PYTHONDONTWRITEBYTECODE='1')
        rc_without, out_without = sh([PY, '-B', os.path.join(d, 'demo.py')], env=env0, cwd='/repo')
        print('demo with change: rc=%d; without: rc=%d' % (rc_with, rc_without))
        meta['demo_rc_with_change'] = rc_with
        meta['demo_rc_without_change'] = rc_without
        if rc_with == 0 or rc_without != 0:
            print('DEMO DOES NOT DISCRIMINATE\n--- with:\n%s\n--- without:\n%s' % (out_with[-1200:], out_without[-1200:]))
            return 2
        res = meta.setdefault('checks', {})
        worst = 0
        for c in checks:
            env = dict(os.environ, VERIF_REPO=repo)
            rc, out = sh([os.path.join(VERIF, 'check'), c, tier], env=env)
            caught = (rc == 1 and 'VIOLATION property=' in out)
            lines = [l for l in out.strip().splitlines() if l.startswith('VIOLATION') or l.startswith('  sub=')][:6]
            res['%s:%s' % (c, tier)] = {'caught': caught, 'rc': rc, 'lines': [l[:300] for l in lines]}
            print('%s %s: %s (rc=%d)' % (c, tier, 'CAUGHT' if caught else 'MISSED', rc))
            for l in lines[:4]:
                print('    ' + l[:300])
            if rc == 2:
                print(out[-800:])
            if not caught:
                worst = 1
        return worst
    finally:
        json.dump(meta, open(meta_path, 'w'), indent=1, sort_keys=True)
        shutil.rmtree(scratch, ignore_errors=True)


def do_robust(name, seeds):
    """the seed's own check at several VERIF_SEED values against ONE scratch copy; meta['seeds_caught'] = {seed: bool}"""
    d = os.path.join(VERIF, 'seeded', name)
    pid = name.split('-')[0]
    scratch = tempfile.mkdtemp(prefix='glom_seed_', dir='/tmp')
    repo = os.path.join(scratch, 'repo')
    meta_path = os.path.join(d, 'meta.json')
    meta = json.load(open(meta_path))
    try:
        shutil.copytree('/repo', repo, ignore=shutil.ignore_patterns('.git', '__pycache__', '*.pyc', '.tox'))
        rc, out = sh(['patch', '-p1', '--no-backup-if-mismatch', '-i', os.path.join(d, 'patch.diff')], cwd=repo)
        if rc:
            print('%s PATCH DOES NOT APPLY' % name)
            return 2
        res = meta.setdefault('seeds_caught', {})
        for sd in seeds:
            env = dict(os.environ, VERIF_REPO=repo, VERIF_SEED=str(sd))
            rc, out = sh([os.path.join(VERIF, 'check'), pid, 'quick'], env=env)
            res[str(sd)] = (rc == 1 and 'VIOLATION property=' in out)
        print(name, ' '.join('%s:%s' % (k, 'caught' if v else 'MISSED') for k, v in sorted(res.items())))
        json.dump(meta, open(meta_path, 'w'), indent=1, sort_keys=True)
        return 0 if all(res.values()) else 1
    finally:
        shutil.rmtree(scratch, ignore_errors=True)


if __name__ == '__main__':
    a = sys.argv[1:]
    if a[0] == 'robust':
        sys.exit(do_robust(a[1], [int(x) for x in (a[2] if len(a) > 2 else '2,3,4').split(',')]))
    if a[0] == 'import':
        do_import(a[1], a[2])
    elif a[0] == 'import2':       # round 2: /tmp/wt2/<ID>/SEED/<A|B> -> seeded/<ID>-<C|D>
        do_import(a[1], a[2], root='/tmp/wt2', as_letter={'A': 'C', 'B': 'D'}[a[2]])
    elif a[0] == 'import3':       # round 3: /tmp/wt3/<ID>/SEED/<A|B> -> seeded/<ID>-<E|F>
        do_import(a[1], a[2], root='/tmp/wt3', as_letter={'A': 'E', 'B': 'F'}[a[2]])
    elif a[0] == 'import4':       # round 4: /tmp/wt5/<ID>/SEED/<A|B> -> seeded/<ID>-<G|H>
        do_import(a[1], a[2], root='/tmp/wt5', as_letter={'A': 'G', 'B': 'H'}[a[2]])
    elif a[0] == 'import5':       # round 5: /tmp/wt7/<ID>/SEED/<A|B> -> seeded/<ID>-<I|J>
        do_import(a[1], a[2], root='/tmp/wt7', as_letter={'A': 'I', 'B': 'J'}[a[2]])
    elif a[0] == 'verify':
        tier = 'quick'
        checks = None
        if '--tier' in a:
            tier = a[a.index('--tier') + 1]
        if '--checks' in a:
            checks = a[a.index('--checks') + 1].split(',')
        sys.exit(do_verify(a[1], tier, checks))
