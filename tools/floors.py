#!/venv/bin/python -B
"""tools/floors.py: compare every distribution floor declared in vf/props with the class frequencies in evidence/*.json
(developer aid; a floor closer than 2x to what is observed risks a spurious harness error at another seed)"""
import importlib, json, os, sys
sys.path.insert(0, os.path.dirname(os.path.dirname(os.path.abspath(__file__))))
os.environ.setdefault('PYTHONHASHSEED', '0')
from vf import boot
boot.pin_repo()
for i in range(1, 21):
    pid = 'C%02d' % i
    mod = importlib.import_module('vf.props.c%02d' % i)
    ev = json.load(open('evidence/%s.json' % pid))['coverage']['sub_checks']
    for sub in mod.SUBS:
        if not sub.floors or sub.name not in ev:
            continue
        n = ev[sub.name]['evaluations'] or 1
        for k, fl in sub.floors.items():
            obs = ev[sub.name]['classes'].get(k, 0) / n
            flag = '' if obs >= 2 * fl else '   <-- margin < 2x'
            if flag or '-v' in sys.argv:
                print('%s %-16s %-34s floor %.3f observed %.3f%s' % (pid, sub.name, k, fl, obs, flag))
