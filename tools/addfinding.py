#!/usr/bin/env python3
"""tools/addfinding.py PID KEY fixed|known 'commit-subject-fragment or -' SUB 'what' 'example-json' [classifier]"""
import json, subprocess, sys
pid, key, status, frag, sub, what, ex = sys.argv[1:8]
clf = sys.argv[8] if len(sys.argv) > 8 else None
kf = json.load(open('/verif/known_findings.json'))
h = None
if frag != '-':
    log = subprocess.run(['git', '-C', '/repo', 'log', '--format=%h %s'], capture_output=True, text=True).stdout
    hs = [l.split()[0] for l in log.splitlines() if frag in l]
    assert hs, 'no commit matching ' + frag
    h = hs[0]
ex = json.loads(ex)
kf['findings'] = [f for f in kf['findings'] if f['key'] != key]
e = {'property': pid, 'key': key, 'status': status, 'what': what, 'sub': sub, 'example': ex}
if h:
    e['commit'] = h
    e['line'] = 'fixed: property=%s %s %s' % (pid, h, what)
if clf:
    e['classifier'] = clf
kf['findings'].append(e)
json.dump(kf, open('/verif/known_findings.json', 'w'), indent=1)
if status == 'fixed':
    json.dump({'property': pid, 'sub': sub, 'recipe': ex, 'note': what + ' (fixed in %s)' % h},
              open('/verif/replays/%s-%s.json' % (pid, key), 'w'), indent=1)
print('recorded', key, h)
