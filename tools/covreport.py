#!/venv/bin/python -B
"""tools/covreport.py <covdir>: lines of /repo/glom (non-test) never executed by the shards that wrote <covdir>
(developer aid: VERIF_COV=<covdir> ./check <ID> quick; not a registered check)"""
import ast, json, os, sys
covdir = sys.argv[1]
hits = {}
for fn in os.listdir(covdir):
    for f, l in json.load(open(os.path.join(covdir, fn))):
        hits.setdefault(f, set()).add(l)
root = '/repo/glom'
tot = miss = 0
for f in sorted(os.listdir(root)):
    if not f.endswith('.py') or f.startswith('_') and f != '__init__.py':
        continue
    src = open(os.path.join(root, f)).read()
    tree = ast.parse(src)
    lines = set()
    for node in ast.walk(tree):
        if isinstance(node, ast.stmt) and not isinstance(node, (ast.FunctionDef, ast.ClassDef, ast.Import, ast.ImportFrom)):
            if isinstance(node, ast.Expr) and isinstance(node.value, ast.Constant) and isinstance(node.value.value, str):
                continue
            lines.add(node.lineno)
    h = hits.get(f, set())
    missing = sorted(lines - h)
    tot += len(lines); miss += len(missing)
    print('%s: %d statements, %d never executed' % (f, len(lines), len(missing)))
    # group into ranges
    rng = []
    for l in missing:
        if rng and l - rng[-1][1] <= 2:
            rng[-1][1] = l
        else:
            rng.append([l, l])
    print('   ' + ' '.join('%d-%d' % (a, b) if a != b else str(a) for a, b in rng))
print('total %d statements, %d never executed (%.1f%% covered)' % (tot, miss, 100.0 * (tot - miss) / tot))
