#!/usr/bin/env python3
"""tools/addfixed.py PID KEY 'commit-subject-fragment' 'what'  - record a repaired finding from the replay file
replays/<KEY>.json (a replay as written by the runner: property, sub, recipe); the file is re-written as
replays/<PID>-<KEY>.json by tools/addfinding.py, which the runner's replay tier picks up."""
import json, os, subprocess, sys
pid, key, frag, what = sys.argv[1:5]
src = '/verif/replays/%s.json' % key
r = json.load(open(src))
assert r.get('property', pid) == pid, (r.get('property'), pid)
subprocess.check_call([sys.executable, '/verif/tools/addfinding.py', pid, key, 'fixed', frag, r['sub'], what,
                       json.dumps(r['recipe'])])
os.remove(src)
