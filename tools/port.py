#!/venv/bin/python -B
"""tools/port.py <seed-name> <relative file> : re-create seeded/<name>/patch.diff against the current /repo.
stdin: blocks 'OLD\n<<<<\nNEW\n====\n' (one or more) - each OLD must occur exactly once in the current file."""
import sys, os, re, subprocess, tempfile, shutil
name, rel = sys.argv[1], sys.argv[2]
src = open(os.path.join('/repo', rel)).read()
blocks = sys.stdin.read().split('\n====\n')
new = src
for b in blocks:
    if not b.strip():
        continue
    old, repl = b.split('\n<<<<\n')
    assert new.count(old) == 1, ('OLD not found exactly once', old[:80], new.count(old))
    new = new.replace(old, repl)
d = tempfile.mkdtemp()
try:
    a, bdir = os.path.join(d, 'a', rel), os.path.join(d, 'b', rel)
    os.makedirs(os.path.dirname(a)); os.makedirs(os.path.dirname(bdir))
    open(a, 'w').write(src); open(bdir, 'w').write(new)
    out = subprocess.run(['diff', '-u', os.path.join('a', rel), os.path.join('b', rel)], cwd=d, stdout=subprocess.PIPE).stdout.decode()
    out = re.sub(r'^(--- a/\S+|\+\+\+ b/\S+)\t.*$', r'\1', out, flags=re.M)
    open(os.path.join('/verif/seeded', name, 'patch.diff'), 'w').write(out)
    print('ported', name, len(out.splitlines()), 'lines')
finally:
    shutil.rmtree(d)
