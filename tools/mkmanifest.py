#!/usr/bin/env python3
"""Regenerates /verif/MANIFEST.json from the table below (run after adding a check)."""
import json
import os

HERE = os.path.dirname(os.path.dirname(os.path.abspath(__file__)))

# id -> (technique, level text, level note, design ref)
CHECKS = {
    'C01': ('Hypothesis type-directed generation (paths obtained by walking the generated target) vs a reference walker; '
            'identity, error position, carried exception, except-clause catchability and access-log equality',
            'Generated-input search: thousands of (target, path) cases per run, each evaluated in every spelling the '
            'path admits, compared with an independent 15-line walker; recording containers prove no later segment is '
            'touched. Exploration is the right level: the property quantifies over an unbounded grammar of targets and '
            'paths and the oracle is exact and cheap.',
            'Trusted: the reference walker in vf/props/c01.py and the recording subclasses in vf/targets.py. Bounds: '
            'target depth <= 4, width <= 3, path length <= 6.',
            'DESIGN.md section 4 / C01'),
    'C02': ('Hypothesis type-directed generation of T-expression operation sequences (each step chosen by reference '
            'evaluation of the prefix) vs direct application of the same operations with the operator module; echo-call '
            'logs compare argument pass-through and evaluation order',
            'Generated-input search with an exact differential oracle (plain Python evaluation of the same chain). '
            'Covers every operator kind, nested T/Spec arguments evaluated against the original target, first-failure '
            'position for attribute/item/arithmetic failures, and that nothing right of the first failure is evaluated '
            '(side-effecting nested arguments).',
            'Trusted: vf/texpr.py ref_eval. Bounds: <= 7 operations, small integer operands, exponent <= 3. Failing call '
            'steps: only class preservation is asserted (DESIGN.md section 6); unusual error classes of item / slice / arithmetic '
            'steps must surface as PathAccessError with the position (finding F76).',
            'DESIGN.md section 4 / C02'),
    'C18': ('Hypothesis-generated T/Path recipes with eval(repr) and pickle round-trips compared on repr, operation tuple and '
            'outcome over a battery of targets; Path-as-sequence laws vs the tuple of steps; exhaustive itertools '
            'enumeration of every index and (start, stop, step) triple',
            'Generated-input search with round-trip and differential oracles, plus complete enumeration of the finite '
            'index/slice domain (n <= 4 quick, n <= 6 thorough, T and S roots). The round-trip compares operation tuples '
            'and evaluation, not just repr strings, so a repr that drops information is caught even if it is stable.',
            'Trusted: Python eval/pickle, tuple slicing as the reference for Path slicing, vf/texpr.py builders. '
            'Not generated: arithmetic steps, lambdas, complex numbers, S-rooted wildcards (DESIGN.md F20); Path(p, q) with '
            'an S-rooted Path p is exercised as Path(p.path_t, q). Bounds: <= 6 steps, literals nested <= 2.',
            'DESIGN.md section 4 / C18'),
    'C09': ('Hypothesis-generated pattern recipes with targets derived from the pattern, one-edit mutations and unrelated '
            'values, compared with an independent reference matcher (accept/reject both ways, result, error class, '
            'matches()/verify(), default, target snapshot)',
            'Generated-input differential testing against a reference matcher that implements only the documented rules; '
            'checks soundness and completeness (false accepts and false rejects), the returned value incl. Optional '
            'defaults and container types, the rejection class, and non-mutation. Distribution floors keep accepted, '
            'rejected and near-miss cases each above 20-25%.',
            'Trusted: refmatch() in vf/props/c09.py. Not generated: plain callables as dict keys, two Optional keys for one '
            'key. TypeError-ness asserted only when a type rule fails with no alternative/Or/Not above it. Bounds: depth <= 3.',
            'DESIGN.md section 4 / C09'),
    'C10': ('Hypothesis-generated combinator trees (constructor-built with defaults, operator-built with & | ~, and mixtures), '
            'Switch case lists and Check keyword combinations vs Python and/or/not over the atoms; logging predicates '
            'and probes observe short-circuiting and which Switch value spec ran',
            'Generated-input search with an exact boolean reference: pass/fail, yielded value (last child of And, first '
            'passing child of Or, target for Not), default handling, rejection class, evaluation log equality '
            '(no later Or child / Switch case evaluated), CheckError listing every failed condition.',
            'Trusted: refbool() and the Check reference in vf/props/c10.py. A comparison that raises in Python, or whose result '
            'has no truth value, is a rejection by MatchError (findings F58, F94). Validators are total predicates. '
            'Bounds: tree depth <= 4, <= 3 children, <= 4 Switch cases.',
            'DESIGN.md section 4 / C10'),
    'C14': ('Hypothesis-generated object graphs (shared nodes, cycles, raising containers) and wildcard paths in three '
            'spellings vs a breadth-first reference enumeration compared by identity; access-budgeted recording '
            'containers decide termination; Assign/Delete through 1-3 wildcards vs a Python loop over the reference entries',
            'Generated-input differential testing. The reference is a 40-line BFS with an identity-keyed visited set; '
            'entries are compared by identity and nesting depth, misses after a wildcard must be dropped, an error '
            'before the first wildcard must surface. Non-termination is detected deterministically by an access budget '
            '(BaseException), not by a clock. Mutation through wildcards compares the operation log and the final structure.',
            'Trusted: refstar()/children() in vf/props/c14.py. Containers in generated graphs are slot-based recording '
            'subclasses (no instance __dict__, see known finding F14). Bounds: graph depth <= 4, <= 3 wildcards, at most two **.',
            'DESIGN.md section 4 / C14'),
    'C11': ('Hypothesis-generated targets and destination paths obtained by walking the target (prefix stops existing at '
            'every position), all spellings, value kinds and missing factories vs plain Python assignment on an '
            'independently built copy; structure-and-identity snapshots decide atomicity and the frame condition',
            'Generated-input differential testing: success => same object returned, final structure equals the plain '
            'Python assignment, read-back yields the value (the source object itself for T/Spec values), every position '
            'that keeps its identity under plain assignment keeps it under glom, factory called once per absent segment; '
            'failure (absent parent, refused assignment, immutable container, read-only property, raising factory) => an '
            'error and a bit-identical snapshot. Assign through 1-3 wildcards shares the C14 oracle.',
            'Trusted: ref_assign() in vf/props/c11.py, snapshots in vf/targets.py. Targets are tree-shaped; recording '
            'containers are slot-based (no instance __dict__, see F14). Bounds: depth <= 3, path length <= 4.',
            'DESIGN.md section 4 / C11'),
    'C12': ('Hypothesis-generated targets and paths obtained by walking the target (parent/final element present or absent '
            'at every position, boundary out-of-range indexes), all spellings, ignore_missing on/off, vs Python del on an '
            'independently built copy; snapshots decide "or nothing"',
            'Generated-input differential testing: success => same object returned and exactly the effect of del (later '
            'items shift, identities elsewhere preserved); absent final => PathDeleteError, absent parent => '
            'PathAccessError, both with an unchanged snapshot; ignore_missing=True => silent no-op; refused deletions => '
            'error and unchanged snapshot. Delete through 1-3 wildcards shares the C14 oracle.',
            'Trusted: ref_delete() in vf/props/c12.py. Under ignore_missing=True a *refused* deletion (fault) is only required '
            'to leave the target unchanged. Bounds: depth <= 3, path length <= 4.',
            'DESIGN.md section 4 / C12'),
    'C15': ('Hypothesis-generated element sequences x init/op/levels combinations for Fold, Sum, Flatten (eager and lazy), '
            'Merge, flatten() and merge() vs functools.reduce / chain.from_iterable / dict.update; each spec object is '
            'evaluated 2-3 times with counting factories and input snapshots',
            'Generated-input differential testing with exact Python references; additionally init() is counted (fresh per '
            'evaluation), the accumulator must be a fresh object that is neither an input nor a previous result, inputs '
            'keep an identical structure-and-identity snapshot, non-iterable targets raise FoldError.',
            'Trusted: the Python reductions. Floats are dyadic rationals so == is exact. Mismatched init/op combinations: '
            'only "both raise" is asserted. Bounds: <= 4 elements, nesting <= 3, levels <= 3.',
            'DESIGN.md section 4 / C15'),
    'C16': ('Hypothesis-generated item sequences x Group spec trees (1-3 key levels, all listed leaf aggregators, top-level '
            'Limit) vs an explicit bucketing loop; every spec object is evaluated repeatedly, per row of a list spec and '
            'inside another Group\'s aggregator to expose state carried between evaluations',
            'Generated-input differential testing: key order (first occurrence), value order (encounter), SKIP handling, '
            'aggregator values, plus metamorphic re-use checks (second evaluation, evaluation after other data, per-row '
            'evaluation, nested Group) and identity-disjointness of the results of separate evaluations.',
            'Trusted: refgroup() in vf/props/c16.py. Known finding F15 (First below a key level) is isolated in its own '
            'sub-check and recognised by an emulation-based classifier. Bounds: <= 8 items, <= 3 key levels.',
            'DESIGN.md section 4 / C16'),
    'C17': ('Hypothesis-generated, type-tracked stage sequences over finite and endless instrumented sources vs the same '
            'stages written as independent generator functions; source pull counts decide laziness; builder histories '
            '(prefix re-used after being extended) for Iter and Invoke',
            'Generated-input differential testing: the first k outputs are equal, the number of items pulled from the source '
            'stays within the reference plus a per-stage look-ahead allowance (endless sources with a pull budget make '
            'eagerness a deterministic failure), first()/all() terminate as documented, every spec is evaluated twice, '
            'and deriving specs from a base never changes the base (repr, stage list, behaviour) or its siblings.',
            'Trusted: refpipe() and the reference stages in vf/props/c17.py (own chunked/windowed/split/unique, not boltons). '
            'Bounds: <= 4 stages (+3 in builder histories), parameters <= 7, k <= 10 outputs, pull budget 3000.',
            'DESIGN.md section 4 / C17'),
    'C13': ('Hypothesis-generated registration/lookup histories over a fresh 20-class family (chains, diamond, mixin, ABC virtual '
            'subclass, metaclass duck type, slot-only / dict-bearing / iterable classes, builtin subclasses) replayed on '
            'Glommer(), a bare Glommer and the module-level registry (forked child), vs a validity predicate over the '
            'admissible set of nearest registered types',
            'Model-based generated histories: after every register() every class is looked up for every operation (so stale '
            'memo entries are observable), warm-up lookups precede registrations, the handler that ran must be registered '
            'for a minimal admissible type, exact beats ancestors, bystander registries must be unaffected, and a default '
            'Glommer must agree with module-level glom on a pool of access / assign / delete cases.',
            'Trusted: Model.admissible() in vf/props/c13.py. Known finding F14 (internal duck types capture iterable / '
            'dict-bearing instances) is counted and skipped so that histories continue behind it. Unrelated registered bases: '
            'either handler accepted. Bounds: <= 6 registrations per history.',
            'DESIGN.md section 4 / C13'),
    'C03': ('Hypothesis type-directed generation of auto-mode spec trees (each sub-spec generated against the value it will '
            'receive, by reference evaluation of the prefix) vs a direct recursive reference interpreter; named probes give '
            'call-log equality (once, left to right); metamorphic wrappers (Spec(x), (x,), Pipe(x)) and tuple composition',
            'Generated-input differential testing: result deep-equal incl. container types and dict key order, error class on '
            'failure, probe call logs identical (no sub-spec evaluated twice, Coalesce never evaluates alternatives after the '
            'winner, superseded Invoke keywords not evaluated), SKIP/STOP at every position incl. chains nested in chains, '
            'glom(t,(a,b)) == glom(glom(t,a),b), Val identity (enumerated).',
            'Trusted: refauto() in vf/props/c03.py. Order of key vs value evaluation for T/Spec dict keys not asserted. '
            'Bounds: depth <= 4, width <= 3.',
            'DESIGN.md section 4 / C03'),
    'C04': ('exhaustive itertools enumeration of (exception catalogue + glom-detected failures) x wrapper x default x skip_exc x '
            'glom_debug for nesting depth <= 1; Hypothesis-generated deeper nestings, re-entrant nestings (fault raised '
            'inside nested glom / Spec.glom / Glommer.glom / first(key=) calls) and same-named-class histories',
            'Fault enumeration with an executable oracle taken from the statement: class and args preserved, GlomError-ness '
            'exactly when the class can be rebuilt from its args, documented class for glom-detected failures, default '
            'object returned (identity) exactly when the error matches the effective skip_exc at its origin, BaseExceptions '
            'propagate as the same object, glom_debug propagates the original object; str() of the raised error must work.',
            'Trusted: judge() in vf/props/c04.py. Exceptions raised by registered accessors inside a path step are '
            'PathAccessErrors by C01 and are not fault sites here; StopIteration crossing a generator frame is Python\'s '
            'PEP 479 and excluded. Bounds: nesting depth <= 4, re-entrancy depth <= 3.',
            'DESIGN.md section 4 / C04'),
    'C07': ('Hypothesis-generated placements of binders and readers over chains and branching containers vs a static '
            'environment calculus transcribed from the statement; each spec evaluated twice, with and without a caller scope; '
            'Match-dict key bindings over several entries; Ref nearest-enclosing resolution on recursive tree specs',
            'Generated-input differential testing: what every reader sees (two names, unique values, so shadowing and leaks '
            'are observable), which Coalesce/Or/Switch branch ran, globals / Vars contents read before they are written on '
            'the second evaluation (nothing may outlive a call), caller mapping unchanged, a Match-dict key passes its '
            'bindings to its own value only, sibling Ref definitions do not capture.',
            'Trusted: ev() in vf/props/c07.py. Spec(scope=) and Ref definitions as chain steps are wrapped in a 1-tuple '
            '(their visibility to later steps is not asserted). Bounds: depth <= 4, <= 3 children, names k, j, v.',
            'DESIGN.md section 4 / C07'),
    'C08': ('Hypothesis-generated trees of mode wrappers and mode-sensitive probes vs per-mode reference readings (mode = '
            'innermost syntactically enclosing wrapper); generated literal containers incl. cyclic ones x 13 positions '
            '(Fill + 12 argument positions) vs a reference builder with graph-isomorphism comparison',
            'Generated-input differential testing: on a self-similar target the Auto / Fill / Match / Group readings of a '
            'probe give four different outcomes, so a mode that leaks to a later chain step, a sibling, or a Switch case is '
            'visible; shape: same container types and shape, T/Spec/Val leaves replaced, strings/numbers kept, callables '
            'called under Fill and kept in argument position, cyclic literals reproduced isomorphically and rebuilt.',
            'Trusted: ev() and RefBuilder in vf/props/c08.py. Group wraps probes only; errors compared by category. '
            'Bounds: wrapper nesting <= 3 (tree depth <= 4), literal depth <= 4.',
            'DESIGN.md section 4 / C08'),
    'C19': ('Hypothesis-generated (target, literal spec, channel, format, flags) tuples run through glom.cli.main in-process and '
            'through real `python -m glom` subprocesses, compared with json.dumps(glom(...)); generated hostile spec texts '
            'with an execution canary and ast.literal_eval as differential oracle',
            'Generated-input differential testing of the whole CLI surface: stdout and exit status must equal what the '
            'library computes for json / python / yaml / toml targets delivered by argv, file or stdin with --indent and '
            '--scalar; GlomError => status 1 and the class name; malformed or unreadable targets => usage error and no '
            'result; non-literal spec texts must neither execute (canary reachable by name and through dunder walks) nor '
            'produce a result.',
            'Trusted: json.dumps / ast.literal_eval / yaml.safe_dump and a 15-line TOML writer. Malformed spec text is only '
            'required not to execute. Bounds: target depth <= 3, spec depth <= 3; 64 subprocess cases in the quick tier.',
            'DESIGN.md section 4 / C19'),
    'C20': ('exhaustive enumeration (itertools) of all interleavings of every pair and triple of a 14-entry evaluation pool under '
            'a baton-passing thread scheduler that owns the schedule at user-callable granularity; free-running threads '
            'under a minimal switch interval; Hypothesis-generated re-entrant nestings injected through the specs\' own probes',
            'Schedule enumeration with an exact oracle: each evaluation\'s value, or error class and full trace text, must '
            'equal its isolated outcome. The pool covers scope bindings, Vars/globals, modes, Group accumulators, '
            'argument-mode containers, spec objects shared between evaluations, a shared scope= mapping and a shared '
            'Glommer. Re-entrant nestings (depth <= 3, via glom / Spec.glom / Glommer.glom, inner failures caught by an outer '
            'Coalesce or default=) use the very spec objects that are evaluated alone.',
            'Trusted: vf/props/c20.py Sched (one runnable thread at a time). Pre-emption inside glom bytecode is only '
            'sampled (free sub-check). Bounds: pairs with <= 4 yield points each, triples with 2 each (every 7th triple in the quick tier).',
            'DESIGN.md section 4 / C20'),
    'C06': ('Hypothesis-generated call histories (model-based: pool of (target, spec) pairs from eight grammars; call / re-use the '
            'same spec object / flood the path memo incl. 10 050 strings / toggle PATH_STAR / register / Glommer register / '
            'Spec.glom) with a cold-vs-warm metamorphic oracle: every outcome is compared with the same call made first in a '
            'pristine process',
            'Generated histories with two oracles: (a) frame - structure-and-identity snapshots of target, spec object and '
            'caller scope mapping are identical before and after every call; (b) history independence - the canonical outcome '
            '(value structure, or error class and message) equals that of a forked child of a fresh interpreter that imported '
            'glom and never called it, under the same PATH_STAR value and registrations.',
            'Trusted: vf/cold.py (pristine reference server), canonicalisation in cold.canon_outcome. Module-level registrations '
            'are of throw-away classes; meaningful registrations go to a per-history Glommer. Bounds: <= 12 steps, pool <= 4.',
            'DESIGN.md section 4 / C06'),
    'C05': ('Hypothesis-generated spec shapes with one planted terminal failure and recovered failing branches before it; the '
            'evaluation tree recorded through the scope[glom] extension point is the ground truth against which the parsed '
            'trace (| depth markers) is checked rule by rule; widths 50..200',
            'Generated-input search with structural oracles taken from the statement: header; root target first; one Spec line '
            'per nesting level of the failing path, in order; the innermost failing spec shown with the target it received '
            '(branch-aware); attempted branches of every branch point on the path shown with the error that ended them; no '
            'Spec line for anything outside the failing path / its completed chain steps / its attempted branches (stale or '
            'forgiven branches are visible because every leaf has a unique repr); no error printed more often than it occurred; '
            'message ends with the original error; str(exc) stable; same structure and no over-long line at every width.',
            'Trusted: the tracer installed via scope[glom] and the rules in check_trace(). This is a set of necessary conditions '
            'derived from the statement, not a byte-exact renderer (DESIGN.md explains why). Bounds: depth <= 5.',
            'DESIGN.md section 4 / C05'),
}

NOT_YET = 'check not built yet in this session (design in DESIGN.md section 4); will be claimed once its check is quiet on the unchanged tree'


def main():
    props = [json.loads(l) for l in open(os.path.join(HERE, 'properties.jsonl'))]
    checks = []
    na = []
    for p in props:
        pid = p['id']
        if pid in CHECKS and os.path.exists(os.path.join(HERE, 'vf', 'props', pid.lower() + '.py')):
            tech, text, note, ref = CHECKS[pid]
            checks.append({
                'property_id': pid,
                'quick_cmd': './check %s quick' % pid,
                'thorough_cmd': './check %s thorough' % pid,
                'evidence_file': 'evidence/%s.json' % pid,
                'replay_cmd_template': './check %s --replay {path}' % pid,
                'engine': 'vf',
                'level_claimed': {'category': 'exploration', 'text': text, 'design_ref': ref},
                'level_note': note,
                'technique': tech,
            })
        else:
            na.append({'property_id': pid, 'reason': NOT_YET})
    man = {
        'version': 1,
        'setup_cmd': './setup.sh',
        'hooks': {
            'guard': 'MAHMOUD_GLOM_VERIF',
            'enable': 'no source hooks are needed: every observation point is reachable through public behaviour '
                      '(return values, exception objects, str(exc), spy containers, the documented scope[glom] extension '
                      'point); checks import the working tree directly (python -B, VERIF_REPO=/repo first on sys.path)',
            'baseline_off_cmd': 'cd /repo && /venv/bin/python -m pytest -ra -q -p no:cacheprovider --timeout=900 '
                                '--continue-on-collection-errors',
            'source_commits': [],
            'add_only': True,
        },
        'engines': [
            {'name': 'vf', 'path': 'vf/', 'serves_properties': [c['property_id'] for c in checks],
             'kind_free_text': 'Hypothesis-driven property-based testing framework: JSON recipes, reference models, '
                               'sharded runner, shrinking to replay files, known-finding classifiers, evidence writer'},
        ],
        'checks': checks,
        'not_applicable': na,
        'notes': 'All checks: ./check <ID> quick|thorough, VERIF_SEED honoured, exit 0/1/2 (2 = harness error). '
                 'Replay: ./check <ID> --replay <file>. Known findings: known_findings.json.',
    }
    with open(os.path.join(HERE, 'MANIFEST.json'), 'w') as f:
        json.dump(man, f, indent=1)
        f.write('\n')
    print('MANIFEST.json: %d checks, %d not claimed' % (len(checks), len(na)))


if __name__ == '__main__':
    main()
