#!/bin/sh
# tools/sweep.sh [tier] [seeds...]  - run every registered check at the given seeds, print one line each
tier=${1:-quick}; shift
seeds=${@:-1}
cd "$(dirname "$0")/.."
for id in $(python3 -c "import json;print(' '.join(c['property_id'] for c in json.load(open('MANIFEST.json'))['checks']))"); do
  for s in $seeds; do
    start=$(date +%s)
    out=$(VERIF_SEED=$s ./check $id $tier 2>&1); rc=$?
    end=$(date +%s)
    echo "$id seed=$s rc=$rc $((end-start))s $(echo "$out" | grep -E "^C[0-9]+ (quick|thorough)" | tail -1 | cut -c1-120)"
    if [ $rc -ne 0 ]; then echo "$out" | grep -E "VIOLATION|HARNESS|sub=" | head -5 | cut -c1-400; fi
  done
done
