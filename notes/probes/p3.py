from glom import *
log = []
class F:
    def __init__(s, name, ret=None, exc=None): s.name, s.ret, s.exc = name, ret, exc
    def __call__(s, t):
        log.append((s.name, t))
        if s.exc: raise s.exc
        return t if s.ret is None else s.ret
    def __repr__(s): return 'F(%s)' % s.name
def run(t, spec, **kw):
    log.clear()
    try: r = glom(t, spec, **kw)
    except Exception as e: r = ('EXC', type(e).__name__)
    print(repr(spec)[:90], '->', repr(r), '| log', [n for n, _ in log])
run(1, {'a': F('a'), 'b': F('b'), 'c': (F('c1'), F('c2'))})
run(1, {Spec(F('k', 'key')): F('v')})
run(1, {T: F('v')})
run([1,2], [F('e')])
run(1, (F('s1'), F('s2', SKIP), F('s3'), F('s4', STOP), F('s5')))
run(1, Coalesce(F('c1', exc=GlomError('x')), F('c2'), F('c3')))
run(1, Coalesce(F('c1', 0), F('c2', 5), F('c3'), skip=0))
run(1, Coalesce(F('c1', 0), skip=0, default=Spec(F('d'))))
run(1, Coalesce(F('c1', exc=ValueError('x')), F('c2'), skip_exc=ValueError))
run(1, Coalesce(F('c1', exc=ValueError('x')), F('c2')))
run(1, Call(F('fn'), args=(Spec(F('a1')), Spec(F('a2'))), kwargs={}))
run(1, Call(lambda *a, **k: (a, k), args=(Spec(F('a1', 'A1')),), kwargs={'k': Spec(F('k1', 'K1'))}))
run(1, Invoke(lambda *a, **k: (a, k)).specs(F('s1', 'S1')).constants(2, c=3).specs(x=F('sx', 'SX')).star(args=F('st', [7, 8])))
run({'f': lambda *a: a}, Invoke.specfunc('f').specs(F('s1', 'S1')))
run(1, Val(F('never')))
run(1, Spec(F('sp')))
run({'v': 1, 'n': {'v': 2, 'n': None}}, Ref('r', {'v': ('v', F('leaf')), 'n': ('n', Coalesce(Call(lambda x: x and SKIP, args=(T,)), Ref('r'), skip=SKIP, default=None))}))
run(1, Pipe(F('p1'), F('p2')))
run(1, (F('a'), [F('b')]), default='D')
run([1, 2, 3], [Coalesce(F('x', SKIP), skip=SKIP, default=STOP)])
run(1, {'a': F('a', SKIP), 'b': F('b', STOP)})
run(1, T.real.__add__(Spec(F('arg', 10))))
run(1, Fill([F('f1'), (F('f2'), F('f3'))]))
run(1, Auto((F('a'), Fill((F('f2'), F('f3'))))))
