from glom import *
from glom.matching import *
import sys
def tr(label, t, s):
    try: glom(t, s); print(label, 'no error')
    except Exception as e:
        try: print(label, '->', str(e).replace('\n', '\n      '))
        except RecursionError as r: print(label, '-> str(e) raised RecursionError')
t = {'a': 'str'}
tr('Check(Coalesce)', t, Check(Coalesce('x', 'a'), type=int))
tr('Not(Or)', 1, Not(Or(M == 2, M == 1)))
tr('Coalesce skip', t, Coalesce(Coalesce('x', 'a'), skip='str'))
tr('Sum(Coalesce)', t, Sum(Coalesce('x', 'a')))
tr('M(T) cmp', t, And(Coalesce('x', 'a'), M == 5))
tr('Call', t, Call(int, args=(Coalesce('x', 'a'),)))
tr('dict then fail', t, {'k': Coalesce('x', 'a'), 'j': T['zz']})
tr('Invoke', t, Invoke(int).specs(Coalesce('x', 'a')))
tr('callable after', t, (Coalesce('x', 'a'), int))
tr('Match Or', t, Match({'a': And(Or(int, str), M == 'zz')}))
