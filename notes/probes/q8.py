from glom import *
from glom.matching import *
def tr(label, t, s):
    try: glom(t, s); print(label, 'no error')
    except Exception as e:
        try: print(label, '->', str(e).replace('\n', '\n      '))
        except RecursionError as r: print(label, '-> str(e) raised RecursionError')
tr('Not(Not(fail))', 1, Not(Not(M == 2)))
tr('Check(Coalesce single recovered)', {'a': 1}, Check(Coalesce('x', default=5), type=str))
tr('Check(Or(fail, ok))', {'a': 1}, Check(Or('x', 'a'), type=str))
tr('Sum(Coalesce(default))', {'a': 1}, Sum(Coalesce('x', default=5)))
tr('Coalesce skip after recovered', {'a': 1}, Coalesce(Coalesce('x', default=5), skip=5))
tr('Match default inner', {'a': 1}, Check(Match(str, default=5), type=str))
