from glom import *
from glom.core import TargetRegistry, UnregisteredTarget, _AbstractIterable, _ObjStyleKeys
import itertools, random
from collections import OrderedDict
class A: pass
class B(A): pass
class C(B): pass
class D(A): pass
class E(B, D): pass   # diamond
class L(list): pass
class L2(L): pass
class DD(dict): pass
class Sl:
    __slots__ = ('x',)
class SlB(Sl):
    __slots__ = ()
class It(A):
    def __iter__(self): return iter(())
def tag(name):
    def h(obj, k=None): return ('H', name)
    return h
classes = [A, B, C, D, E, L, L2, DD, Sl, SlB, It]
def admissible(obj, regs, default_types, duck):
    t = type(obj)
    if t in regs:
        return {t.__name__}, set()
    cands = [c for c, exact in regs.items() if not exact and isinstance(obj, c)]
    cands += [c for c in default_types if isinstance(obj, c) and c not in regs]
    mins = [c for c in cands if not any((o is not c and issubclass(o, c)) for o in cands)]
    ducks = {c.__name__ for c in duck if isinstance(obj, c)}
    return {c.__name__ for c in mins}, ducks
rnd = random.Random(7)
stats = {'ok':0, 'duck':0, 'bad':0}
for trial in range(6000):
    use_default = rnd.random() < 0.5
    g = Glommer(register_default_types=use_default)
    reg = g.scope[TargetRegistry]
    regs = {}
    n = rnd.randint(1, 5)
    log = []
    for _ in range(n):
        cls = rnd.choice(classes)
        exact = rnd.random() < 0.3
        g.register(cls, get=tag(cls.__name__), exact=exact)
        prev = regs.get(cls)
        regs[cls] = exact if prev is None else (prev and exact)
        log.append((cls.__name__, exact))
        if rnd.random() < 0.5:
            try: g.glom(rnd.choice(classes)(), 'x')
            except Exception: pass
    default_types = [object, dict, list, tuple, OrderedDict] if use_default else []
    duck = [_AbstractIterable, _ObjStyleKeys] if use_default else []
    for cls in classes:
        obj = cls()
        try:
            h = reg.get_handler('get', obj)
            got = h(obj, 'x') if h not in (getattr,) and getattr(h, '__name__', '') == 'h' else ('default', getattr(h, '__name__', str(h)))
        except UnregisteredTarget:
            got = None
        adm, ducks = admissible(obj, regs, default_types, duck)
        if isinstance(got, tuple) and got[0] == 'H':
            ok = got[1] in adm
        elif got is None:
            ok = not adm
        else:
            ok = bool(adm & {'object','dict','list','tuple','OrderedDict'})
        if ok: stats['ok'] += 1
        elif ducks and not (isinstance(got, tuple) and got[0]=='H'):
            stats['duck'] += 1
        else:
            stats['bad'] += 1
            if stats['bad'] < 12: print(use_default, log, cls.__name__, 'got', got, 'adm', adm, ducks)
print(stats)
