import random, sys
from glom import *
from collections import OrderedDict
rnd = random.Random(int(sys.argv[1]) if len(sys.argv) > 1 else 0)
class O:
    def __init__(s, **kw): s.__dict__.update(kw)
def gen_graph():
    nodes = []
    def mk(d):
        r = rnd.random()
        if nodes and r < 0.15: return rnd.choice(nodes)          # shared / back edge (cycle possible since containers registered before fill)
        if d <= 0 or r < 0.35: return rnd.choice([1, 2, 'xy', None, 3.5, (), frozenset([1])])
        if r < 0.6:
            c = {}; nodes.append(c)
            for k in rnd.sample(['a', 'b', 'k', 'z'], rnd.randint(0, 3)): c[k] = mk(d-1)
            return c
        if r < 0.8:
            c = []; nodes.append(c)
            for _ in range(rnd.randint(0, 3)): c.append(mk(d-1))
            return c
        if r < 0.9:
            c = O(); nodes.append(c)
            for k in rnd.sample(['a', 'k'], rnd.randint(0, 2)): setattr(c, k, mk(d-1))
            return c
        return tuple(mk(d-1) for _ in range(rnd.randint(0, 2)))
    return mk(4)
def children(v):
    if isinstance(v, dict): return list(v.values())
    if isinstance(v, (list, tuple, set, frozenset)): return list(v)
    if hasattr(v, '__dict__') and not isinstance(v, type): return list(v.__dict__.values())
    return []
def get(v, seg):
    if isinstance(v, dict): return v[seg]
    if isinstance(v, (list, tuple)): return v[int(seg)]
    return getattr(v, seg)
def ref(v, segs):
    if not segs: return v
    s, rest = segs[0], segs[1:]
    if s == '*':
        out = []
        for c in children(v):
            try: out.append(ref(c, rest))
            except (KeyError, IndexError, AttributeError, ValueError, TypeError): pass
        return out
    if s == '**':
        seen = {id(v)}; order = [v]; queue = list(children(v)); i = 0
        items = list(children(v))
        while i < len(items):
            it = items[i]; i += 1
            if id(it) not in seen:
                seen.add(id(it)); items.extend(children(it))
        out = []
        for c in [v] + items:
            try: out.append(ref(c, rest))
            except (KeyError, IndexError, AttributeError, ValueError, TypeError): pass
        return out
    return ref(get(v, s), rest)
def same(a, b):
    if isinstance(a, list) and isinstance(b, list) and (a is not b):
        return len(a) == len(b) and all(same(x, y) for x, y in zip(a, b))
    return a is b or (type(a) == type(b) and not isinstance(a, (dict, list, O)) and a == b)
bad = {}; N = 30000; nt = 0
for i in range(N):
    g = gen_graph()
    segs = [rnd.choice(['*', '**', 'a', 'k', '0', 'z']) for _ in range(rnd.randint(1, 4))]
    if not any(s in ('*', '**') for s in segs) or segs.count('**') > 1: continue
    if '**' in segs and segs.index('**') != [j for j, s in enumerate(segs) if s in ('*', '**')][0]:
        pass
    try: exp = ('ok', ref(g, segs))
    except (KeyError, IndexError, AttributeError, ValueError, TypeError) as e: exp = ('err', )
    except RecursionError: continue
    try: got = ('ok', glom(g, '.'.join(segs)))
    except GlomError as e: got = ('err', )
    nt += 1
    ok = exp[0] == got[0] and (exp[0] == 'err' or same(exp[1], got[1]))
    if not ok:
        # classify: known root re-expansion?
        root_cyc = False
        k = 'F8?' if '**' in segs else 'other'
        bad.setdefault(k, []).append((segs, repr(g)[:100], repr(exp)[:120], repr(got)[:120]))
for k, v in bad.items():
    print(k, len(v))
    for x in v[:5]: print('   ', x)
print('cases', nt)
