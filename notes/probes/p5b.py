from glom import *
from glom.matching import *
def tr(t, s, **kw):
    try: r = glom(t, s, **kw); print('NO ERROR', r)
    except Exception as e: print(str(e)); 
    print('='*60)
t = {'a': {'b': {'c': 1}}, 'z': 'zz'}
# recovered branch inside list then failure in later sibling of dict
tr(t, {'k1': Coalesce('x', 'z'), 'k2': 'nope'})
# Coalesce whose 2nd branch succeeds, then *within the same tuple* next step fails: stale first-branch?
tr(t, (Coalesce(('a','x'), 'a'), 'q'))
# nested: branch inside chain inside branch
tr(t, Coalesce(('a', Coalesce('x', ('b', 'y')), 'w'), ('z', 'u')))
# Or/And/Not
tr(1, Or(M == 2, And(M == 1, M > 5), Not(M == 1)))
# nested completed tuple
tr(t, (('a','b'), 'zzz'))
# completed step returning SKIP
tr(t, ('a', Val(SKIP), 'zzz'))
# list with failing at element 2 after coalesce recovered on element 1
tr([{'p': 1}, {'q': 2}], [Coalesce('p', 'q')] )
tr([{'p': 1}, {'r': 2}], [Coalesce('p', 'q')] )
tr([{'p': 1}, {'r': 2}], ([Coalesce('p', 'q', default=0)], T[1], T.real.nope) )
# glom re-entrancy inside callable
tr(t, ('a', lambda x: glom(x, 'b.nope')))
