import random, sys, copy
from glom import *
from glom.grouping import Group, First, Max, Min, Avg, Limit
from glom.reduction import Count
rnd = random.Random(int(sys.argv[1]) if len(sys.argv) > 1 else 0)
KEYS = {
  'mod2': (lambda: T % 2, lambda x: x % 2),
  'mod3': (lambda: T % 3, lambda x: x % 3),
  'big':  (lambda: (lambda x: 'big' if x > 4 else 'small'), lambda x: 'big' if x > 4 else 'small'),
  'skipodd': (lambda: (lambda x: SKIP if x % 2 else x % 4), lambda x: SKIP if x % 2 else x % 4),
  'const': (lambda: Val('all'), lambda x: 'all'),
}
LEAVES = ['list', 'listx2', 'first', 'max', 'min', 'avg', 'sum', 'count', 'aggdict', 'listskip']
def gen(levels):
    if levels == 0:
        return ('leaf', rnd.choice(LEAVES))
    n = 1 if rnd.random() < 0.8 else 2
    return ('dict', [(k, gen(levels - 1)) for k in rnd.sample(list(KEYS), n)])
def build(r):
    if r[0] == 'leaf':
        k = r[1]
        return {'list': lambda: [T], 'listx2': lambda: [T * 2], 'first': First, 'max': Max, 'min': Min, 'avg': Avg, 'sum': Sum, 'count': Count,
                'aggdict': lambda: {Val('mx'): Max(), Val('n'): Count(), Val('all'): [T]}, 'listskip': lambda: [lambda x: SKIP if x == 3 else x]}[k]()
    return {KEYS[k][0](): build(sub) for k, sub in r[1]}
def has_first(r):
    return (r[0] == 'leaf' and r[1] == 'first') or (r[0] == 'dict' and any(has_first(s) for _, s in r[1]))
def refleaf(kind, items):
    if kind == 'list': return list(items)
    if kind == 'listx2': return [x * 2 for x in items]
    if kind == 'first': return items[0]
    if kind == 'max': return max(items)
    if kind == 'min': return min(items)
    if kind == 'avg': return sum(items) / float(len(items))
    if kind == 'sum': return sum(items)
    if kind == 'count': return len(items)
    if kind == 'aggdict': return {'mx': max(items), 'n': len(items), 'all': list(items)}
    if kind == 'listskip': return [x for x in items if x != 3]
def ref(r, items):
    if r[0] == 'leaf': return refleaf(r[1], items)
    out = {}
    # keys in order of first occurrence across key specs processed per item in spec order
    buckets = {}
    order = []
    for x in items:
        for k, sub in r[1]:
            key = KEYS[k][1](x)
            if key is SKIP: continue
            if (key) not in buckets: buckets[key] = {}; order.append(key)
            buckets[key].setdefault(k, []).append(x)
    for key in order:
        # if two key specs map to same bucket key, later valspec overwrites (acc[key] = result) -> avoid: only generated when keys disjoint? handle by last-writer
        for k, sub in r[1]:
            if k in buckets[key]:
                out[key] = ref(sub, buckets[key][k])
    return out
bad = 0; N = 20000; nt = 0; firsts = 0
for i in range(N):
    r = gen(rnd.randint(1, 3))
    items = [rnd.randint(0, 9) for _ in range(rnd.randint(0, 8))]
    if r[0] == 'dict' and len(r[1]) == 2: 
        # make sure bucket keys of the two key specs are disjoint, else ambiguous
        ks = [set(KEYS[k][1](x) for x in range(10)) - {SKIP} for k, _ in r[1]]
        if ks[0] & ks[1]: continue
    spec = Group(build(r))
    exp = ref(r, items)
    try: got = glom(items, spec)
    except Exception as e: got = ('EXC', type(e).__name__, str(e).splitlines()[-1][:80])
    nt += 1
    if got != exp or (isinstance(got, dict) and list(got) != list(exp)):
        if has_first(r): firsts += 1; continue
        bad += 1
        if bad <= 6: print('MISMATCH', r, items, '\n   got', got, '\n   exp', exp)
    # re-use
    got2 = glom(items, spec) if not isinstance(got, tuple) else got
    if got2 != got: print('REUSE differs', r, items)
print('cases', nt, 'bad', bad, 'mismatches attributable to First under key level', firsts)
