import random, sys, copy
from glom import *
from glom.matching import *
rnd = random.Random(int(sys.argv[1]) if len(sys.argv) > 1 else 0)
class Mis(Exception): pass
_MISSING = object()
def prec(k):
    if type(k) in (Required, Optional): k = k.key
    if type(k) in (tuple, frozenset):
        return max([prec(i) for i in k], default=0)
    if isinstance(k, type): return 2
    if hasattr(k, 'glomit'): return 1
    return 0
def ref(t, p):
    if isinstance(p, type):
        if not isinstance(t, p): raise Mis('type')
        return t
    if isinstance(p, dict):
        if not isinstance(t, dict): raise Mis('type')
        required = {k for k in p if (prec(k) == 0 and type(k) is not Optional) or type(k) is Required}
        res = {}
        for k, v in t.items():
            for sk in p:
                key_pat = sk.key if type(sk) in (Required, Optional) else sk
                try: nk = ref(k, key_pat)
                except Mis: continue
                res[nk] = ref(v, p[sk]); required.discard(sk); break
            else: raise Mis('key')
        for sk in p:
            if type(sk) is Optional and sk.default is not _MISSING_OPT and sk.key not in res: res[sk.key] = sk.default
        if required: raise Mis('required')
        return res
    if isinstance(p, (list, set, frozenset)):
        if not isinstance(t, type(p)): raise Mis('type')
        out = []
        for item in t:
            for alt in p:
                try: out.append(ref(item, alt)); break
                except Mis: pass
            else: raise Mis('elem')
        return out if type(p) is list else type(p)(out)
    if isinstance(p, tuple):
        if not isinstance(t, tuple): raise Mis('type')
        if len(t) != len(p): raise Mis('len')
        return tuple(ref(a, b) for a, b in zip(t, p))
    if isinstance(p, Pred):
        if p(t): return t
        raise Mis('pred')
    if t != p: raise Mis('eq')
    return t
import glom.matching as gm
_MISSING_OPT = gm._MISSING
class Pred:
    def __init__(s, name, f): s.__name__ = name; s.f = f
    def __call__(s, t):
        return s.f(t)
    def __repr__(s): return s.__name__
    def __hash__(s): return hash(s.__name__)
preds = [Pred('isint', lambda t: isinstance(t, int)), Pred('pos', lambda t: isinstance(t, (int, float)) and t > 0), Pred('shortstr', lambda t: isinstance(t, str) and len(t) < 2)]
lits = [0, 1, 2, 'a', 'b', '', None, 1.5, True, (1,), b'x']
types = [int, str, float, bool, object, type(None), list, dict, tuple]
def gen_pat(d):
    r = rnd.random()
    if d <= 0 or r < 0.3: return rnd.choice(lits)
    if r < 0.5: return rnd.choice(types)
    if r < 0.58: return rnd.choice(preds)
    if r < 0.7: return [gen_pat(d-1) for _ in range(rnd.randint(0, 2))]
    if r < 0.75:
        try: return {gen_hashable_pat() for _ in range(rnd.randint(0, 2))}
        except TypeError: return set()
    if r < 0.85: return tuple(gen_pat(d-1) for _ in range(rnd.randint(0, 3)))
    # dict
    out = {}
    for _ in range(rnd.randint(0, 3)):
        kk = rnd.random()
        if kk < 0.4: k = rnd.choice(['a', 'b', 'c', 1])
        elif kk < 0.55: k = Optional(rnd.choice(['a', 'b', 'c'])) if rnd.random() < 0.5 else Optional(rnd.choice(['a', 'b', 'c']), default=rnd.choice([0, 'dflt']))
        elif kk < 0.8: k = rnd.choice([str, int, object])
        elif kk < 0.9: k = Required(rnd.choice([str, int, object]))
        else: k = rnd.choice(preds)
        out[k] = gen_pat(d-1)
    return out
def gen_hashable_pat():
    return rnd.choice(lits[:9] + [int, str])
def gen_from(p, d=3):
    """a target that conforms (best effort)"""
    if isinstance(p, type):
        return {int: 3, str: 's', float: 2.5, bool: True, object: 'o', type(None): None, list: [1], dict: {'z': 1}, tuple: (1,)}[p]
    if isinstance(p, dict):
        out = {}
        for k, v in p.items():
            kk = k.key if type(k) in (Required, Optional) else k
            if type(k) is Optional and rnd.random() < 0.5: continue
            if prec(k) != 0 and type(k) is not Required and rnd.random() < 0.4: continue
            tk = gen_from(kk)
            try: hash(tk)
            except TypeError: continue
            out[tk] = gen_from(v)
        return out
    if isinstance(p, (list, set, frozenset)):
        if not p: return type(p)()
        items = [gen_from(rnd.choice(list(p))) for _ in range(rnd.randint(0, 3))]
        try: return type(p)(items)
        except TypeError: return type(p)()
    if isinstance(p, tuple): return tuple(gen_from(x) for x in p)
    if isinstance(p, Pred): return {'isint': 4, 'pos': 2, 'shortstr': 'q'}[p.__name__]
    return p
def mutate(t):
    r = rnd.random()
    if isinstance(t, dict) and t and r < 0.7:
        t = dict(t); k = rnd.choice(list(t))
        c = rnd.random()
        if c < 0.3: del t[k]
        elif c < 0.6: t[k] = mutate(t[k])
        else: t[rnd.choice(['zz', 5, 'a'])] = rnd.choice(lits[:8])
        return t
    if isinstance(t, list) and r < 0.7:
        t = list(t)
        if t and rnd.random() < 0.5: i = rnd.randrange(len(t)); t[i] = mutate(t[i])
        else: t.append(rnd.choice(lits[:8]))
        return t
    if isinstance(t, tuple) and r < 0.7:
        t = list(t)
        if t and rnd.random() < 0.5: i = rnd.randrange(len(t)); t[i] = mutate(t[i]); return tuple(t)
        return tuple(t) + (rnd.choice(lits[:8]),)
    return rnd.choice(lits + [[], {}, (), [1], {'a': 1}])
stats = {'acc': 0, 'rej': 0}; bad = 0
for it in range(60000):
    p = gen_pat(3)
    c = rnd.random()
    t = gen_from(p) if c < 0.4 else (mutate(gen_from(p)) if c < 0.8 else rnd.choice(lits + [[], {}, {'a': 1}, [1, 'a']]))
    snap = copy.deepcopy(t)
    try: exp = ('ok', ref(t, p))
    except Mis as m: exp = ('mis', str(m))
    except Exception as e: continue   # reference itself blew up (e.g. comparison error) -> skip
    try: got = ('ok', glom(t, Match(p)))
    except MatchError as e: got = ('mis', isinstance(e, TypeError))
    except Exception as e: got = ('other', type(e).__name__, str(e)[-100:])
    stats['acc' if exp[0] == 'ok' else 'rej'] += 1
    ok = exp[0] == got[0] and (exp[0] != 'ok' or (exp[1] == got[1] and type(exp[1]) == type(got[1])))
    if t != snap: ok = False
    if not ok:
        bad += 1
        if bad <= 8: print('MISMATCH p=%r t=%r exp=%r got=%r' % (p, t, exp, got))
print(stats, 'bad', bad)
