from glom import *
import pickle
def rt(x):
    r = repr(x)
    try:
        y = eval(r)
        ok = repr(y) == r and (y.__ops__ == x.__ops__ if isinstance(x, type(T)) else y == x)
        print('%-40s %s' % (r, 'OK' if ok else 'MISMATCH ' + repr(getattr(y,'__ops__',None)) + ' vs ' + repr(getattr(x,'__ops__',None))))
    except Exception as e:
        print('%-40s EVAL-FAIL %s %s' % (r, type(e).__name__, e))
rt(T['a'].b[1](2, k=3))
rt(T[(1,)])
rt(T[()])
rt(T[1, 2])
rt(T[(1, 2), 3])
rt(T[1:2, ::3])
rt(T[1:2:3])
rt(T[:])
rt(T[None])
rt(T[...])
rt(T["it's"])
rt(T['a"b'])
rt(T['a.b'])
rt(T[1.5])
rt(T[-1])
rt(T[len])
rt(T[int])
rt(T(len, key=abs))
rt(T.a(T.b, x=T['c']))
rt(T[T.a])
rt(T[T.a:T.b])
rt(T.__star__().a)
rt(T.__starstar__())
rt(T.__('class__'))
rt(S.a['b'])
rt(S(a=T.b))
rt(A.a.b)
rt(A['x'])
rt(Path('a', 'b'))
rt(Path('a.b', 1))
rt(Path(T.a, 'b', T['c']))
rt(Path('a', T.__star__(), 'b'))
rt(Path())
rt(Path(S.a))
rt(Path(S.a, 'b'))
rt(Path(T.a.b))
rt(Path(T['a'](1)))
rt(Path('*'))
rt(Path.from_text('a.*.b'))
rt(Path.from_text('**'))
rt(T[b'x'])
rt(T[True])
rt(T[frozenset([1])])
rt(T[[1,2]])
rt(T[{'a': 1}])
rt(T(*[1,2]))
rt(T.a())
rt(T()())
rt(T[1j])
rt(T[-0.0])
rt(T[1e100])
rt(T[slice(1,2)])
rt(T[slice(None, (1,2))])
# pickle
for x in [T['a'].b[1:2](3, k=len), S.a, A.b, Path('a', T.b), T[T.a], T.__star__()]:
    y = pickle.loads(pickle.dumps(x))
    print('pickle', repr(x), repr(y) == repr(x))
print('pickle T is T?', pickle.loads(pickle.dumps(T)) is T, repr(pickle.loads(pickle.dumps(T))))
# Path sequence ops
p = Path('a', T.b, T['c'], 'd')
steps = p.items()
print(len(p), steps, p.values())
for i in range(-6, 7):
    try: a = p[i].items()
    except IndexError: a = 'IndexError'
    try: b = (steps[i],)
    except IndexError: b = 'IndexError'
    print('idx', i, 'OK' if a == b else ('MISMATCH', a, b))
import itertools
bad = 0
for st, sp, se in itertools.product([None]+list(range(-6,7)), [None]+list(range(-6,7)), [None, 1, 2, -1, -2, 3]):
    a = p[st:sp:se].items(); b = steps[st:sp:se]
    if a != b:
        bad += 1
        if bad < 10: print('slice', st, sp, se, 'MISMATCH', a, b)
print('slice mismatches', bad)
print(Path(p, Path('e')) == Path('a', T.b, T['c'], 'd', 'e'), p.startswith(Path('a', T.b)), p.startswith('a'), p.startswith(T), p == Path('a', T.b, T['c'], 'd'), p != p, p == T)
