from glom import *
from glom.matching import *
class L:
    def __init__(s, n, fail=False): s.n, s.fail = n, fail
    def __call__(s, t):
        if s.fail: raise GlomError('planted%d' % s.n)
        return 'tgt%d' % s.n
    def __repr__(s): return 'L%d%s' % (s.n, '!' if s.fail else '')
def tr(label, t, s):
    try: glom(t, s); print(label, 'no error')
    except Exception as e:
        try: print(label, '->', str(e).replace('\n', '\n      '))
        except RecursionError as r: print(label, '-> str(e) raised RecursionError')
tr('A', 'root', Not(Or(Not(L(1)), Pipe(L(4),))))
tr('B', 'root', Not(Or(Not(L(1)), L(4))))
tr('C', 'root', Not(Or(L(1, True), L(4))))
tr('D', 'root', Not(Or(Not(L(1)), T)))
tr('E', 1, Not(Or(Not(T), T)))
tr('F', 1, Not(Or(Not(M == 1), M == 1)))
tr('G', 1, Not(Or(M == 2, M == 1)))
tr('H', 1, Not(Coalesce(Not(M == 1), T)))
tr('I', {'a': 1}, Check(Coalesce(Not('a'), 'a'), type=str))
tr('J', {'a': 1}, Check(Or(Not('a'), 'a'), type=str))
tr('K', {'a': 1}, Check(Coalesce(('a', 'x'), 'a'), type=str))
tr('L', {'a': 1}, Check(Coalesce(Check('a', type=str), 'a'), type=str))
