import json, os, tempfile
from face import CommandChecker
from glom import cli, glom
cmd = cli.get_command()
cc = CommandChecker(cmd, mix_stderr=True)
def run(argv, input=None):
    try:
        res = cc.run(['glom'] + argv, input=input)
        return ('exit', res.exit_code, res.stdout)
    except Exception as e:
        r = getattr(e, 'result', None)
        return ('EXC', type(e).__name__, getattr(r, 'exit_code', None), (getattr(r, 'stdout', '') or str(e))[-300:])
def chk(spec_text, target_text, spec, extra=()):
    got = run(list(extra) + [spec_text, target_text])
    try:
        exp = json.dumps(glom(json.loads(target_text), spec), indent=2, sort_keys=True) + '\n'
    except Exception as e:
        exp = 'ERR ' + type(e).__name__
    print(repr(spec_text), repr(target_text), '->', got, '| expected', repr(exp), 'MATCH' if got[0]=='exit' and got[2]==exp else '')
chk('a', '{"a": 1}', 'a')
chk('a', '0', 'a')
chk("{'x': 'a'}", '{"a": [1, 2]}', {'x': 'a'})
chk("['a']", '[{"a": 1}]', ['a'])
chk("('a', 'b')", '{"a": {"b": "é"}}', ('a','b'))
chk("'a.b'", '{"a": {"b": null}}', 'a.b')
chk("a.b", '{"a": {"b": null}}', 'a.b')
chk("{1: 'a', 'b': 'a'}", '{"a": 1}', {1: 'a', 'b': 'a'})
chk("{(1,2): 'a'}", '{"a": 1}', {(1,2): 'a'})
chk("5", '{"5": 1}', '5')
chk("", '{"a": 1}', None)
chk("*", '{"a": 1, "b": 2}', '*')
chk("a.nope", '{"a": 1}', 'a.nope')
chk("[", '{"a": 1}', None)
chk("{'a': __import__('os').system('touch /tmp/probe/PWNED')}", '{"a": 1}', None)
chk("[x for x in (1,)]", '{"a": 1}', None)
chk("(lambda: 1)()", '{"a": 1}', None)
chk("T['a']", '{"a": 1}', "T['a']")
print(os.path.exists('/tmp/probe/PWNED'))
print(run(['--indent', '0', 'a', '{"a": {"b": 1}}']))
print(run(['--indent', '4', 'a', '{"a": {"b": 1}}']))
print(run(['--scalar', 'a', '{"a": 1}']))
print(run(['--scalar', 'a', '{"a": null}']))
print(run(['--scalar', 'a', '{"a": [1]}']))
print(run(['--scalar', 'a', '{"a": true}']))
print(run(['--target-format', 'python', 'a', "{'a': (1, 2)}"]))
print(run(['--target-format', 'python', 'a', "{'a': {1, 2}}"]))
print(run(['--target-format', 'yaml', 'a', "a: [1, 2]"]))
print(run(['--target-format', 'toml', 'a', "a = [1, 2]"]))
print(run(['--target-format', 'python', 'a', "__import__('os').system('touch /tmp/probe/PWNED2')"]))
print(os.path.exists('/tmp/probe/PWNED2'))
print(run(['a'], input='{"a": "stdin"}'))
print(run(['a', '-'], input='{"a": "stdin"}'))
print(run(['--spec-format', 'json', '{"x": "a"}', '{"a": 1}']))
print(run(['--spec-format', 'json', '{bad', '{"a": 1}']))
print(run(['a', '']))
print(run(['a', 'null']))
print(run(['a', '{bad']))
print(run(['a', '{"a": NaN}']))
print(run(['a', '{"a": 1e999}']))
