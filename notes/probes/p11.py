from glom import *
from glom.core import PathAssignError
import random, copy
class O:
    def __init__(s, **kw): s.__dict__.update(kw)
    def __repr__(s): return 'O(%r)' % (s.__dict__,)
    def __eq__(s, o): return type(o) is O and s.__dict__ == o.__dict__
class RO:
    @property
    def p(self): return 1
    def __repr__(s): return 'RO()'
    def __eq__(s, o): return type(o) is RO
rnd = random.Random(3)
def gen(depth):
    r = rnd.random()
    if depth <= 0 or r < 0.25:
        return rnd.choice([1, 'x', None, (1, 2), 2.5])
    if r < 0.55: return {k: gen(depth-1) for k in rnd.sample(['a','b','c','0','1'], rnd.randint(0,3))}
    if r < 0.75: return [gen(depth-1) for _ in range(rnd.randint(0,3))]
    if r < 0.85: return tuple(gen(depth-1) for _ in range(rnd.randint(0,2)))
    if r < 0.95: return O(**{k: gen(depth-1) for k in rnd.sample(['a','b','c'], rnd.randint(0,2))})
    return RO()
def snap(x):
    return copy.deepcopy(x)
segs = ['a','b','c','0','1','2','p','-1']
issues = {}
N = 40000
for i in range(N):
    t = gen(3)
    path = '.'.join(rnd.choice(segs) for _ in range(rnd.randint(1,4)))
    missing = rnd.choice([None, dict, list, O, lambda: (_ for _ in ()).throw(ValueError('factory'))])
    before = snap(t)
    try:
        r = assign(t, path, 'V', missing=missing)
        ok = True
    except Exception as e:
        ok = False; err = e
    if ok:
        assert r is t
        try:
            back = glom(t, path)
            if back != 'V': issues.setdefault('readback', []).append((before, path, t))
        except Exception as e:
            issues.setdefault('readback-exc', []).append((before, path, t, e))
    else:
        if t != before:
            issues.setdefault('not-atomic', []).append((before, path, missing, t, type(err).__name__))
for k, v in issues.items():
    print(k, len(v))
    for x in v[:6]: print('   ', x)
print('done')
