# quick scratch fuzz of trace faithfulness: linear ancestors + chain steps + branches
import random, re, sys
from glom import *
from glom.matching import *
rnd = random.Random(int(sys.argv[1]) if len(sys.argv) > 1 else 0)
counter = [0]
class Leaf:
    """unique-named callable leaf; ok -> returns a fresh marker target; fail -> raises"""
    def __init__(self, fail=None):
        counter[0] += 1; self.n = counter[0]; self.fail = fail
    def __call__(self, t):
        if self.fail == 'glom': raise GlomError('planted%d' % self.n)
        if self.fail == 'val': raise ValueError('planted%d' % self.n)
        return 'tgt%d' % self.n
    def __repr__(self): return 'L%d%s' % (self.n, '!' if self.fail else '')
def gen(depth, must_fail):
    """returns (spec, node) ; node = dict(kind, spec, children=[...], fails=bool)"""
    kinds = ['leaf'] if depth <= 0 else ['leaf', 'tuple', 'dict', 'coalesce', 'pipe', 'list', 'or', 'and', 'auto', 'spec']
    k = rnd.choice(kinds)
    if k == 'leaf':
        l = Leaf(rnd.choice(['glom', 'val']) if must_fail else None)
        return l
    if k in ('tuple', 'pipe'):
        n = rnd.randint(1, 3); fi = rnd.randrange(n) if must_fail else None
        parts = []
        for i in range(n):
            parts.append(gen(depth-1, i == fi))
            if i == fi: break
        # trailing never-evaluated steps
        for _ in range(rnd.randint(0, 1)): parts.append(gen(0, False))
        return tuple(parts) if k == 'tuple' else Pipe(*parts)
    if k == 'dict':
        n = rnd.randint(1, 3); fi = rnd.randrange(n) if must_fail else None
        return {'k%d' % i: gen(depth-1, i == fi) for i in range(n)}
    if k == 'list':
        return (Val([1]), [gen(depth-1, must_fail)]) 
    if k == 'coalesce':
        # failing glom-branches, then either a success or (if must_fail) all fail / or a ValueError
        nb = rnd.randint(0, 2)
        br = [gen(depth-1, True) for _ in range(nb)]
        br.append(gen(depth-1, must_fail))
        return Coalesce(*br)
    if k == 'or':
        nb = rnd.randint(0, 2)
        br = [gen(depth-1, True) for _ in range(nb)]
        br.append(gen(depth-1, must_fail))
        return Or(*br)
    if k == 'and':
        n = rnd.randint(1, 3); fi = rnd.randrange(n) if must_fail else None
        parts = []
        for i in range(n):
            parts.append(gen(depth-1, i == fi))
            if i == fi: break
        return And(*parts)
    if k == 'auto': return Auto(gen(depth-1, must_fail))
    if k == 'spec': return Spec(gen(depth-1, must_fail))
bad = 0
for it in range(20000):
    counter[0] = 0
    spec = gen(4, True)
    try:
        glom('root', spec)
        continue   # coalesce may have swallowed failures... fine
    except Exception as e:
        try:
            s = str(e)
        except Exception as e2:
            print('STR FAILED', repr(spec), e2); bad += 1; continue
        lines = s.splitlines()
        if 'planted' not in lines[-1] and 'no valid values' not in lines[-1] and 'planted' not in s:
            print('ODD', repr(spec)); print(s); bad += 1
        if not lines[2].startswith(" - Target: 'root'"):
            print('ROOT TARGET?', s); bad += 1
        # leaves shown that did not run?  (Leaf w/o fail shown as Ln, failing as Ln!)
print('bad', bad)
