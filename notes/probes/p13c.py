import glom
from glom import Glommer, T
class Base: pass
class Sub(Base): pass
class SlotSub(Base):
    __slots__ = ()
h = lambda o, k: 'BASE-HANDLER'
g = Glommer()
g.register(Base, get=h)
print('Base():', g.glom(Base(), 'x'))
for cls in (Sub,):
    try: print(cls.__name__, g.glom(cls(), 'x'))
    except Exception as e: print(cls.__name__, 'EXC', type(e).__name__, str(e).splitlines()[-1])
reg = g.scope[glom.core.TargetRegistry]
import pprint; pprint.pprint(reg._op_type_tree['get'])
# iterate
g2 = Glommer(); g2.register(Base, iterate=lambda o: iter([1,2]))
try: print('iterate Sub', g2.glom(Sub(), [T]))
except Exception as e: print('iterate Sub EXC', type(e).__name__, str(e).splitlines()[-1])
pprint.pprint(g2.scope[glom.core.TargetRegistry]._op_type_tree['iterate'])
# with iterable subclass
class It(Base):
    def __iter__(self): return iter([9])
try: print('iterate It', g2.glom(It(), [T]))
except Exception as e: print('iterate It EXC', type(e).__name__, str(e).splitlines()[-1])
