from glom import *
from glom.matching import *
t = {'x': 'a'}
pos = {
 'Coalesce.default': lambda d: Coalesce('nope', default=d),
 'Match.default': lambda d: Match(int, default=d),
 'Switch.default': lambda d: Switch([(M == 1, Val(1))], default=d),
 'And.default': lambda d: And(M == 1, default=d),
 'Or.default': lambda d: Or(M == 1, default=d),
 'Check(type).default': lambda d: Check(type=int, default=d),
 'Check(instance_of).default': lambda d: Check(instance_of=int, default=d),
 'Check(equal_to).default': lambda d: Check(equal_to=1, default=d),
 'Check(validate).default': lambda d: Check(validate=lambda x: False, default=d),
 'Call.args': lambda d: Call(lambda a: a, args=(d,)),
 'Call.kwargs': lambda d: Call(lambda a=None: a, kwargs={'a': d}),
 'T call arg': lambda d: T['x'].__class__.join.__call__ if False else Call(lambda a: a, args=(d,)),
 'S(k=)': lambda d: (S(k=d), S.k),
 'Assign val': lambda d: (Assign('out', d), 'out'),
 'Invoke.constants': lambda d: Invoke(lambda a: a).constants(d),
 'Invoke.specs': lambda d: Invoke(lambda a: a).specs(d),
}
for name, mk in pos.items():
    d = [T['x'], 'x', len, (T['x'],)]
    try: r = glom(dict(t), mk(d))
    except Exception as e: r = ('EXC', type(e).__name__, str(e).splitlines()[-1][:80])
    print('%-28s %r' % (name, r))
