from glom import *
def show(label, f):
    try:
        r = f(); print(label, 'OK ', repr(r)[:300])
    except Exception as e:
        print(label, 'EXC', type(e).__name__, str(e).splitlines()[-1][:130])
calls = []
def fac():
    calls.append(1); return {}
t = {'a': {}}
show('T missing', lambda: assign(t, T['a']['b']['c'], 1, missing=fac)); print(calls)
calls.clear(); t = {}
show('Path ints missing', lambda: assign(t, Path('a', 1, 'c'), 1, missing=fac)); print(calls)
calls.clear(); t = {'a': {'b': {'c': 0}}}
show('no missing needed', lambda: assign(t, 'a.b.c', 1, missing=fac)); print(calls)
t = {'a': None}
show('None intermediate', lambda: assign(t, 'a.b', 1, missing=dict)); print(t)
t = {'a': {'b': 5}}
show('int intermediate', lambda: assign(t, 'a.b.c', 1, missing=dict)); print(t)
t = {'a': [1]}
show('T attr on dict missing', lambda: assign(t, T['a'][3], 1, missing=dict)); print(t)
show('T.attr missing', lambda: assign(t, T.x.y, 1, missing=dict)); print(t)
class Obj: pass
o = Obj()
show('T.attr missing obj', lambda: assign(o, T.x.y, 1, missing=Obj)); print(o.__dict__, getattr(getattr(o,'x',None),'__dict__',None))
t = {'a': 1}
show('S-rooted', lambda: glom(t, (S(v={'k': 0}), Assign(S['v']['k'], T['a']), S['v'])))
show('S-rooted top-level name', lambda: glom(t, (Assign(S['newname'], 5), S['newname'])))
show('value Spec', lambda: assign({'a': 1, 'b': 0}, 'b', Spec('a')))
show('value T', lambda: assign({'a': 1, 'b': 0}, 'b', T['a']))
show('value failing spec', lambda: assign({'a': 1, 'b': 0}, 'b', T['zz']))
l = [1]; l.append(l)
show('self-ref value', lambda: (lambda r: (r['k'][0], r['k'][1] is r['k']))(assign({}, 'k', l)))
show('assign to tuple', lambda: assign({'a': (1,2)}, 'a.0', 9))
show('assign str', lambda: assign({'a': 'xy'}, 'a.0', 9))
show('assign frozenset', lambda: assign(frozenset(), 'a', 9))
show('assign set?', lambda: assign(set(), 'a', 9))
show('empty path', lambda: assign({}, Path(), 9))
show('path ends with call', lambda: assign({}, T.a(), 9))
show('wild missing', lambda: assign({'a': [{}, {}]}, 'a.*.b.c', 9, missing=dict))
show('T[slice]', lambda: assign([1,2,3], T[0:2], [9]))
show('dict int key P', lambda: assign({1: 'a'}, Path(1), 'b'))
show('list index str', lambda: assign([1,2], '1', 'b'))
show('list index T', lambda: assign([1,2], T[1], 'b'))
show('list index T str', lambda: assign([1,2], T['1'], 'b'))
show('list append idx', lambda: assign([1,2], '2', 'b'))
show('list missing in middle', lambda: assign({'a': []}, 'a.0.b', 'v', missing=dict))
