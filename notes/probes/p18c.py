from glom import *
import itertools
for n in range(0, 6):
    p = Path(*['s%d' % i for i in range(n)])
    steps = p.items()
    bad = 0; tot = 0
    rng = [None] + list(range(-n, n+1))
    for st, sp, se in itertools.product(rng, rng, [None, 1, 2, 3]):
        tot += 1
        a = p[st:sp:se].items()
        b = steps[st:sp:se]
        if a != b:
            bad += 1
            if bad < 8: print(n, 'slice', st, sp, se, 'MISMATCH', a, b)
    print('n', n, 'positive-step mismatch', bad, '/', tot)
