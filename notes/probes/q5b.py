# scratch: full recursive renderer from a traced evaluation tree, compared with glom's text
import random, re, sys, traceback
import glom as G
from glom import *
from glom.core import _glom, bbrepr
from glom.matching import *
src = open('/tmp/probe/p5c.py').read().split("bad = 0")[0]
src = src.replace("kinds = ['leaf'] if depth <= 0 else ['leaf', 'tuple', 'dict', 'coalesce', 'pipe', 'list', 'or', 'and', 'auto', 'spec']",
                  "kinds = ['leaf'] if depth <= 0 else ['leaf', 'tuple', 'dict', 'coalesce', 'pipe', 'list', 'or', 'and', 'auto', 'spec', 'switch', 'not', 'coalesce_default']")
src = src.replace("    if k == 'auto': return Auto(gen(depth-1, must_fail))", """    if k == 'auto': return Auto(gen(depth-1, must_fail))
    if k == 'switch':
        nb = rnd.randint(0, 2)
        cases = [(gen(depth-1, True), gen(0, False)) for _ in range(nb)]
        if must_fail and rnd.random() < 0.5:
            cases.append((gen(depth-1, False), gen(depth-1, True)))   # key passes, value fails
        elif must_fail:
            cases.append((gen(depth-1, True), gen(0, False)))           # no case matches -> MatchError
        else:
            cases.append((gen(depth-1, False), gen(depth-1, False)))
        return Switch(cases)
    if k == 'not':
        if must_fail: return Not(gen(depth-1, False))
        return (Not(gen(depth-1, True)),)
    if k == 'coalesce_default':
        nb = rnd.randint(1, 2)
        return (Coalesce(*[gen(depth-1, True) for _ in range(nb)], default='dflt'), gen(depth-1, must_fail))""")
exec(src)
rnd = random.Random(int(sys.argv[1]) if len(sys.argv) > 1 else 0)
class Node:
    def __init__(s, spec, target, parent): s.spec, s.target, s.parent, s.children, s.exc, s.ret = spec, target, parent, [], None, None
def run(spec):
    root = Node(spec, 'root', None); cur = [root]
    def tracer(target, sp, scope):
        n = Node(sp, target, cur[0]); cur[0].children.append(n)
        prev = cur[0]; cur[0] = n
        try:
            n.ret = _glom(target, sp, scope); return n.ret
        except Exception as e:
            n.exc = e; raise
        finally: cur[0] = prev
    try:
        glom('root', spec, scope={G.glom: tracer}); return None, root
    except Exception as e:
        root.exc = e.__dict__.get('_GlomError__wrapped', e)
        return e, root
W = 78
def fmtval(v, maxlen):
    s = bbrepr(v).replace("\\'", "'")
    if len(s) > maxlen:
        try: suffix = '... (len=%s)' % len(v)
        except Exception: suffix = '...'
        s = s[:maxlen - len(suffix)] + suffix
    return s
def exc_line(e): return "".join(traceback.format_exception_only(type(e), e))[:-1]
def chain_kind(spec): return type(spec) in (tuple, Pipe)
def render(node, root_error, depth, prev_target, last_branch=True):
    prev_target = [prev_target[0]]
    """returns list of lines for the failing path starting at node"""
    lines = []
    indent = " " + "|" * depth
    tick = "| " if depth else "- "
    def L(label, v, t=None):
        pre = indent + (t or tick) + label + ": "
        return pre + fmtval(v, W - len(pre))
    last_line_error = False
    while True:
        if node.target is not prev_target[0]:
            lines.append(L("Target", node.target))
        prev_target[0] = node.target
        failed = [c for c in node.children if c.exc is not None]
        last = node.children[-1] if node.children else None
        is_switch_chain = type(node.spec) is Switch and last is not None and last.exc is not None and len(node.children) >= 2 and node.children[-2].exc is None
        # decide the continuation
        if chain_kind(node.spec) and last is not None and last.exc is not None:
            nxt_nodes = node.children[:-1]; cont = last; branches = []
        elif is_switch_chain:
            # failed keys are branches; passing key + failing value form the last branch (chain)
            branches = failed[:-1] ; cont = None
            keyn, valn = node.children[-2], node.children[-1]
            if branches:
                branches = branches + [('chain', keyn, valn)]
            else:
                nxt_nodes = [keyn]; cont = valn
        elif len(failed) >= 2 or (failed and failed != [last]):
            branches = failed; cont = None
        elif failed:
            branches = []; cont = last; nxt_nodes = []
        else:
            branches = []; cont = None; nxt_nodes = []
        if branches:
            lines.append(L("Spec", node.spec, "+ "))
            for i, b in enumerate(branches):
                lb = last_branch if i == len(branches) - 1 else False
                if isinstance(b, tuple):
                    _, keyn, valn = b
                    sub = render_chain([keyn], valn, root_error, depth + 1, prev_target, lb)
                else:
                    sub = render(b, root_error, depth + 1, prev_target, lb)
                lines.extend(sub)
        else:
            lines.append(L("Spec", node.spec))
        # error line for this node
        child_err = cont.exc if cont is not None else None
        err = node.exc
        if branches and not cont:
            # pushed-down rule: if last branch has same error, it's shown there
            pass
        show = err is not None and err is not root_error and err is not child_err
        if branches:
            lastb = branches[-1]
            lastb_exc = lastb[2].exc if isinstance(lastb, tuple) else lastb.exc
            if err is lastb_exc: show = False
        if show:
            lines.append(indent + tick + exc_line(err)); last_line_error = True
        else:
            last_line_error = False
        if cont is None: break
        for c in nxt_nodes:
            if c.target is not prev_target[0]: lines.append(L("Target", c.target))
            prev_target[0] = c.target
            lines.append(L("Spec", c.spec))
        node = cont
    if depth:
        remark = lambda s, m: s[:depth + 1] + m + s[depth + 2:]
        lines[0] = remark(lines[0], "\\")
        if not last_branch or last_line_error:
            lines[-1] = remark(lines[-1], "X")
    return lines
def render_chain(done, cont, root_error, depth, prev_target, last_branch):
    prev_target = [prev_target[0]]
    indent = " " + "|" * depth; tick = "| "
    lines = []
    for c in done:
        if c.target is not prev_target[0]:
            pre = indent + tick + "Target: "; lines.append(pre + fmtval(c.target, W - len(pre)))
        prev_target[0] = c.target
        pre = indent + tick + "Spec: "; lines.append(pre + fmtval(c.spec, W - len(pre)))
    sub = render(cont, root_error, depth, prev_target, last_branch)
    # undo/redo marks: first line of whole chain gets '\'
    if depth:
        remark = lambda s, m: s[:depth + 1] + m + s[depth + 2:]
        sub[0] = remark(sub[0], "|") if lines else sub[0]
        alll = lines + sub
        alll[0] = remark(alll[0], "\\")
        return alll
    return lines + sub
bad = 0; n = 0; nbranch = 0; rec = [0]
for it in range(int(sys.argv[2]) if len(sys.argv) > 2 else 20000):
    counter[0] = 0
    spec = gen(4, True)
    e, root = run(spec)
    if e is None: continue
    n += 1
    try:
        s = str(e)
    except RecursionError:
        print('RECURSION in str(e):', repr(spec)); rec[0] += 1
        continue
    got = s.splitlines()[2:]
    root_error = e.__dict__.get('_GlomError__wrapped', e)
    # top-level: synthetic root whose only child is the root spec evaluation? glom() calls _glom directly for root => root node IS the spec node
    exp = render(root, root_error, 0, [object()])
    # strip trailing traceback/exception lines from got
    k = len(exp)
    if any('+ Spec' in l or '|' in l[:6] for l in exp): nbranch += 1
    if got[:k] != exp:
        bad += 1
        if bad <= 400 and "Not(" not in repr(spec):
            print('MISMATCH', repr(spec)); print('\n'.join(got)); print('--- expected'); print('\n'.join(exp)); print()
print('cases', n, 'with branches', nbranch, 'bad', bad)

print('recursion errors', rec[0])
