# feasibility: deterministic baton scheduler over threads, enumerating interleavings
import threading, itertools, sys
from glom import *
class Sched:
    def __init__(self, word):
        self.word = list(word); self.pos = 0
        self.cv = threading.Condition(); self.done = set(); self.trace = []
    def _turn(self):
        # whose turn: next id in word that is not done; if word exhausted, any
        while self.pos < len(self.word) and self.word[self.pos] in self.done: self.pos += 1
        return self.word[self.pos] if self.pos < len(self.word) else None
    def wait_turn(self, me):
        with self.cv:
            while True:
                t = self._turn()
                if t is None or t == me: return
                self.cv.wait(5)
    def yield_point(self, me):
        with self.cv:
            self.trace.append(me)
            if self.pos < len(self.word) and self.word[self.pos] == me: self.pos += 1
            self.cv.notify_all()
        self.wait_turn(me)
    def finish(self, me):
        with self.cv:
            self.done.add(me); self.cv.notify_all()
cur = threading.local()
SCHED = [None]
class Probe:
    def __init__(s, name): s.name = name
    def __call__(s, t):
        if SCHED[0] is not None: SCHED[0].yield_point(cur.me)
        return t
    def __repr__(s): return 'P(%s)' % s.name
def evals():
    return {
      0: ({'a': {'b': 1}}, (S(k=Val('zero')), Probe('a1'), 'a', Probe('a2'), {'v': 'b', 'k': S.k})),
      1: ({'a': [1, 2, 3]}, (Fill(T), Probe('b1'), 'a', [Probe('b2')], S(k=Val('one')), Probe('b3'), 'nope')),
    }
def outcome(t, s):
    try: return ('ok', repr(glom(t, s)))
    except Exception as e: return ('err', type(e).__name__, str(e))
iso = {i: outcome(*ts) for i, ts in evals().items()}
ny = {0: 2, 1: 4}
words = set(itertools.permutations([0]*ny[0] + [1]*ny[1]))
bad = 0
for w in sorted(words):
    sch = Sched(w); SCHED[0] = sch; res = {}
    def run(i):
        cur.me = i
        sch.wait_turn(i)
        res[i] = outcome(*evals()[i]); sch.finish(i)
    ths = [threading.Thread(target=run, args=(i,)) for i in (0, 1)]
    [t.start() for t in ths]; [t.join(10) for t in ths]
    SCHED[0] = None
    if res != iso: bad += 1; print('DIFF', w, res)
print(len(words), 'schedules, bad', bad, 'sample trace', sch.trace)
