from glom import *
def show(label, f):
    try:
        r = f(); print(label, 'OK ', repr(r)[:300])
    except Exception as e:
        print(label, 'EXC', type(e).__name__, str(e).splitlines()[-1][:110])
a = {'k': 1}
shared = [a, a]
show('* dict', lambda: glom({'x': 1, 'y': [2]}, '*'))
show('* list', lambda: glom([1, [2]], '*'))
show('* tuple', lambda: glom((1, 2), '*'))
show('* set', lambda: glom({1}, '*'))
show('* str', lambda: glom('abc', '*'))
show('* int', lambda: glom(5, '*'))
class O:
    def __init__(s, **kw): s.__dict__.update(kw)
    def __repr__(s): return 'O(%r)' % s.__dict__
show('* obj', lambda: glom(O(p=1, q=2), '*'))
show('* gen', lambda: glom((i for i in range(3)), '*'))
show('** dag', lambda: glom({'s': shared}, '**'))
cyc = {'n': 1}; cyc['self'] = cyc
show('** cyclic root', lambda: glom(cyc, '**'))
inner = {'v': 1}; inner['back'] = inner
show('** cyclic inner', lambda: glom({'i': inner}, '**'))
l = []; l.append(l)
show('** cyclic list', lambda: glom(l, '**'))
show('**.k', lambda: glom({'a': [{'k': 1}, {'k': 2}], 'k': 0}, '**.k'))
show('*.k with misses', lambda: glom([{'k': 1}, {'j': 2}, 5], '*.k'))
show('*.*', lambda: glom([[1,2],[3]], '*.*'))
show('*.*.k', lambda: glom([[{'k':1}],[{'k':2}, {}]], '*.*.k'))
show('a.*.b.*', lambda: glom({'a': [{'b': [1,2]}, {'b': [3]}, {'c': 0}]}, 'a.*.b.*'))
show('T spelling', lambda: glom([[1,2],[3]], T.__star__().__star__()))
show('Path spelling', lambda: glom({'a':[1,2]}, Path('a', T.__star__())))
show('*.real call miss', lambda: glom([1, 'a'], T.__star__().real))
show('after star raising non-PAE', lambda: glom([1, 0], T.__star__().__rfloordiv__(1)))
class Bad(dict):
    def __getitem__(s, k): raise RuntimeError('nope')
show('* element access raises', lambda: glom(Bad(a=1, b=2), '*'))
class BadIter:
    def __iter__(s): raise RuntimeError('x')
show('* iter raises', lambda: glom(BadIter(), '*'))
show('** with str leaves', lambda: glom({'a': 'xyz', 'b': ['pq']}, '**'))
show('** order bfs', lambda: glom({'a': {'b': {'c': 1}}, 'd': {'e': 2}}, '**'))
# assign/delete through wildcard
t = [{'k': 1}, {'k': 2}]
show('assign *', lambda: assign(t, '*.k', 9))
t = {'a': [{'k': 1}, {'k': 2, 'j': 3}]}
show('delete *', lambda: delete(t, 'a.*.k'))
t = [[{'k':1}],[{'k':2}]]
show('assign *.*', lambda: assign(t, '*.*.k', 9))
t = [{'k': 1}, {'j': 2}]
show('delete * with miss', lambda: delete(t, '*.k'))
show('delete * with miss (after)', lambda: t)
t = [{'k': 1}, 5]
show('assign * with unassignable', lambda: assign(t, '*.k', 9))
show('   after', lambda: t)
show('star as last in assign', lambda: assign([1,2], '*', 9))
