from glom import *
from glom.core import PathAccessError
import glom as G
def mro(e): return [c.__name__ for c in type(e).__mro__]
class UserErr(Exception):
    def __init__(self, a, b=2):
        super().__init__(a, b); self.a=a; self.b=b
class KwOnly(Exception):
    def __init__(self, *, code):
        super().__init__(code); self.code = code
class Arity(Exception):
    def __init__(self, a, b):
        super().__init__(a)   # args shorter than ctor arity
class MyGlomErr(GlomError):
    def __init__(self, x, y):
        self.x, self.y = x, y
class MyGlomErr2(GlomError):
    def __init__(self, x, y):
        super().__init__(x, y); self.x, self.y = x, y
class Base(BaseException): pass
def raiser(exc):
    def f(t): raise exc
    return f
for exc in [ValueError('v', 1), KeyError('k'), UserErr(1), KwOnly(code=3), Arity(1,2), MyGlomErr(1,2), MyGlomErr2(1,2), StopIteration(), UnicodeDecodeError('utf8', b'x', 0, 1, 'r'), OSError(2,'nf'), SystemExit(3), Base('b'), KeyboardInterrupt()]:
    try:
        glom({'a':[1]}, ('a', [raiser(exc)]))
    except BaseException as e:
        print(type(exc).__name__, '->', type(e).__name__, 'isinst orig:', isinstance(e, type(exc)), 'GlomError:', isinstance(e, GlomError), 'args eq:', e.args == exc.args, 'same obj:', e is exc, 'attrs:', {k:v for k,v in vars(e).items() if not k.startswith('_')})
        try: s = str(e)
        except Exception as se: print('   STR FAILED', type(se), se)
    # default / skip_exc
print('--- default matrix')
for kw in [dict(default='D'), dict(skip_exc=ValueError), dict(default='D', skip_exc=ValueError), dict(default='D', skip_exc=(KeyError, ValueError)), dict(default=None), dict(default='D', skip_exc=())]:
    for exc in [ValueError('v'), KeyError('k'), PathAccessError(KeyError('z'), Path('z'), 0)]:
        try:
            r = glom(1, raiser(exc), **kw); print(kw, type(exc).__name__, 'ret', repr(r))
        except Exception as e:
            print(kw, type(exc).__name__, 'raised', type(e).__name__)
print('--- real PAE with default')
print(glom({}, 'a', default='D'), glom({}, 'a', skip_exc=KeyError), )
try: glom({}, 'a', default='D', skip_exc=ValueError)
except Exception as e: print(type(e).__name__)
print('--- glom_debug')
ex = ValueError('x')
try: glom(1, raiser(ex), glom_debug=True)
except Exception as e: print('same object', e is ex)
try: glom({}, 'a', glom_debug=True)
except Exception as e: print(type(e).__name__, str(e)[:80])
d = object()
print(glom({}, 'a', default=d) is d)
print(glom({}, 'a', default=T) )
