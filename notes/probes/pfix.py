from glom import *
from glom.matching import *
import glom as G
print(G.__file__)
t = {'a': {'b': 1}, 'x': 'a'}
print('floordiv', glom(7, T // 2))
print('fill then str', glom(t, (Fill(T), 'a')), glom(t, Pipe(Fill(T), 'a')))
try: print(glom(t, (Match(dict), 'a')))
except Exception as e: print('EXC', type(e).__name__)
print('switch', glom(t, Switch([(Match(dict), 'a')])))
try: print('Match Pipe Fill b', glom('a', Match(Pipe(Fill(T), 'b'))))
except Exception as e: print('EXC', type(e).__name__)
print('inside Fill tuple', glom(t, Fill((Auto('a'), 'a'))))
print('scope fwd', glom(1, (S(k=Val('b')), S.k)))
class KwGlom(GlomError):
    def __init__(self, *, code): super().__init__(code); self.code = code
class Prefix(Exception):
    def __init__(self, msg): super().__init__('prefix: ' + msg)
def r(e):
    def f(t): raise e
    return f
for exc in (KwGlom(code=1), Prefix('m')):
    try: glom(1, r(exc))
    except Exception as e: print(type(e).__name__, e.args, isinstance(e, type(exc)), str(e).splitlines()[-1])
try: glom(1, S.k)
except Exception as e: print(str(e).splitlines()[-1])
cyc = {'n': 1}; cyc['self'] = cyc
print(len(glom(cyc, '**')))
print(repr(T[(1,)]), repr(T[()]), repr(T[1,2]))
try: Path('a','b')[2]
except IndexError as e: print('IndexError', e)
try: glom(1, Not(int))
except Exception as e: print(type(e).__name__, str(e).splitlines()[-1])
print(repr(Not(M == 1)))
try: delete({'b': 1}, T['a'])
except Exception as e: print(type(e).__name__)
print(delete({'b': 1}, T['a'], ignore_missing=True))
