# scratch: tracer-based oracle for the linear (non-branching) part of traces
import random, re, sys
import glom as G
from glom import *
from glom.core import _glom, bbrepr
from glom.matching import *
exec(open('/tmp/probe/p5c.py').read().split("bad = 0")[0])   # reuse generator
rnd = random.Random(int(sys.argv[1]) if len(sys.argv) > 1 else 0)

class Node:
    def __init__(s, spec, target, parent): s.spec, s.target, s.parent, s.children, s.exc, s.ret = spec, target, parent, [], None, None
def run(spec):
    root = Node(spec, 'root', None)
    cur = [root]
    def tracer(target, sp, scope):
        n = Node(sp, target, cur[0]); cur[0].children.append(n)
        prev = cur[0]; cur[0] = n
        try:
            n.ret = _glom(target, sp, scope); return n.ret
        except Exception as e:
            n.exc = e; raise
        finally:
            cur[0] = prev
    try:
        glom('root', spec, scope={G.glom: tracer})
        return None, root
    except Exception as e:
        return e, root
def is_chain(spec): return type(spec) in (tuple, Pipe)
def expected_linear(root, final_exc):
    """list of (spec, target) from root downward along the path of the exception that escaped; stops at a branching node (returns marker)"""
    out = []; node = root
    while True:
        out.append((node.spec, node.target))
        if not node.children: return out, None
        failed = [c for c in node.children if c.exc is not None]
        last = node.children[-1]
        if is_chain(node.spec):
            # chain: all steps listed; last step must be the failing one
            for c in node.children[:-1]: out.append((c.spec, c.target))
            if last.exc is None: return out, None   # chain itself raised? (not possible here)
            node = last; continue
        if len(failed) >= 2 or (failed and failed != [last]):
            return out, node   # branching display expected here
        if not failed: return out, None
        node = last
bad = 0; lin = 0; br = 0
for it in range(30000):
    counter[0] = 0
    spec = gen(4, True)
    e, root = run(spec)
    if e is None: continue
    s = str(e); lines = s.splitlines()[2:]
    exp, branch_node = expected_linear(root, e)
    # collect depth-0 lines until first '+' line
    got = []
    for ln in lines:
        m = re.match(r'^ ([-+]) (Target|Spec): (.*)$', ln)
        if not m: break
        got.append((m.group(1), m.group(2), m.group(3)))
        if m.group(1) == '+': break
    # render expected
    expl = []; prev_t = object()
    for i, (sp, tg) in enumerate(exp):
        if tg is not prev_t: expl.append(('Target', bbrepr(tg)))
        prev_t = tg
        expl.append(('Spec', bbrepr(sp)))
    gotl = [(k, v) for _, k, v in got]
    def trunc_eq(a, b):
        if a == b: return True
        (ka, va), (kb, vb) = a, b
        if ka != kb: return False
        if '... (len=' in va or va.endswith('...'):
            return vb.startswith(va.split('...')[0])
        return False
    ok = len(gotl) == len(expl) and all(trunc_eq(g, x) for g, x in zip(gotl, expl))
    if branch_node is None: lin += 1
    else: br += 1
    if (got and got[-1][0] == '+') != (branch_node is not None): ok = False
    if not ok:
        bad += 1
        if bad <= 5:
            print('MISMATCH spec', repr(spec)); print(s); print('expected', expl); print()
print('bad', bad, 'linear', lin, 'branching', br)
