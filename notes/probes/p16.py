from glom import *
from glom.grouping import *
def show(label, f):
    try:
        r = f(); print(label, 'OK ', repr(r)[:200])
    except Exception as e:
        print(label, 'EXC', type(e).__name__, str(e).splitlines()[-1][:110])
show('First per bucket, ordered', lambda: glom([0,1,2,3], Group({T % 2: First()})))
show('First per bucket, 0,2,1', lambda: glom([0,2,1], Group({T % 2: First()})))
show('First + list sibling', lambda: glom([0,2,1,3], Group({T % 2: {Val('f'): First(), Val('all'): [T]}})))
show('Limit per bucket', lambda: glom([0,2,4,1,3,5], Group({T % 2: Limit(2)})))
show('Limit per bucket interleaved', lambda: glom([0,2,4,6,1,3,5], Group({T % 2: Limit(2)})))
show('aggs', lambda: glom(range(1,10), Group({T % 2: {Val('mx'): Max(), Val('mn'): Min(), Val('avg'): Avg(), Val('sum'): Sum(), Val('cnt'): Count()}})))
show('top-level First', lambda: glom([5,6,7], Group(First())))
show('top Limit(0)', lambda: glom([5,6,7], Group(Limit(0))))
show('top Limit dict', lambda: glom(range(10), Group(Limit(5, {T % 2: [T]}))))
show('two keyspecs', lambda: glom(range(6), Group({T % 2: [T], (lambda x: 'big' if x > 2 else 'small'): [T]})))
show('list multi', lambda: glom(range(3), Group([T, T * 10])))
show('callable leaf', lambda: glom(range(3), Group({T % 2: lambda x: x * 2})))
show('T leaf', lambda: glom(range(5), Group({T % 2: T})))
show('bucket key == True/1', lambda: glom([1, True, 1.0], Group({T: [T]})))
show('unhashable key', lambda: glom([[1]], Group({T: [T]})))
