# scratch: static scope calculus vs glom
import random, sys
from glom import *
from glom.matching import *
rnd = random.Random(int(sys.argv[1]) if len(sys.argv) > 1 else 0)
cnt = [0]
UNB = '<unbound>'
def gen(d):
    """recipe: ('bind', name, val) | ('abind', name) | ('gbind', name) | ('read', name) | ('gread', name) | ('tuple', [..]) | ('pipe', [..]) | ('dict', [..]) | ('list', r) | ('coal', [..]) | ('or', [..]) | ('and', [..]) | ('switch', [(k, v)..]) | ('id',)"""
    leafs = ['bind', 'abind', 'read', 'read', 'gbind', 'gread', 'id']
    kinds = leafs if d <= 0 else leafs + ['tuple', 'tuple', 'pipe', 'dict', 'list', 'coal', 'or', 'and', 'switch']
    k = rnd.choice(kinds)
    name = rnd.choice(['k', 'j'])
    if k == 'bind': cnt[0] += 1; return ('bind', name, 'v%d' % cnt[0])
    if k in ('abind', 'gbind', 'read', 'gread'): return (k, name)
    if k == 'id': return ('id',)
    if k in ('tuple', 'pipe', 'coal', 'or', 'and'): return (k, [gen(d-1) for _ in range(rnd.randint(1, 3))])
    if k == 'dict': return (k, [gen(d-1) for _ in range(rnd.randint(1, 3))])
    if k == 'list': return (k, gen(d-1))
    if k == 'switch': return (k, [(gen(0), gen(d-1)) for _ in range(rnd.randint(1, 2))])
def build(r):
    k = r[0]
    if k == 'bind': return S(**{r[1]: Val(r[2])})
    if k == 'abind': return getattr(A, r[1])
    if k == 'gbind': return getattr(A.globals, r[1])
    if k == 'read': return Coalesce(getattr(S, r[1]), default=UNB)
    if k == 'gread': return Coalesce(getattr(S.globals, r[1]), default=UNB)
    if k == 'id': return T
    if k == 'tuple': return tuple(build(x) for x in r[1])
    if k == 'pipe': return Pipe(*[build(x) for x in r[1]])
    if k == 'dict': return {'f%d' % i: build(x) for i, x in enumerate(r[1])}
    if k == 'list': return [build(r[1])]
    if k == 'coal': return Coalesce(*[build(x) for x in r[1]])
    if k == 'or': return Or(*[build(x) for x in r[1]])
    if k == 'and': return And(*[build(x) for x in r[1]])
    if k == 'switch': return Switch([(build(a), build(b)) for a, b in r[1]])
def direct_bindings(r, target, env):
    """bindings a step makes *directly* in its own frame"""
    if r[0] == 'bind': return {r[1]: r[2]}
    if r[0] == 'abind': return {r[1]: target}
    return {}
def ev(r, target, env, glob):
    """returns value; env is dict (immutable use); glob is per-call mutable dict"""
    k = r[0]
    if k in ('bind', 'abind'): return target
    if k == 'gbind': glob[r[1]] = target; return target
    if k == 'read': return env.get(r[1], UNB)
    if k == 'gread': return glob.get(r[1], UNB)
    if k == 'id': return target
    if k in ('tuple', 'pipe'):
        cur = target; e = dict(env)
        for x in r[1]:
            nxt = ev(x, cur, e, glob)
            e = dict(e); e.update(direct_bindings(x, cur, e))
            cur = nxt
        return cur
    if k == 'dict': return {'f%d' % i: ev(x, target, env, glob) for i, x in enumerate(r[1])}
    if k == 'list':
        if not isinstance(target, list): raise TypeError('skip')
        return [ev(r[1], t, env, glob) for t in target]
    if k in ('coal', 'or'): return ev(r[1][0], target, env, glob)    # nothing fails in this grammar: first child wins
    if k == 'and':
        res = target
        for x in r[1]: res = ev(x, target, env, glob)
        return res
    if k == 'switch':
        a, b = r[1][0]
        ev(a, target, env, glob)
        e = dict(env); e.update(direct_bindings(a, target, env))
        return ev(b, target, e, glob)
bad = 0; N = int(sys.argv[2]) if len(sys.argv) > 2 else 20000; nt = 0
for it in range(N):
    cnt[0] = 0
    r = gen(4)
    target = [1, 2]
    # lists require iterable target at that point; our grammar keeps the target unchanged except list elements (ints) -> nested list on int fails; so catch
    caller = {'k': 'caller-k'} if rnd.random() < 0.5 else {}
    snap = dict(caller)
    try:
        exp = ev(r, target, dict(caller), {})
    except TypeError:
        continue
    try:
        got = glom(target, build(r), scope=caller)
    except Exception as e:
        got = ('EXC', type(e).__name__, str(e).splitlines()[-1][:100])
    if caller != snap: got = ('CALLER MUTATED', caller)
    s = repr(r)
    if ("'bind'" in s or "'abind'" in s) and "'read'" in s: nt += 1
    if isinstance(got, tuple) and got and got[0] == 'EXC': continue
    if got != exp:
        bad += 1
        if bad <= 6: print('MISMATCH', r, '\n   got', got, '\n   exp', exp)
print('cases', N, 'nontrivial', nt, 'bad', bad)
