from glom import *
from glom.matching import *
from glom.grouping import Group
def show(label, f):
    try:
        r = f(); print(label, 'OK ', repr(r))
    except Exception as e:
        print(label, 'EXC', type(e).__name__, str(e).splitlines()[-1][:120])
t = {'a': {'b': 1}, 'x': 'a', 'l': [1,2]}
# probes: string 'a' : auto→{'b':1}; fill→'a'; match→MatchError ; 
show('tuple: Fill then str', lambda: glom(t, (Fill(T), 'a')))
show('tuple: Auto(Fill) then str', lambda: glom(t, (Auto(Fill(T)), 'a')))
show('tuple: T then str', lambda: glom(t, (T, 'a')))
show('Pipe: Fill then str', lambda: glom(t, Pipe(Fill(T), 'a')))
show('tuple: Match then str', lambda: glom(t, (Match(dict), 'a')))
show('tuple: Group then str', lambda: glom(t, ('l', Group([T]), T[0])))
show('tuple: Group then tuple probe', lambda: glom(t, (Val([t]), Group([T]), 'a')))
show('tuple: Group then list probe', lambda: glom(t, ('l', Group([T]), [T])))
show('dict sibling', lambda: glom(t, {'p': Fill('a'), 'q': 'a'}))
show('Coalesce branches', lambda: glom(t, Coalesce(Fill(SKIP), 'a', skip=SKIP)))
show('Coalesce branches2', lambda: glom(t, Coalesce((Fill(T), T['nope']), 'a')))
show('Switch case val', lambda: glom(t, Switch([(Match(dict), 'a')])))
show('Switch other case', lambda: glom(t, Switch([(Match(list), 'a'), (Match(dict), Auto('a'))])))
show('Switch other case2', lambda: glom(t, Switch([(Pipe(Match(dict), Match(1)), 'a'), (T, 'a')])))
show('inside Fill nested Auto then after', lambda: glom(t, Fill([Auto('a'), 'a'])))
show('inside Fill tuple w/ Auto first', lambda: glom(t, Fill((Auto('a'), 'a'))))
show('inside Match: Auto then', lambda: glom({'k': 'a'}, Match({'k': Auto((T, 'upper', Val('a')))} )))
show('Match→ And(Auto(..), str)', lambda: glom('a', Match(And(Auto(T.upper()), str))))
show('Fill in Pipe in Match', lambda: glom('a', Match(Pipe(Fill(T), 'a'))))
show('Fill in Pipe in Match (mismatch)', lambda: glom('a', Match(Pipe(Fill(T), 'b'))))
show('Auto tuple inside Match: Fill then str', lambda: glom({'a': 1}, Match(Auto((Fill(T), 'a')))))
# arg mode
show('argmode list', lambda: glom(t, Coalesce('nope', default=[T['x'], 'a', len, (T['x'],), {T['x']: T['x']}, {T['x']}, frozenset([T['x']])])))
l = [T['x']]; l.append(l)
r = glom(t, Coalesce('nope', default=l)); print('cyclic', r[0], r[1] is r)
d = {'k': T['x']}; d['self'] = d
r = glom(t, Coalesce('nope', default=d)); print('cyclic dict', r['k'], r['self'] is r)
show('arg Val', lambda: glom(t, Coalesce('nope', default=Val(T))))
show('arg Spec', lambda: glom(t, Coalesce('nope', default=Spec('a'))))
show('arg str', lambda: glom(t, Coalesce('nope', default='a')))
show('S assign container', lambda: glom(t, (S(v=[T['x'], 'a']), S.v)))
show('Assign val container', lambda: glom({}, Assign('k', [T, 'a', len])))
show('nested Fill in arg', lambda: glom(t, Coalesce('nope', default=[Fill([T['x']]), Auto('a')])))
show('arg tuple of containers', lambda: glom(t, Call(lambda *a: a, args=([T['x']], 'x'))))
class L(list): pass
show('subclass list in arg', lambda: glom(t, Coalesce('nope', default=L([T['x']]))))
show('subclass list in Fill', lambda: glom(t, Fill(L([T['x']]))))
from collections import OrderedDict
show('OrderedDict in Fill', lambda: glom(t, Fill(OrderedDict(k=T['x']))))
show('OrderedDict in arg', lambda: glom(t, Coalesce('nope', default=OrderedDict(k=T['x']))))
