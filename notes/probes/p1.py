from glom import *
from glom.core import PathAccessError
from collections import OrderedDict
class O:
    def __init__(s, **kw): s.__dict__.update(kw)
def show(f):
    try:
        r = f(); print('OK ', repr(r))
    except Exception as e:
        print('EXC', type(e).__mro__[:3], getattr(e,'part_idx',None), repr(getattr(e,'exc',None)))
t = {'a': [ {'b': O(c=(1,2,{'d': None}))} ], 'n': None, '': 5, 1: 'int-key', '1': 'str-key'}
show(lambda: glom(t, 'a.0.b.c.2.d'))
show(lambda: glom(t, 'a.0.b.c.2.d.e'))
show(lambda: glom(t, 'a.0.b.x.2.d.e'))
show(lambda: glom(t, 'a.5'))
show(lambda: glom(t, 'a.x'))
show(lambda: glom(t, ''))       # empty segment: key ''
show(lambda: glom(t, 'n.x'))
show(lambda: glom(t, Path('a', 0, 'b')))
show(lambda: glom(t, Path(1)))
show(lambda: glom(t, '1'))
show(lambda: glom(t, Path('a', T[0], 'b', T.c)))
show(lambda: glom(t, Path('a', T[7], 'b', T.c)))
show(lambda: glom(t, Path('a', T[0], 'q', T.c)))
show(lambda: glom(t, Path()))
show(lambda: glom([1,2,3], '-1'))
show(lambda: glom((1,2,3), '1'))
show(lambda: glom([1,2,3], ' 1 '))
show(lambda: glom([1,2,3], '1_0'))
show(lambda: glom(OrderedDict(a=1), 'a'))
show(lambda: glom('abc', '0'))   # str target: getattr
show(lambda: glom(5, 'real'))
show(lambda: glom({'a':{}}, 'a.keys'))
# identity
x = {'k': [1,2]}
print(glom(x, 'k') is x['k'], glom(x, Path()) is x, glom(x, T) is x)
# catchable
for E in (KeyError, IndexError, AttributeError, GlomError, LookupError):
    try: glom({}, 'a')
    except E as e: print('caught as', E.__name__)
