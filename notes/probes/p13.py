from glom import *
from glom.core import TargetRegistry, UnregisteredTarget
import itertools
class A: pass
class B(A): pass
class C(B): pass
class D(A): pass
class E(B, D): pass   # diamond
def tag(name):
    def h(obj, k): return name
    h.__name__ = 'get_' + name
    return h
def expected(obj_type, regs):
    """nearest registered type by MRO: exact registration first; else first class in MRO registered non-exact"""
    for cls in obj_type.__mro__:
        if cls in regs:
            exact = regs[cls]
            if cls is obj_type or not exact:
                return cls.__name__
    return None
classes = [A, B, C, D, E]
bad = 0; total = 0
for n in range(1, 5):
    for subset in itertools.permutations(classes, n):
        g = Glommer(register_default_types=False)
        regs = {}
        for cls in subset:
            g.register(cls, get=tag(cls.__name__))
            regs[cls] = False
        for cls in classes:
            total += 1
            try:
                got = g.glom(cls(), 'x')
            except UnregisteredTarget:
                got = None
            exp = expected(cls, regs)
            if got != exp:
                bad += 1
                if bad < 15:
                    print('order', [c.__name__ for c in subset], 'obj', cls.__name__, 'got', got, 'expected', exp)
print(bad, total)
