from glom import *
from glom.core import TargetRegistry, UnregisteredTarget
import itertools, random
class A: pass
class B(A): pass
class C(B): pass
class D(A): pass
class E(B, D): pass   # diamond
class L(list): pass
class L2(L): pass
class DD(dict): pass
class Sl:
    __slots__ = ('x',)
def tag(name):
    def h(obj, k): return ('H', name)
    return h
classes = [A, B, C, D, E, L, L2, DD, Sl]
def admissible(obj, regs, default_types):
    t = type(obj)
    if t in regs:       # exact hit in type_map regardless of exact flag
        return {t.__name__}
    cands = [c for c, exact in regs.items() if not exact and isinstance(obj, c)]
    cands += [c for c in default_types if isinstance(obj, c) and c not in regs]
    mins = [c for c in cands if not any((o is not c and issubclass(o, c)) for o in cands)]
    return {c.__name__ for c in mins}
rnd = random.Random(5)
bad = 0; total = 0
for trial in range(3000):
    use_default = rnd.random() < 0.5
    g = Glommer(register_default_types=use_default)
    regs = {}
    n = rnd.randint(1, 5)
    order = [rnd.choice(classes) for _ in range(n)]
    log = []
    for cls in order:
        exact = rnd.random() < 0.3
        g.register(cls, get=tag(cls.__name__), exact=exact)
        # re-registering: the latest registration's exact flag... fuzzy tree entry persists if ever non-exact
        prev = regs.get(cls)
        regs[cls] = exact if prev is None else (prev and exact)
        log.append((cls.__name__, exact))
        if rnd.random() < 0.5:   # interleaved lookup
            try: g.glom(rnd.choice(classes)(), 'x')
            except Exception: pass
    from collections import OrderedDict
    default_types = [object, dict, list, tuple, OrderedDict] if use_default else []
    for cls in classes:
        total += 1
        obj = cls()
        try:
            got = g.glom(obj, 'x')
        except UnregisteredTarget:
            got = None
        except Exception as e:
            got = ('default', type(e).__name__)
        adm = admissible(obj, regs, default_types)
        if isinstance(got, tuple) and got[0] == 'H':
            ok = got[1] in adm
        elif got is None:
            ok = not adm
        else:  # default handler ran (error from getattr/getitem)
            ok = bool(adm & {'object','dict','list','tuple','OrderedDict'})
        if not ok:
            bad += 1
            if bad < 12: print(use_default, log, cls.__name__, 'got', got, 'adm', adm)
print(bad, total)
