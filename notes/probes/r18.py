import random, sys, pickle
from glom import *
from glom.core import TType
rnd = random.Random(int(sys.argv[1]) if len(sys.argv) > 1 else 0)
def lit(d=2):
    r = rnd.random()
    if r < 0.2: return rnd.choice([0, 1, -1, 7, 10**12])
    if r < 0.4: return rnd.choice(['a', 'b.c', "it's", 'q"q', 'é', '', ' ', 'a\nb', '\\'])
    if r < 0.5: return rnd.choice([None, True, False, 1.5, -0.0, 1e100, b'x', Ellipsis])
    if r < 0.6: return rnd.choice([len, int, str, abs])
    if d > 0 and r < 0.75: return tuple(lit(d-1) for _ in range(rnd.randint(0, 3)))
    if d > 0 and r < 0.85: return slice(*[rnd.choice([None, 0, 1, -2, 3]) for _ in range(3)])
    if d > 0 and r < 0.92: return frozenset([rnd.choice([1, 'a', None])])
    if d > 0: return texpr(rnd.randint(0, 2), d-1)
    return 5
def texpr(n, d=2, root=None):
    t = root if root is not None else T
    for _ in range(n):
        r = rnd.random()
        if r < 0.3: t = getattr(t, rnd.choice(['a', 'b', 'real', 'x1', '_p']))
        elif r < 0.35: t = t.__(rnd.choice(['class__', 'x', 'len__']))
        elif r < 0.65: t = t[lit(d)]
        elif r < 0.85:
            args = [lit(d) for _ in range(rnd.randint(0, 2))]
            kw = {k: lit(d) for k in rnd.sample(['k', 'j', 'z'], rnd.randint(0, 2))}
            if t is S: continue
            t = t(*args, **kw)
        elif r < 0.93: t = t.__star__()
        else: t = t.__starstar__()
    return t
def ops_eq(a, b):
    if isinstance(a, TType) and isinstance(b, TType):
        x, y = a.__ops__, b.__ops__
        if (x[0] is T, x[0] is S, x[0] is A) != (y[0] is T, y[0] is S, y[0] is A): return False
        return ops_eq(x[1:], y[1:])
    if type(a) != type(b): return False
    if isinstance(a, (tuple, list)): return len(a) == len(b) and all(ops_eq(p, q) for p, q in zip(a, b))
    if isinstance(a, dict): return a.keys() == b.keys() and all(ops_eq(a[k], b[k]) for k in a)
    if isinstance(a, slice): return ops_eq((a.start, a.stop, a.step), (b.start, b.stop, b.step))
    if isinstance(a, frozenset): return a == b
    if isinstance(a, float): return repr(a) == repr(b)
    return a == b
ns = {'T': T, 'S': S, 'A': A, 'Path': Path}
kinds = {}
N = 30000
for i in range(N):
    root = rnd.choice([T, T, T, S])
    x = texpr(rnd.randint(0, 5), 2, root)
    if rnd.random() < 0.3 and root is T:
        parts = []
        for _ in range(rnd.randint(0, 3)):
            parts.append(rnd.choice(['a', 'b.c', 1, '*']) if rnd.random() < 0.6 else texpr(rnd.randint(1, 2), 1))
        x = Path(*parts)
    r = repr(x)
    try:
        y = eval(r, dict(ns))
    except Exception as e:
        k = ('eval-fail', type(e).__name__); kinds.setdefault(k, []).append(r); continue
    yo = y.path_t if isinstance(y, Path) else y
    xo = x.path_t if isinstance(x, Path) else x
    if not isinstance(yo, TType): kinds.setdefault(('not-T', type(y).__name__), []).append(r); continue
    try: repr(y)
    except Exception as e: kinds.setdefault(('repr-of-result-fails', type(e).__name__), []).append(r); continue
    if repr(y) != r: kinds.setdefault(('repr-differs',), []).append((r, repr(y))); continue
    if not ops_eq(xo, yo): kinds.setdefault(('ops-differ',), []).append((r, xo.__ops__, yo.__ops__)); continue
    try:
        z = pickle.loads(pickle.dumps(x))
        zo = z.path_t if isinstance(z, Path) else z
        if not ops_eq(xo, zo) or repr(z) != r: kinds.setdefault(('pickle-differs',), []).append(r)
    except Exception as e:
        kinds.setdefault(('pickle-fail', type(e).__name__), []).append(r)
for k, v in kinds.items():
    print(k, len(v)); 
    for s in v[:5]: print('    ', s)
print('done', N)
