from glom import *
from glom.reduction import Count
from glom.grouping import *
import itertools
def show(label, f):
    try:
        r = f(); print(label, 'OK ', repr(r)[:200])
    except Exception as e:
        print(label, 'EXC', type(e).__name__, str(e).splitlines()[-1][:110])
show('aggs', lambda: glom(range(1,10), Group({T % 2: {Val('mx'): Max(), Val('mn'): Min(), Val('avg'): Avg(), Val('sum'): Sum(), Val('cnt'): Count()}})))
class Src:
    def __init__(s, it): s.it = iter(it); s.pulled = 0
    def __iter__(s): return s
    def __next__(s):
        v = next(s.it); s.pulled += 1; return v
def take(spec, src, k):
    it = glom(src, spec)
    out = list(itertools.islice(it, k))
    return out, src.pulled
print(take(Iter().map(T * 2).filter(lambda x: x % 3).chunked(2), Src(itertools.count()), 3))
print(take(Iter().windowed(3), Src(itertools.count()), 2))
print(take(Iter().split(sep=0).map(len), Src(itertools.cycle([1,2,0])), 2))
print(take(Iter().unique(T % 5), Src(itertools.count()), 5))
print(take(Iter().flatten(), Src([i]*2 for i in itertools.count()), 5))
print(take(Iter().slice(2, 10, 3), Src(itertools.count()), 2))
print(take(Iter().takewhile(lambda x: x < 3), Src(itertools.count()), 10))
print(take(Iter().dropwhile(lambda x: x < 3), Src(itertools.count()), 2))
print(take(Iter().limit(3), Src(itertools.count()), 10))
s = Src(itertools.count()); print(glom(s, Iter().first(lambda x: x > 3)), s.pulled)
s = Src(range(5)); print(glom(s, Iter().first(lambda x: x > 30, default='none')), s.pulled)
s = Src(range(5)); print(glom(s, Iter().all()), s.pulled)
s = Src(itertools.count()); print(glom(s, Iter(lambda x: x if x < 4 else STOP).all()), s.pulled)
s = Src(itertools.count()); print(glom(s, Iter(lambda x: SKIP if x % 2 else x).limit(3).all()), s.pulled)
s = Src(itertools.count()); print(glom(s, Iter(sentinel=5).all()), s.pulled)
show('map SKIP', lambda: glom(range(5), Iter().map(lambda x: SKIP if x % 2 else x).all()))
show('map STOP', lambda: glom(range(5), Iter().map(lambda x: STOP if x > 2 else x).all()))
show('filter default key', lambda: glom([0,1,'',2], Iter().filter().all()))
show('filter Check', lambda: glom(range(6), Iter().filter(Check(T % 2, equal_to=1, default=SKIP)).all()))
show('filter key failing access', lambda: glom([{'a':1},{}], Iter().filter('a').all()))
show('chunked fill', lambda: glom(range(5), Iter().chunked(2, fill=None).all()))
base = Iter().map(T + 1)
r0 = repr(base)
d1 = base.filter(T % 2); d2 = base.limit(1)
print(repr(base) == r0, repr(d1), repr(d2), glom([1,2,3], base.all()), glom([1,2,3], d1.all()), glom([1,2,3], d2.all()))
inv = Invoke(dict).constants(a=1)
i2 = inv.specs(b=T); i3 = inv.constants(a=2); i4 = inv.star(kwargs=T)
print(repr(inv), '|', repr(i2), '|', repr(i3), '|', glom({'z':0}, inv), glom(5, i2), glom(5, i3), glom({'q': 1}, i4))
show('order: map then filter vs filter then map', lambda: (glom(range(6), Iter().map(T*2).filter(T % 4).all()), glom(range(6), Iter().filter(T % 4).map(T*2).all())))
show('Iter subspec + stack', lambda: glom(range(6), Iter(T * 3).filter(T % 2).all()))
show('non iterable', lambda: glom(5, Iter()))
show('repr', lambda: repr(Iter().map(T*2).filter().chunked(2, fill=0).split().flatten().unique().slice(1,5).limit(3).takewhile().dropwhile().windowed(2)))
