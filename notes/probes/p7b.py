from glom import *
from glom.matching import *
import traceback
try:
    glom(1, S.k)
except Exception as e:
    print(type(e), e.args)
    try: print(str(e))
    except Exception as e2: print('str failed:', type(e2), e2)
    print(repr(e))
try:
    glom(1, S['k'])
except Exception as e:
    try: print(str(e))
    except Exception as e2: print('str failed:', type(e2), e2)
try:
    glom(1, S.a.b, scope={'a': 1})
except Exception as e:
    try: print(str(e))
    except Exception as e2: print('str failed:', type(e2), e2)
try:
    glom(1, Coalesce(S.k, 'x'))
except Exception as e:
    try: print(str(e))
    except Exception as e2: print('str failed:', type(e2), e2)
def show(label, f):
    try:
        r = f(); print(label, 'OK ', repr(r))
    except Exception as e:
        print(label, 'EXC', type(e).__name__)
show('Switch direct binder', lambda: glom(1, Switch([(S(k=Val('b')), S.k)])))
show('Switch regex', lambda: glom('ab', Switch([(Regex('(?P<k>a)b'), S.k)])))
show('Switch direct binder other case', lambda: glom(1, Switch([(Pipe(S(k=Val('b')), M==2), S.k), (M==1, Coalesce(S.k, default='unbound'))])))
show('Switch A binder', lambda: glom(1, Switch([(A.k, S.k)])))
show('Match dict key binder', lambda: glom({'x': 1}, Match({ A.k: Auto(S.k) })))
show('Match dict key binder sibling', lambda: glom({'x': 1, 'y': 2}, Match({ Pipe(M == 'x', A.k): Auto(S.k), 'y': Auto(Coalesce(S.k, default='unbound')) })))
