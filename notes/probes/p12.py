from glom import *
def show(label, f):
    try:
        r = f(); print(label, 'OK ', repr(r)[:300])
    except Exception as e:
        print(label, 'EXC', type(e).__name__, [c.__name__ for c in type(e).__mro__[1:3]], str(e).splitlines()[-1][:110])
class Obj:
    def __init__(s, **kw): s.__dict__.update(kw)
    def __repr__(s): return 'Obj(%r)' % s.__dict__
for im in (False, True):
    print('--- ignore_missing', im)
    show('str  dict present', lambda: delete({'a': 1, 'b': 2}, 'a', ignore_missing=im))
    show('str  dict missing', lambda: delete({'b': 2}, 'a', ignore_missing=im))
    show('T[]  dict present', lambda: delete({'a': 1, 'b': 2}, T['a'], ignore_missing=im))
    show('T[]  dict missing', lambda: delete({'b': 2}, T['a'], ignore_missing=im))
    show('Path dict missing', lambda: delete({'b': 2}, Path('a'), ignore_missing=im))
    show('str  list present', lambda: delete([1,2,3], '1', ignore_missing=im))
    show('str  list missing', lambda: delete([1,2,3], '7', ignore_missing=im))
    show('T[]  list present', lambda: delete([1,2,3], T[1], ignore_missing=im))
    show('T[]  list missing', lambda: delete([1,2,3], T[7], ignore_missing=im))
    show('str  attr present', lambda: delete(Obj(a=1), 'a', ignore_missing=im))
    show('str  attr missing', lambda: delete(Obj(), 'a', ignore_missing=im))
    show('T.   attr present', lambda: delete(Obj(a=1), T.a, ignore_missing=im))
    show('T.   attr missing', lambda: delete(Obj(), T.a, ignore_missing=im))
    show('T.   on dict (attr of dict) missing', lambda: delete({'a': 1}, T.a, ignore_missing=im))
    show('T[]  on obj', lambda: delete(Obj(a=1), T['a'], ignore_missing=im))
    show('missing parent str', lambda: delete({'x': {}}, 'a.b', ignore_missing=im))
    show('missing parent T', lambda: delete({'x': {}}, T['a']['b'], ignore_missing=im))
    show('nested present', lambda: delete({'x': {'y': [1, {'z': 0}]}}, 'x.y.1.z', ignore_missing=im))
    show('tuple elem', lambda: delete({'x': (1,2)}, 'x.0', ignore_missing=im))
    show('tuple elem T', lambda: delete({'x': (1,2)}, T['x'][0], ignore_missing=im))
    show('str target T[]', lambda: delete('abc', T[0], ignore_missing=im))
    show('neg idx', lambda: delete([1,2,3], '-1', ignore_missing=im))
    show('T slice', lambda: delete([1,2,3], T[0:2], ignore_missing=im))
    show('wild', lambda: delete([{'k':1},{'k':2}], '*.k', ignore_missing=im))
    show('wild miss', lambda: delete([{'k':1},{'j':2}], '*.k', ignore_missing=im))
    show('S-rooted', lambda: glom(1, (S(x={'k': 1}), Delete(S['x']['k'], ignore_missing=im), S['x'])))
