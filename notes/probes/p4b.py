from glom import *
import copy
class Prefix(GlomError):
    def __init__(self, msg): super().__init__('prefix: ' + msg)
class KwGlom(GlomError):
    def __init__(self, *, code): super().__init__(code); self.code = code
class Arity2(GlomError):
    def __init__(self, a, b): super().__init__(a)
class PrefixPlain(Exception):
    def __init__(self, msg): super().__init__('prefix: ' + msg)
class CountArgs(Exception):
    def __init__(self, *a): super().__init__(len(a))
def raiser(exc):
    def f(t): raise exc
    return f
for exc in [Prefix('m'), KwGlom(code=1), Arity2(1,2), PrefixPlain('m'), CountArgs(1,2,3)]:
    try:
        glom(1, raiser(exc))
    except BaseException as e:
        print(type(exc).__name__, exc.args, '->', type(e).__name__, e.args, 'isinst', isinstance(e, type(exc)), 'glomerr', isinstance(e, GlomError))
# glom-raised errors: MatchError / TypeMatchError / CheckError / CoalesceError / FoldError / BadSpec/ UnregisteredTarget / PathAssignError / PathDeleteError
from glom import Match, Check, Coalesce, Fold, Assign, Delete, Iter
from glom.grouping import Group
cases = {
 'MatchError': (1, Match(2)),
 'TypeMatchError': (1, Match(str)),
 'CheckError': (1, Check(type=str)),
 'CoalesceError': ({}, Coalesce('a','b')),
 'FoldError': (1, Fold(T, init=int)),
 'BadSpec': ([1], Group(5)),
 'UnregisteredTarget': (1, ['a']),
 'PathAssignError': ((1,), Assign('0', 5)),
 'PathDeleteError': ({}, Delete('a')),
 'PathAccessError': ({}, 'a'),
}
import glom as G
for name,(t,s) in cases.items():
    try: glom(t,s)
    except Exception as e:
        print(name, '->', type(e).__name__, type(e) is getattr(G, name, None) or type(e).__name__, isinstance(e, GlomError), e.args)
        for kw in (dict(default='D'),):
            print('   default ->', glom(t,s,**kw))
