from glom import *
from glom.matching import *
def tr(t, s, **kw):
    try: r = glom(t, s, **kw); print('NO ERROR', r)
    except Exception as e: print(str(e)); 
    print('='*60)
t = {'a': {'b': [ {'c': 1}, {'c': 2, 'd': {'e': 3}} ]}, 'z': 'zz'}
tr(t, {'x': ('a', 'b', [ 'd.e' ])})
tr(t, {'ok': 'z', 'x': ('a', {'y': ('b', T[1], 'd', 'q')}), 'never': 'z'})
tr(t, (Coalesce('nope', 'a'), 'b', T[0], 'zzz'))       # recovered branch then failure
tr(t, (Coalesce('nope', 'nope2', default=T), 'a', Coalesce('x', ('b', 'y'))))
tr(t, ('a', Or('x', And('b', 'y'), default=T), 'w'))
tr(t, Match(Switch([(M == 1, Val(1)), (dict, Auto(('a', 'q')))])))
tr(t, ('a', lambda x: 1/0))
tr(t, ('a', 'b', [Coalesce('d', 'c')], T[5]))
tr([1,2,3], [Coalesce(lambda x: 1//(x-2), 'a')] )
tr({'a': 'é'*200}, ('a', T.nope))
tr(t, Call(T['z'].upper, args=(T['q'],)))
tr(t, Invoke(dict).specs(a='a', b='q'))
tr(t, Fill({'k': T['a']['q']}))
tr(t, ('a', S(v=T['q'])))
tr(t, Ref('r', ('a', 'b', [Coalesce(('d', Ref('r')), 'c')])) )
