"""Shared machinery of C11 (assign) and C12 (delete): fault-injecting containers, path
generation by walking the target, spellings, position maps for the frame condition."""
from hypothesis import strategies as st

from glom import Path, T, S

from . import targets as tg


class FaultDict(tg.RecDict):
    """dict whose item assignment / deletion raises"""
    __slots__ = ()

    def __setitem__(self, k, v):
        self._logit('setitem-raises', k)
        raise RuntimeError('setitem refused')

    def __delitem__(self, k):
        self._logit('delitem-raises', k)
        raise RuntimeError('delitem refused')


class FaultObj(tg.Obj):
    """object whose attribute assignment / deletion raises"""
    def __setattr__(self, name, value):
        raise RuntimeError('setattr refused')

    def __delattr__(self, name):
        raise RuntimeError('delattr refused')

    def __repr__(self):
        return 'FaultObj(%s)' % ', '.join('%s=%r' % kv for kv in sorted(self.__dict__.items()))


class ROProp(tg.Obj):
    """object with a read-only property `ro`"""
    @property
    def ro(self):
        return self.__dict__.get('_ro', 'ro-value')

    def __repr__(self):
        return 'ROProp(%s)' % ', '.join('%s=%r' % kv for kv in sorted(self.__dict__.items()))


class DictSub(dict):
    """an ordinary dict subclass: its instances have a __dict__ (glom's object duck type matches them too)"""


class ListSub(list):
    """an ordinary list subclass with an instance __dict__"""


def build(recipe):
    b = tg.Built()
    b.obj = _build(recipe, b)
    return b


def _build(r, b):
    tag = r[0]
    if tag == 'fdict':
        c = FaultDict()
        nid = len(b.nodes)
        b.nodes.append(c)
        for k, v in r[1]:
            dict.__setitem__(c, tg._key(k), _build(v, b))
        c._log, c._nid = b.log, nid
        return c
    if tag in ('fobj', 'roprop'):
        c = (FaultObj if tag == 'fobj' else ROProp)()
        b.nodes.append(c)
        for k, v in r[1]:
            c.__dict__[k] = _build(v, b)
        return c
    if tag in ('dict', 'odict', 'rdict', 'dsub'):
        c = {'dict': dict, 'odict': tg.OrderedDict, 'rdict': tg.RecDict, 'dsub': DictSub}[tag]()
        nid = len(b.nodes)
        b.nodes.append(c)
        # (an OrderedDict filled through dict.__setitem__ has the items but iterates as empty)
        setitem = tg.OrderedDict.__setitem__ if tag == 'odict' else dict.__setitem__
        for k, v in r[1]:
            setitem(c, tg._key(k), _build(v, b))
        if tag == 'rdict':
            c._log, c._nid = b.log, nid
        return c
    if tag in ('list', 'rlist', 'lsub'):
        c = {'list': list, 'rlist': tg.RecList, 'lsub': ListSub}[tag]()
        nid = len(b.nodes)
        b.nodes.append(c)
        for v in r[1]:
            list.append(c, _build(v, b))
        if tag == 'rlist':
            c._log, c._nid = b.log, nid
        return c
    if tag in ('obj', 'robj'):
        c = {'obj': tg.Obj, 'robj': tg.RecObj}[tag]()
        nid = len(b.nodes)
        b.nodes.append(c)
        for k, v in r[1]:
            c.__dict__[k] = _build(v, b)
        if tag == 'robj':
            object.__setattr__(c, '_log', b.log)
            object.__setattr__(c, '_nid', nid)
        return c
    if tag == 'tuple':
        return tuple(_build(v, b) for v in r[1])
    return tg._build(r, b)


KEYS = ['a', 'b', 'c', 'k', 0, 1]
ATTRS = ['a', 'b', 'x']


def gen_target(draw, depth=3):
    """tree-shaped target (no sharing: positions identify objects) with fault containers sprinkled in"""
    def atom():
        return draw(st.sampled_from([['i', 1], ['i', 7], ['s', 'v'], ['none'], ['tuple', [['i', 1], ['i', 2]]],
                                     ['s', ''], ['fset', [['i', 1]]], ['list', []], ['dict', []], ['f', 0.5]]))

    def node(d):
        r = draw(st.integers(0, 99))
        if d <= 0 or r < 22:
            return atom()
        n = draw(st.integers(0, 3))
        if r < 52:
            tag = draw(st.sampled_from(['dict', 'rdict', 'rdict', 'odict', 'fdict', 'dsub'])) if r < 30 else \
                draw(st.sampled_from(['dict', 'rdict', 'odict', 'dsub']))
            ks = draw(st.lists(st.sampled_from(KEYS), min_size=n, max_size=n, unique_by=repr))
            return [tag, [[k, node(d - 1)] for k in ks]]
        if r < 74:
            return [draw(st.sampled_from(['list', 'rlist', 'rlist', 'lsub'])), [node(d - 1) for _ in range(n)]]
        if r < 80:
            return ['tuple', [node(d - 1) for _ in range(n)]]
        tag = draw(st.sampled_from(['obj', 'robj', 'robj', 'fobj', 'roprop'])) if r < 90 else \
            draw(st.sampled_from(['obj', 'robj']))
        ks = draw(st.lists(st.sampled_from(ATTRS), min_size=n, max_size=n, unique=True))
        return [tag, [[k, node(d - 1)] for k in ks]]

    t = node(depth)
    if t[0] in tg.SCALAR_TAGS or t[0] in ('tuple', 'fset'):
        t = ['rdict', [['a', t], ['b', node(depth - 1)]]]
    return t


def kind_of(v):
    if isinstance(v, dict):
        return 'map'
    if isinstance(v, (list, tuple)):
        return 'seq'
    return 'attr'


def access(cur, op, seg):
    """plain Python access for one step (no logging side effects on recording containers)"""
    if op == 'P':
        k = kind_of(cur)
        if k == 'map':
            return dict.__getitem__(cur, seg)
        if k == 'seq':
            return (list if isinstance(cur, list) else tuple).__getitem__(cur, int(seg))
        return _getattr(cur, seg)
    if op == '[':
        if isinstance(cur, dict):
            return dict.__getitem__(cur, seg)
        if isinstance(cur, list):
            return list.__getitem__(cur, seg)
        return cur[seg]
    return _getattr(cur, seg)


def _getattr(cur, seg):
    if not isinstance(seg, str):
        raise TypeError('attribute name must be string')
    if isinstance(cur, tg.RecObj):
        if seg.startswith('_'):
            raise AttributeError(seg)
        d = object.__getattribute__(cur, '__dict__')
        if seg in d:
            return d[seg]
        raise AttributeError(seg)
    return getattr(cur, seg)


def mc_is_seq(v):
    return isinstance(v, (list, tuple))


ACCESS_ERRORS = (KeyError, IndexError, AttributeError, TypeError, ValueError)


def gen_steps(draw, target, max_len=4, final_present=None):
    """walk the target: the prefix exists up to a drawn position and stops existing there.
    Returns list of [op, seg]; the last step is the destination (present or absent)."""
    n = draw(st.integers(1, max_len))
    cur = target
    steps = []
    broken = False
    for i in range(n):
        last = (i == n - 1)
        op = draw(st.sampled_from(['P', 'P', 'P', '[', '.']))
        want_valid = (not broken) and draw(st.integers(0, 9)) < (7 if not last else 5)
        if last and final_present is not None and not broken:
            want_valid = final_present
        seg = None
        if want_valid:
            k = kind_of(cur)
            if k == 'map' and len(cur) and op in ('P', '['):
                seg = draw(st.sampled_from(sorted(dict.keys(cur), key=repr)))
            elif k == 'seq' and len(cur) and op in ('P', '['):
                idx = draw(st.integers(-len(cur), len(cur) - 1))
                seg = str(idx) if (op == 'P' and draw(st.booleans())) else idx
            elif k == 'attr' and op in ('P', '.'):
                names = sorted(a for a in getattr(cur, '__dict__', {}) if not a.startswith('_'))
                if isinstance(cur, ROProp) and draw(st.booleans()):
                    names = names + ['ro']
                if names:
                    seg = draw(st.sampled_from(names))
        if seg is None and not broken and mc_is_seq(cur) and draw(st.integers(0, 9)) < 8:
            if op == '.':
                op = 'P'
            # out-of-range indexes at every distance from the ends (boundary cases of index arithmetic)
            n_ = len(cur)
            idx = draw(st.sampled_from([n_, n_ + 1, -n_ - 1, -n_ - 2, -2 * n_, -2 * n_ - 1, 2 * n_]))
            seg = str(idx) if (op == 'P' and draw(st.booleans())) else idx
        if seg is None:
            seg = draw(st.sampled_from(['zz', 'new', 'a', 'b', 5, '5', -7, 'ro']))
        if op == '.' and not (isinstance(seg, str) and seg.isidentifier() and not seg.startswith('_')):
            op = 'P'
        steps.append([op, seg])
        if not broken:
            try:
                cur = access(cur, op, seg)
            except ACCESS_ERRORS:
                broken = True
            except Exception:
                broken = True
    return steps


def spellings(steps):
    out = ['path']
    if all(o == 'P' and isinstance(s, str) and '.' not in s and s not in ('*', '**') and s != '' for o, s in steps):
        out.append('str')
    if all(o in '[.' for o, _ in steps):
        out.append('t')
    out.append('s-rooted')
    return out


def make_path(steps, spelling):
    if spelling == 'str':
        return '.'.join(s for _, s in steps)
    if spelling == 't':
        t = T
        for op, seg in steps:
            t = t[seg] if op == '[' else getattr(t, seg)
        return t
    parts = []
    if spelling == 's-rooted':
        parts.append(S['tgt'])
    for op, seg in steps:
        if op == 'P':
            parts.append(seg)
        elif op == '[':
            parts.append(T[seg])
        else:
            parts.append(getattr(T, seg))
    return Path(*parts)


def positions(root, max_depth=8):
    """{access-position tuple: id(object)} for every object reachable from root (tree-shaped targets)"""
    out = {}

    def walk(v, pos, depth):
        out[pos] = id(v)
        if depth <= 0:
            return
        for lab, c in tg.children(v):
            walk(c, pos + (lab,), depth - 1)
    walk(root, (), max_depth)
    return out
