"""Pristine-process reference for C06: evaluates a (kind, recipe) pair FIRST in a process that has imported
glom but never called it.

Server mode (python -B -m vf.cold <repo>): reads one JSON request per line on stdin, forks a child per
request (the server itself never evaluates anything, so every child starts from the pristine state),
the child applies the requested PATH_STAR value / number of registrations, evaluates once and prints
one JSON line.  Client: ColdServer().ask(request).
"""
import os
import re
import sys
import json
import subprocess

ADDR = re.compile(r' at 0x[0-9a-f]+')
HERE = os.path.dirname(os.path.dirname(os.path.abspath(__file__)))


def canon_outcome(fn):
    """('ok', canonical text) | ('err', class name, message)"""
    from . import targets as tg
    try:
        v = fn()
    except Exception as e:
        try:
            msg = str(e)
        except Exception as e2:
            msg = '<str failed %r>' % (e2,)
        # (the names of the bases too: two classes may share their name)
        return ['err', type(e).__name__, ADDR.sub('', msg), [c.__name__ for c in type(e).__mro__]]
    if hasattr(v, '__next__'):
        try:
            v = ['<iterator>', list(v)]
        except Exception as e:
            return ['err-in-iteration', type(e).__name__, ADDR.sub('', str(e))]
    try:
        text = repr(tg.structure(v))
    except RecursionError:
        text = '<deep>'
    return ['ok', ADDR.sub('', text)]


def apply_env(star, nreg):
    import glom
    import glom.core
    glom.core.PATH_STAR = bool(star)
    for i in range(nreg):
        cls = type('Throwaway%d' % i, (object,), {'__slots__': ()})
        glom.register(cls, get=lambda o, k: None)


def evaluate_request(req):
    from .props import c06
    apply_env(req['star'], req['nreg'])
    env = {}        # the classes made for this request: the target's and those of the registrations are the same
    target, spec, kw = c06.build_entry(req['kind'], req['recipe'], env)
    import glom
    if req.get('regs') and not req.get('glommer'):
        c06.apply_regs(glom, req['regs'], env)
    if req.get('specglom'):
        sp = glom.Spec(spec, scope={'k': 'spec-level-k'})
        return canon_outcome(lambda: sp.glom(target, scope=req['specglom']))
    if req.get('glommer'):
        from . import targets as tg
        g = glom.Glommer()
        for _ in range(req.get('gregs', 0)):
            g.register(tg.Slots, get=c06.custom_get)
        c06.apply_regs(g, req.get('regs') or [], env)
        return canon_outcome(lambda: g.glom(target, spec, **kw))
    return canon_outcome(lambda: glom.glom(target, spec, **kw))


def serve():
    repo = sys.argv[1]
    sys.path.insert(0, HERE)
    sys.path.insert(0, repo)
    import warnings
    warnings.filterwarnings('ignore', message=".*have changed behavior in glom version.*")
    import glom  # noqa  (imported, never called in this process)
    f = os.path.abspath(glom.__file__)
    if not f.startswith(os.path.abspath(repo) + os.sep):
        sys.stdout.write(json.dumps({'fatal': 'glom resolved to %s' % f}) + '\n')
        sys.stdout.flush()
        return
    from .props import c06  # noqa  (builders imported up front)
    for line in sys.stdin:
        line = line.strip()
        if not line:
            continue
        req = json.loads(line)
        r, w = os.pipe()
        pid = os.fork()
        if pid == 0:
            try:
                os.close(r)
                try:
                    out = {'outcome': evaluate_request(req)}
                except BaseException as e:
                    out = {'crash': '%s: %s' % (type(e).__name__, e)}
                os.write(w, (json.dumps(out) + '\n').encode('utf8'))
            finally:
                os._exit(0)
        os.close(w)
        chunks = []
        while True:
            c = os.read(r, 65536)
            if not c:
                break
            chunks.append(c)
        os.close(r)
        os.waitpid(pid, 0)
        sys.stdout.write(b''.join(chunks).decode('utf8') or (json.dumps({'crash': 'no output'}) + '\n'))
        sys.stdout.flush()


class ColdServer(object):
    def __init__(self, repo, hashseed='0'):
        # (hashseed: the reference interpreter's PYTHONHASHSEED; the checking process itself runs under 0)
        env = dict(os.environ)
        env['PYTHONHASHSEED'] = str(hashseed)
        env['PYTHONDONTWRITEBYTECODE'] = '1'
        env['PYTHONPATH'] = HERE + os.pathsep + env.get('PYTHONPATH', '')
        self.p = subprocess.Popen([sys.executable, '-B', '-m', 'vf.cold', repo], stdin=subprocess.PIPE,
                                  stdout=subprocess.PIPE, cwd=HERE, env=env)
        self.cache = {}

    def ask(self, req):
        key = json.dumps(req, sort_keys=True)
        if key in self.cache:
            return self.cache[key]
        self.p.stdin.write((key + '\n').encode('utf8'))
        self.p.stdin.flush()
        line = self.p.stdout.readline()
        if not line:
            raise RuntimeError('cold server died')
        resp = json.loads(line.decode('utf8'))
        self.cache[key] = resp
        return resp

    def close(self):
        try:
            self.p.stdin.close()
            self.p.wait(5)
        except Exception:
            self.p.kill()


if __name__ == '__main__':
    serve()
