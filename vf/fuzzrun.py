"""Coverage-guided campaigns (atheris / libFuzzer), thorough tier only.

Driver (subprocess):  python -B -m vf.fuzzrun <target> <runs> <seed> <outdir> [corpusdir]

Targets
  c19-spec-text   raw bytes -> spec text for the CLI's default spec format; oracle = execution canary +
                  ast.literal_eval differential (vf.props.c19.check_hostile)
  c01-path-text   raw bytes -> dotted path text over a small alphabet evaluated on a rich fixed target; oracle =
                  the C14 reference walker (plain segments, * and **)
  hyp:<mod>:<sub> any Hypothesis-generated sub-check driven through fuzz_one_input (coverage feedback on glom)

The oracle lives inside the target.  On the first mismatch the recipe is written to <outdir>/failure.json and
the process exits with status 3; statistics are written to <outdir>/stats.json every 500 executions.
"""
import os
import sys
import json

HERE = os.path.dirname(os.path.dirname(os.path.abspath(__file__)))


def main(argv):
    target, runs, seed, outdir = argv[0], int(argv[1]), int(argv[2]), argv[3]
    corpus = argv[4] if len(argv) > 4 else None
    sys.path.insert(0, HERE)
    from vf import boot
    ok, msg = boot.ensure_deps(need_atheris=True)
    if not ok:
        print('SKIP: atheris not installable: ' + msg[-200:])
        return 4
    import atheris
    if sys.path[0] != boot.REPO:
        sys.path.insert(0, boot.REPO)
    with atheris.instrument_imports(include=['glom']):      # glom must be imported for the first time in here
        import glom  # noqa
        import glom.core, glom.matching, glom.mutation, glom.cli, glom.streaming, glom.grouping, glom.reduction  # noqa
    if not os.path.abspath(glom.__file__).startswith(boot.REPO + os.sep):
        print('glom resolved to %s' % glom.__file__)
        return 2
    from vf import runner
    from vf import targets as tg
    stats = {'execs': 0, 'nontrivial': 0, 'labels': {}}
    ctx = runner.Ctx()
    seen = set()

    def flush():
        stats['nontrivial'] = len(seen)
        stats['labels'] = dict(ctx.labels)
        with open(os.path.join(outdir, 'stats.json.tmp'), 'w') as f:
            json.dump(stats, f)
        os.replace(os.path.join(outdir, 'stats.json.tmp'), os.path.join(outdir, 'stats.json'))

    def fail(recipe, kind, detail, sub):
        with open(os.path.join(outdir, 'failure.json'), 'w') as f:
            json.dump({'sub': sub, 'recipe': recipe, 'kind': kind, 'detail': str(detail)[:4000]}, f, default=repr)
        flush()
        os._exit(3)

    def run_case(sub_check, recipe, subname):
        stats['execs'] += 1
        ctx.begin()
        try:
            sub_check(recipe, ctx)
        except runner.Mismatch as mm:
            fail(recipe, mm.kind, mm.detail, subname)
        except runner.HarnessBug:
            return
        except RecursionError:
            return
        if ctx._nt:
            seen.add(runner.rhash(recipe))
        if stats['execs'] % 100 == 0:
            flush()

    if target == 'c19-spec-text':
        from vf.props import c19

        def one(data):
            text = data.decode('utf8', 'ignore')
            if not text or '\x00' in text or text.startswith('-') or len(text) > 200:
                return
            run_case(c19.check_hostile, {'text': text, 'via': 'argv', 'target': {'a': 'A', 'b': {'a': 1}}}, 'hostile')
    elif target == 'c01-path-text':
        from vf.props import c14
        alphabet = ['a', 'b', 'k', 'z', '0', '1', '-1', '*', '**', '', 'x y', '2']
        graph = ['rdict', [['a', ['rlist', [['rdict', [['k', ['i', 1]], ['a', ['ref', 0]]]], ['robj', [['a', ['i', 2]], ['k', ['s', 'xy']]]],
                                         ['tuple', [['i', 3], ['rlist', []]]]]]],
                           ['k', ['rdict', [['a', ['rdict', [['z', ['none']]]]], ['0', ['s', 'zero']]]]], ['b', ['set', [['i', 1], ['i', 2]]]],
                           ['z', ['edict', [['bad1', ['i', 7]], ['a', ['rdict', [['k', ['i', 8]]]]], ['k', ['i', 9]]]]]]]

        def one(data):
            segs = [alphabet[b % len(alphabet)] for b in data[:6]]
            if not segs or sum(1 for s_ in segs if s_ in ('*', '**')) > 3 or segs.count('**') > 2:
                return
            if not any(s_ in ('*', '**') for s_ in segs):
                segs = segs + ['*']
            run_case(c14.check_read, {'graph': graph, 'segs': segs}, 'read')
    elif target.startswith('hyp:'):
        import importlib
        from hypothesis import given, settings, strategies as st, HealthCheck
        _, modname, subname = target.split(':')
        mod = importlib.import_module('vf.props.' + modname)
        sub = [s_ for s_ in mod.SUBS if s_.name == subname][0]

        @settings(database=None, deadline=None, suppress_health_check=list(HealthCheck))
        @given(st.data())
        def test(data):
            recipe = sub.gen(data.draw)
            run_case(sub.check, recipe, subname)
        one = test.hypothesis.fuzz_one_input
    else:
        print('unknown target', target)
        return 2
    args = [sys.argv[0], '-runs=%d' % runs, '-seed=%d' % (seed or 1), '-max_len=256', '-artifact_prefix=' + outdir + '/',
            '-print_final_stats=0', '-verbosity=0']
    work = os.path.join(outdir, 'corpus')
    os.makedirs(work, exist_ok=True)
    args.append(work)
    if corpus and os.path.isdir(corpus):
        args.append(corpus)
    atheris.Setup(args, one)
    try:
        atheris.Fuzz()
    finally:
        flush()
    flush()
    return 0


def campaign(target, runs, seed, corpus=None):
    """run one campaign in a subprocess; returns (stats, failure|None, error|None)"""
    import shutil
    import tempfile
    import subprocess
    out = tempfile.mkdtemp(prefix='glomfuzz_')
    try:
        env = dict(os.environ)
        env['PYTHONPATH'] = HERE + os.pathsep + os.path.join(HERE, '.deps') + os.pathsep + env.get('PYTHONPATH', '')
        cmd = [sys.executable, '-B', '-m', 'vf.fuzzrun', target, str(runs), str(seed), out]
        if corpus:
            cmd.append(corpus)
        p = subprocess.run(cmd, cwd=HERE, env=env, stdout=subprocess.PIPE, stderr=subprocess.STDOUT, timeout=3600)
        stats, failure = {'execs': 0, 'nontrivial': 0, 'labels': {}}, None
        sp = os.path.join(out, 'stats.json')
        if os.path.exists(sp):
            stats = json.load(open(sp))
        fp = os.path.join(out, 'failure.json')
        if os.path.exists(fp):
            failure = json.load(open(fp))
        err = None
        if p.returncode == 4:
            err = 'skipped: atheris unavailable'
        elif p.returncode not in (0, 3) and failure is None:
            err = 'fuzz driver exited %d: %s' % (p.returncode, p.stdout.decode('utf8', 'replace')[-600:])
        return stats, failure, err
    finally:
        shutil.rmtree(out, ignore_errors=True)


def fuzz_sub(name, target, runs=20000, campaigns=4, corpus=None, replay_sub=None):
    """a thorough-tier Sub running `campaigns` atheris campaigns (half from the empty corpus, half from the seed corpus)"""
    from .runner import Sub
    from concurrent.futures import ThreadPoolExecutor

    def custom(seed):
        jobs = []
        for i in range(campaigns):
            use_corpus = corpus if (i % 2 == 1 and corpus) else None
            jobs.append((target, runs, (seed * 7919 + i * 104729) % (2 ** 31 - 1) or 1, use_corpus))
        with ThreadPoolExecutor(max_workers=campaigns) as ex:
            outs = list(ex.map(lambda j: campaign(*j), jobs))
        results = []
        for stats, failure, err in outs:
            export = {'evaluations': stats.get('execs', 0), 'labels': stats.get('labels', {}),
                      'nt': set(range(stats.get('nontrivial', 0))), 'samples': [], 'known': {}}
            fail = None
            sub_for_replay = replay_sub or name
            if failure:
                fail = (failure['recipe'], failure['kind'], failure['detail'])
                sub_for_replay = failure.get('sub') or sub_for_replay
            if err and err.startswith('skipped'):
                err = None
            results.append((export, fail, err, sub_for_replay))
        return results
    return Sub(name, None, custom=custom)


if __name__ == '__main__':
    rc = main(sys.argv[1:])
    sys.stdout.flush()
    os._exit(rc or 0)
