"""Target recipes: JSON-able descriptions of nested Python data, a builder, recording
containers and identity-preserving snapshots.  No glom imports here.

Recipe grammar (tagged lists):

    ["i", 3] ["s", "x"] ["f", 1.5] ["b", true] ["none"] ["bytes", "ab"]
    ["dict", [[key, R], ...]]  ["odict", ...]  ["rdict", ...]   (r* = recording subclass)
    ["list", [R, ...]]         ["rlist", ...]
    ["tuple", [R, ...]]        ["set", [R...]] ["fset", [R...]]
    ["obj", [[name, R], ...]]  ["robj", ...]   ["slots", [[name, R], ...]] (names from a,b,c)
    ["ref", n]      the n-th *mutable* container created so far (creation order; a container
                    is registered before its children are built, so back-edges make cycles)
Keys are plain JSON scalars (str / int / bool / null).
"""
import collections
from reprlib import recursive_repr

OrderedDict = collections.OrderedDict


class Obj(object):
    """attribute object with a stable, address-free repr"""
    def __init__(self, **kw):
        self.__dict__.update(kw)

    @recursive_repr()
    def __repr__(self):
        return 'Obj(%s)' % ', '.join('%s=%r' % kv for kv in sorted(self.__dict__.items()))

    def __eq__(self, other):
        return type(other) is type(self) and self.__dict__ == other.__dict__

    def __ne__(self, other):
        return not self == other

    __hash__ = None


class Slots(object):
    __slots__ = ('a', 'b', 'c')

    @recursive_repr()
    def __repr__(self):
        return 'Slots(%s)' % ', '.join('%s=%r' % (k, getattr(self, k)) for k in self.__slots__ if hasattr(self, k))


class BudgetExceeded(BaseException):
    """a traversal touched more elements than its budget allows (non-termination guard);
    a BaseException so that no `except Exception` inside the code under test swallows it"""


class SlotsChild(Slots):
    """subclass of a slot-only class (no instance __dict__, not iterable): glom's internal duck types never match it"""
    __slots__ = ()

    @recursive_repr()
    def __repr__(self):
        return 'SlotsChild(%s)' % ', '.join('%s=%r' % (k, getattr(self, k)) for k in Slots.__slots__ if hasattr(self, k))


class Log(list):
    """shared access log of the recording containers of one target"""
    budget = None

    def reset(self):
        del self[:]

    def append(self, item):
        list.append(self, item)
        if self.budget is not None and len(self) > self.budget:
            raise BudgetExceeded(len(self))


class RecDict(dict):
    # no instance __dict__ (see RecList)
    __slots__ = ('_log', '_nid')

    def _logit(self, *entry):
        log = getattr(self, '_log', None)
        if log is not None:
            log.append((getattr(self, '_nid', None),) + entry)

    def __getitem__(self, k):
        self._logit('getitem', k)
        return dict.__getitem__(self, k)

    def __setitem__(self, k, v):
        self._logit('setitem', k)
        return dict.__setitem__(self, k, v)

    def __delitem__(self, k):
        self._logit('delitem', k)
        return dict.__delitem__(self, k)

    __hash__ = None


class RecList(list):
    # no instance __dict__: glom's duck type for "object with attributes" must not capture it
    __slots__ = ('_log', '_nid')

    def _logit(self, *entry):
        log = getattr(self, '_log', None)
        if log is not None:
            log.append((getattr(self, '_nid', None),) + entry)

    def __getitem__(self, k):
        self._logit('getitem', k)
        return list.__getitem__(self, k)

    def __setitem__(self, k, v):
        self._logit('setitem', k)
        return list.__setitem__(self, k, v)

    def __delitem__(self, k):
        self._logit('delitem', k)
        return list.__delitem__(self, k)

    def __iter__(self):
        self._logit('iter')
        return list.__iter__(self)

    __hash__ = None


class RecObj(Obj):
    # the log lives in slots, not in the instance __dict__, so that the attribute namespace
    # seen by the code under test contains only the generated attributes
    __slots__ = ('_log', '_nid')      # (__dict__ is inherited from Obj)

    def __getattribute__(self, name):
        if not name.startswith('_'):
            try:
                log = object.__getattribute__(self, '_log')
            except AttributeError:
                log = None
            if log is not None:
                log.append((object.__getattribute__(self, '_nid'), 'getattr', name))
        return object.__getattribute__(self, name)

    def __setattr__(self, name, value):
        if not name.startswith('_'):
            log = getattr(self, '_log', None)
            if log is not None:
                log.append((self._nid, 'setattr', name))
        object.__setattr__(self, name, value)

    def __delattr__(self, name):
        if not name.startswith('_'):
            log = getattr(self, '_log', None)
            if log is not None:
                log.append((self._nid, 'delattr', name))
        object.__delattr__(self, name)

    @recursive_repr()
    def __repr__(self):
        return 'RecObj(%s)' % ', '.join('%s=%r' % kv for kv in sorted(self.__dict__.items()))


SCALAR_TAGS = ('i', 's', 'f', 'b', 'none', 'bytes')
MUTABLE_TAGS = ('dict', 'odict', 'rdict', 'list', 'rlist', 'obj', 'robj', 'slots')


class Built(object):
    """result of build(): the object, the list of mutable containers, the shared log"""
    def __init__(self):
        self.nodes = []
        self.log = Log()
        self.obj = None


def build(recipe):
    b = Built()
    b.obj = _build(recipe, b)
    return b


def _key(k):
    if isinstance(k, list):      # ["t", [...]] tuple key, ["fs", [...]] frozenset key
        if k[0] == 'fs':
            return frozenset(_key(x) for x in k[1])
        return tuple(_key(x) for x in k[1])
    return k


def _build(r, b):
    tag = r[0]
    if tag == 'i' or tag == 's' or tag == 'f' or tag == 'b':
        return r[1]
    if tag == 'none':
        return None
    if tag == 'bytes':
        return r[1].encode('latin1')
    if tag == 'ref':
        if not b.nodes:
            return None
        return b.nodes[r[1] % len(b.nodes)]
    if tag in ('dict', 'odict', 'rdict'):
        c = {'dict': dict, 'odict': OrderedDict, 'rdict': RecDict}[tag]()
        nid = len(b.nodes)
        b.nodes.append(c)
        # (an OrderedDict filled through dict.__setitem__ has the items but iterates as empty)
        setitem = OrderedDict.__setitem__ if tag == 'odict' else dict.__setitem__
        for k, v in r[1]:
            setitem(c, _key(k), _build(v, b))
        if tag == 'rdict':
            c._log, c._nid = b.log, nid
        return c
    if tag in ('list', 'rlist'):
        c = {'list': list, 'rlist': RecList}[tag]()
        nid = len(b.nodes)
        b.nodes.append(c)
        for v in r[1]:
            list.append(c, _build(v, b))
        if tag == 'rlist':
            c._log, c._nid = b.log, nid
        return c
    if tag in ('obj', 'robj'):
        c = {'obj': Obj, 'robj': RecObj}[tag]()
        nid = len(b.nodes)
        b.nodes.append(c)
        for k, v in r[1]:
            c.__dict__[k] = _build(v, b)
        if tag == 'robj':
            object.__setattr__(c, '_log', b.log)
            object.__setattr__(c, '_nid', nid)
        return c
    if tag in ('slots', 'slotsc'):
        c = Slots() if tag == 'slots' else SlotsChild()
        b.nodes.append(c)
        for k, v in r[1]:
            setattr(c, k, _build(v, b))
        return c
    if tag == 'tuple':
        return tuple(_build(v, b) for v in r[1])
    if tag == 'set':
        return set(_hashable(_build(v, b)) for v in r[1])
    if tag == 'fset':
        return frozenset(_hashable(_build(v, b)) for v in r[1])
    raise ValueError('bad target recipe tag %r' % (tag,))


def _hashable(v):
    try:
        hash(v)
        return v
    except TypeError:
        return repr(v)


# ---------------------------------------------------------------------------
# identity-preserving snapshots

_ATOM = (int, float, str, bytes, bool, type(None), complex)


def children(v):
    """ordered (label, child) pairs of a plain container; [] for atoms"""
    if isinstance(v, dict):
        return [(('k', _lbl(k)), c) for k, c in dict.items(v)]
    if isinstance(v, (list, tuple)):
        return [(('i', i), c) for i, c in enumerate(list.__iter__(v) if isinstance(v, list) else tuple.__iter__(v))]
    if isinstance(v, (set, frozenset)):
        return [(('m', _lbl(c)), c) for c in sorted(v, key=repr)]
    if isinstance(v, Slots):
        return [(('a', k), getattr(v, k)) for k in Slots.__slots__ if hasattr(v, k)]
    d = getattr(v, '__dict__', None)
    if isinstance(d, dict) and not isinstance(v, type) and not callable(v):
        return [(('a', k), c) for k, c in d.items() if not (isinstance(k, str) and k.startswith('_'))]
    return []


def _lbl(k):
    return repr(k)


def snapshot(root, extra_roots=()):
    """graph snapshot: {id: (typename, atom-repr | [(label, child_id), ...])} plus root id(s).
    Two snapshots are equal iff the reachable graph has the same shape, the same contents
    and every node is the *same object* (identity) as before."""
    seen = {}
    stack = [root] + list(extra_roots)
    while stack:
        v = stack.pop()
        if id(v) in seen:
            continue
        if isinstance(v, _ATOM):
            seen[id(v)] = (type(v).__name__, repr(v))
            continue
        ch = children(v)
        if not ch and not isinstance(v, (dict, list, tuple, set, frozenset, Obj, Slots)):
            seen[id(v)] = (type(v).__name__, '<opaque>')
            continue
        seen[id(v)] = (type(v).__name__, [(lab, id(c)) for lab, c in ch])
        for _, c in ch:
            stack.append(c)
    return (id(root), seen)


def snapshot_diff(a, b):
    """human-readable first difference between two snapshots, or None"""
    if a[0] != b[0]:
        return 'root identity changed'
    sa, sb = a[1], b[1]
    for i in sa:
        if i not in sb:
            return 'object %s %r no longer reachable' % sa[i]
        if sa[i] != sb[i]:
            return 'object changed: %r -> %r' % (sa[i], sb[i])
    for i in sb:
        if i not in sa:
            return 'new object reachable: %r' % (sb[i],)
    return None


def structure(v, _seen=None):
    """identity-free canonical structure (types + values + sharing pattern), for comparing
    an original with an independently built copy"""
    if _seen is None:
        _seen = {}
    if isinstance(v, _ATOM):
        return (type(v).__name__, repr(v))
    if id(v) in _seen:
        return ('backref', _seen[id(v)])
    _seen[id(v)] = len(_seen)
    ch = children(v)
    if not ch and not isinstance(v, (dict, list, tuple, set, frozenset, Obj, Slots)):
        return (type(v).__name__, repr(v))
    return (type(v).__name__, [(lab, structure(c, _seen)) for lab, c in ch])


def same(a, b):
    """'the very object': identity, except for immutable atoms (and bound methods),
    for which Python itself gives no identity guarantee"""
    if a is b:
        return True
    if type(a) is type(b) and isinstance(a, _ATOM):
        return a == b or (a != a and b != b)
    if type(a) is type(b) and type(a).__name__ in ('builtin_function_or_method', 'method', 'method-wrapper'):
        return a == b
    return False


# ---------------------------------------------------------------------------
# Hypothesis strategy for target recipes

def target_recipes(draw, depth=3, width=3, recording=True, shared=True, keys=None,
                   attr_names=None, extra_atoms=()):
    """draw a target recipe by construction (no filtering)"""
    from hypothesis import strategies as st
    keys = keys or ['a', 'b', 'c', '', '0', '1', '-1', ' 1 ', 'k.d', 0, 1, 2]
    attr_names = attr_names or ['a', 'b', 'c', 'x']
    count = [0]

    def atom():
        k = draw(st.integers(0, 7 + len(extra_atoms)))
        if k == 0:
            return ['i', draw(st.integers(-3, 1000))]
        if k == 1:
            return ['s', draw(st.sampled_from(['', 'x', 'abc', '0', 'hé', 'a.b']))]
        if k == 2:
            return ['none']
        if k == 3:
            return ['f', draw(st.sampled_from([0.0, 1.5, -2.25]))]
        if k == 4:
            return ['b', draw(st.booleans())]
        if k == 5:
            return ['tuple', []]
        if k == 6:
            count[0] += 1
            return ['list', []]
        if k == 7:
            count[0] += 1
            return ['dict', []]
        return extra_atoms[k - 8]

    def node(d):
        if d <= 0 or draw(st.integers(0, 9)) < 2:
            return atom()
        if shared and count[0] and draw(st.integers(0, 9)) == 0:
            return ['ref', draw(st.integers(0, count[0] - 1))]
        kind = draw(st.sampled_from(['dict', 'dict', 'list', 'list', 'tuple', 'obj', 'odict']))
        n = draw(st.integers(0, width))
        if kind in ('dict', 'odict'):
            count[0] += 1
            tag = kind
            if recording and kind == 'dict' and draw(st.booleans()):
                tag = 'rdict'
            ks = draw(st.lists(st.sampled_from(keys), min_size=n, max_size=n, unique_by=repr))
            return [tag, [[k, node(d - 1)] for k in ks]]
        if kind == 'list':
            count[0] += 1
            tag = 'rlist' if (recording and draw(st.booleans())) else 'list'
            return [tag, [node(d - 1) for _ in range(n)]]
        if kind == 'tuple':
            return ['tuple', [node(d - 1) for _ in range(n)]]
        count[0] += 1
        tag = 'robj' if (recording and draw(st.booleans())) else 'obj'
        ks = draw(st.lists(st.sampled_from(attr_names), min_size=n, max_size=n, unique=True))
        return [tag, [[k, node(d - 1)] for k in ks]]

    return node(depth)
