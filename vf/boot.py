"""Process bootstrap: interpreter pinning, repo import pinning, dependency bootstrap.

Imported first by ./check.  Nothing here touches glom's behaviour.
"""
import os
import sys
import subprocess

VERIF = os.path.dirname(os.path.dirname(os.path.abspath(__file__)))
REPO = os.path.abspath(os.environ.get('VERIF_REPO', '/repo'))
DEPS = os.path.join(VERIF, '.deps')
WHEELS = '/opt/veriftools/wheels'
GUARD = 'MAHMOUD_GLOM_VERIF'


def harness_error(msg):
    sys.stdout.flush()
    sys.stderr.write('HARNESS-ERROR: %s\n' % msg)
    sys.stderr.flush()
    os._exit(2)


def ensure_env(argv):
    """Re-exec once so that hash randomisation is off and no bytecode is written."""
    if os.environ.get('PYTHONHASHSEED') != '0' or os.environ.get('PYTHONDONTWRITEBYTECODE') != '1':
        env = dict(os.environ)
        env['PYTHONHASHSEED'] = '0'
        env['PYTHONDONTWRITEBYTECODE'] = '1'
        env[GUARD] = '1'
        os.execve(sys.executable, [sys.executable, '-B'] + argv, env)


def ensure_deps(need_atheris=False):
    """hypothesis (and optionally atheris) importable; installed offline into .deps if absent."""
    if os.path.isdir(DEPS) and DEPS not in sys.path:
        sys.path.insert(1, DEPS)
    missing = []
    try:
        import hypothesis  # noqa
    except ImportError:
        missing.append('hypothesis')
    if need_atheris:
        try:
            import atheris  # noqa
        except ImportError:
            missing.append('atheris')
    if missing:
        os.makedirs(DEPS, exist_ok=True)
        cmd = [sys.executable, '-m', 'pip', 'install', '-q', '--no-index', '--find-links', WHEELS,
               '--target', DEPS] + missing
        r = subprocess.run(cmd, stdout=subprocess.PIPE, stderr=subprocess.STDOUT)
        if r.returncode != 0:
            return False, r.stdout.decode('utf8', 'replace')
        if DEPS not in sys.path:
            sys.path.insert(1, DEPS)
        import importlib
        importlib.invalidate_caches()
    return True, ''


def install_debug_signal():
    """kill -USR1 <pid> dumps the Python stacks of a (possibly stuck) check process to stderr"""
    try:
        import faulthandler, signal
        faulthandler.register(signal.SIGUSR1, all_threads=True)
    except Exception:
        pass


def pin_repo():
    """Make `import glom` resolve to the working tree under REPO and nothing else."""
    if sys.path[0] != REPO:
        sys.path.insert(0, REPO)
    for name in list(sys.modules):
        if name == 'glom' or name.startswith('glom.'):
            harness_error('glom imported before pin_repo()')
    import glom
    f = os.path.abspath(glom.__file__)
    if not f.startswith(REPO + os.sep):
        harness_error('glom resolved to %s, not under %s' % (f, REPO))
    return glom
