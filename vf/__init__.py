"""Verification framework for mahmoud/glom (property-based testing and fuzzing)."""
