"""Runner: tiers, sharding, shrinking budget, buckets, known findings, evidence, exit codes.

A property module (vf/props/cNN.py) exposes

    PROPERTY = 'C01'
    RULE = '...how cases are generated and what makes one non-trivial...'
    ASSUMPTIONS = [...]
    SUBS = [Sub(...), ...]
    CLASSIFIERS = {name: fn(recipe, mismatch) -> bool}      (optional, for known findings)

A Sub has a generator `gen(draw) -> recipe` (recipe = JSON-able data that fully
describes the case) *or* an enumerator `enum(tier) -> iterable of recipes`
(finite sub-domain, enumerated completely), and `check(recipe, ctx)`, a pure
function of the recipe and the code under test which raises Mismatch on a
violation.  A replay file is {property, sub, recipe}; replay = check(recipe).
"""
import os
import sys
import json
import time
import hashlib
import traceback
import collections
import multiprocessing

from . import boot

EXIT_OK, EXIT_VIOLATION, EXIT_HARNESS = 0, 1, 2
N_PROC = 16
QUICK_PROCS = 8


class Mismatch(Exception):
    """The code under test disagrees with the oracle."""
    def __init__(self, kind, detail=''):
        Exception.__init__(self, kind, detail)
        self.kind = kind
        self.detail = detail

    def __str__(self):
        return '%s: %s' % (self.kind, self.detail)


class HarnessBug(Exception):
    """Raised by checks for conditions that mean the harness (not glom) is wrong."""


class Sub(object):
    def __init__(self, name, check, gen=None, enum=None, quick=1000, thorough=10000,
                 floors=None, shards=N_PROC, doc='', min_nt=0, custom=None):
        self.custom = custom          # callable(seed) -> [(export, fail, err), ...]; thorough tier only
        self.name = name
        self.check = check
        self.gen = gen
        self.enum = enum
        self.quick = quick
        self.thorough = thorough      # cases per shard
        self.floors = floors or {}
        self.shards = shards
        self.doc = doc
        self.min_nt = min_nt


def rhash(recipe):
    s = json.dumps(recipe, sort_keys=True, default=repr)
    return hashlib.md5(s.encode('utf8')).hexdigest()[:16]


def derive_seed(seed, *parts):
    s = ':'.join([str(seed)] + [str(p) for p in parts])
    return int(hashlib.md5(s.encode('utf8')).hexdigest()[:8], 16)


class Ctx(object):
    """Per-run statistics.  Everything here is measured, nothing is constant."""
    MAX_SAMPLES = 4

    def __init__(self):
        self.evaluations = 0
        self.labels = collections.Counter()
        self.nt_hashes = set()
        self.samples = []
        self.known_hits = collections.Counter()
        self._nt = False
        self._outcome = None

    # -- called by check functions
    def label(self, *names):
        for n in names:
            self.labels[n] += 1

    def nontrivial(self, flag=True):
        self._nt = self._nt or bool(flag)

    def outcome(self, o):
        self._outcome = o

    # -- called by the runner
    def begin(self):
        self._nt = False
        self._outcome = None

    def end(self, recipe):
        self.evaluations += 1
        if self._nt:
            h = rhash(recipe)
            if h not in self.nt_hashes:
                self.nt_hashes.add(h)
                if len(self.samples) < self.MAX_SAMPLES:
                    self.samples.append({'recipe': recipe, 'outcome': _short(self._outcome)})

    def export(self):
        return {'evaluations': self.evaluations, 'labels': dict(self.labels),
                'nt': self.nt_hashes, 'samples': self.samples, 'known': dict(self.known_hits)}


def _short(o, n=400):
    try:
        s = json.dumps(o, default=repr)
    except Exception:
        s = repr(o)
    if len(s) > n:
        return s[:n] + '...'
    try:
        return json.loads(s)
    except Exception:
        return s


def load_known(pid):
    path = os.path.join(boot.VERIF, 'known_findings.json')
    if not os.path.exists(path):
        return []
    with open(path) as f:
        data = json.load(f)
    return [e for e in data.get('findings', []) if e.get('property') == pid]


def _classify(mod, known_entries, sub, recipe, mm):
    """Return the key of the known finding this mismatch belongs to, else None."""
    classifiers = getattr(mod, 'CLASSIFIERS', {})
    for e in known_entries:
        if e.get('status') != 'known':
            continue
        if e.get('sub') not in (None, sub.name):
            continue
        fn = classifiers.get(e.get('classifier'))
        if fn is None:
            continue
        try:
            if fn(recipe, mm):
                return e['key']
        except Exception:
            continue
    return None


def guarded_check(sub, recipe, ctx):
    """Run sub.check; anything unexpected coming out of it is reported as a mismatch
    (the check functions catch every exception class glom is allowed to raise)."""
    ctx.begin()
    try:
        sub.check(recipe, ctx)
    except Mismatch:
        raise
    except HarnessBug:
        raise
    except RecursionError as e:
        raise Mismatch('unexpected-exception', 'RecursionError in check: %s' % (e,))
    except Exception as e:
        tb = traceback.format_exc().splitlines()
        raise Mismatch('unexpected-exception', '%s: %s | %s' % (type(e).__name__, e, ' / '.join(tb[-6:])))
    ctx.end(recipe)


def run_generated(mod, sub, n, seed, tier, excluded, known_entries, shrink_budget):
    """One Hypothesis campaign.  Returns (ctx, failure|None, error|None)."""
    import hypothesis
    from hypothesis import given, settings, strategies as st, HealthCheck, Phase
    ctx = Ctx()
    state = {'fail': None, 'after': 0}

    def body(data):
        if state['fail'] is not None:
            state['after'] += 1
            if state['after'] > shrink_budget:
                return          # shrink budget used up: let Hypothesis wind down
        recipe = sub.gen(data.draw)
        try:
            guarded_check(sub, recipe, ctx)
        except Mismatch as mm:
            key = _classify(mod, known_entries, sub, recipe, mm)
            if key is not None:
                ctx.known_hits[key] += 1
                return
            if mm.kind in excluded:
                return
            state['fail'] = (recipe, mm.kind, mm.detail)
            raise

    test = given(st.data())(body)
    test = settings(max_examples=n, database=None, deadline=None, derandomize=False,
                    report_multiple_bugs=False, print_blob=False,
                    suppress_health_check=list(HealthCheck),
                    phases=[Phase.generate, Phase.shrink])(test)
    test = hypothesis.seed(seed)(test)
    err = None
    try:
        test()
    except HarnessBug as e:
        err = 'HarnessBug: %s' % (e,)
    except BaseException as e:
        if isinstance(e, KeyboardInterrupt):
            raise
        if state['fail'] is None:
            err = ''.join(traceback.format_exception(type(e), e, e.__traceback__))[-3000:]
    return ctx, state['fail'], err


def run_enumerated(mod, sub, recipes, excluded, known_entries):
    ctx = Ctx()
    fail = None
    for recipe in recipes:
        try:
            guarded_check(sub, recipe, ctx)
        except Mismatch as mm:
            key = _classify(mod, known_entries, sub, recipe, mm)
            if key is not None:
                ctx.known_hits[key] += 1
                continue
            if mm.kind in excluded:
                continue
            if fail is None or len(json.dumps(recipe, default=repr)) < len(json.dumps(fail[0], default=repr)):
                fail = (recipe, mm.kind, mm.detail)
        except HarnessBug as e:
            return ctx, fail, 'HarnessBug: %s' % (e,)
    return ctx, fail, None


CURRENT_TIER = ['quick']      # generators may consult this for tier-dependent size bounds


def thorough():
    return CURRENT_TIER[0] == 'thorough'


def _shard_entry(args):
    modname, subname, n, seed, tier, excluded, shard, nshards, shrink_budget = args
    CURRENT_TIER[0] = tier
    cov = _cov_start() if os.environ.get('VERIF_COV') else None
    try:
        import importlib
        mod = importlib.import_module(modname)
        sub = [s for s in mod.SUBS if s.name == subname][0]
        known_entries = load_known(mod.PROPERTY)
        if sub.enum is not None:
            recipes = [r for i, r in enumerate(sub.enum(tier)) if i % nshards == shard]
            ctx, fail, err = run_enumerated(mod, sub, recipes, excluded, known_entries)
        else:
            ctx, fail, err = run_generated(mod, sub, n, seed, tier, excluded, known_entries, shrink_budget)
        return ctx.export(), fail, err
    except BaseException as e:
        return Ctx().export(), None, 'shard crashed: ' + ''.join(
            traceback.format_exception(type(e), e, e.__traceback__))[-3000:]
    finally:
        if cov is not None:
            _cov_dump(cov, '%s-%s-%d' % (modname.split('.')[-1], subname, shard))


def _cov_start():
    """developer aid (VERIF_COV=<dir>): which lines of glom does a check execute?  sys.monitoring, lines reported once"""
    mon = sys.monitoring
    hits = set()
    root = os.path.join(boot.REPO, 'glom') + os.sep

    def on_line(code, line):
        if code.co_filename.startswith(root) and os.sep + 'test' + os.sep not in code.co_filename:
            hits.add((code.co_filename[len(root):], line))
        return mon.DISABLE
    try:
        mon.use_tool_id(3, 'verifcov')
    except ValueError:
        pass
    mon.register_callback(3, mon.events.LINE, on_line)
    mon.set_events(3, mon.events.LINE)
    return hits


def _cov_dump(hits, tag):
    d = os.environ['VERIF_COV']
    os.makedirs(d, exist_ok=True)
    with open(os.path.join(d, tag + '.json'), 'w') as f:
        json.dump(sorted(hits), f)


def _merge(exports):
    tot = {'evaluations': 0, 'labels': collections.Counter(), 'nt': set(), 'samples': [],
           'known': collections.Counter()}
    for e in exports:
        tot['evaluations'] += e['evaluations']
        tot['labels'].update(e['labels'])
        tot['nt'] |= e['nt']
        for s in e['samples']:
            if len(tot['samples']) < Ctx.MAX_SAMPLES:
                tot['samples'].append(s)
        tot['known'].update(e['known'])
    return tot


def write_replay(pid, subname, recipe, kind, detail, seed):
    d = os.path.join(boot.VERIF, 'out', 'replays')
    os.makedirs(d, exist_ok=True)
    safe = ''.join(c if c.isalnum() or c in '-_' else '_' for c in kind)[:40]
    path = os.path.join(d, '%s-%s-%s-%s.json' % (pid, subname, safe, seed))
    with open(path, 'w') as f:
        json.dump({'property': pid, 'sub': subname, 'recipe': recipe, 'kind': kind,
                   'detail': str(detail)[:4000]}, f, indent=1, default=repr)
        f.write('\n')
    return path


def replay_file(mod, path, known_entries=None):
    """Returns None if the recorded case passes, else (kind, detail, knownkey)."""
    with open(path) as f:
        rec = json.load(f)
    subs = [s for s in mod.SUBS if s.name == rec['sub']]
    if not subs:
        raise HarnessBug('replay %s names unknown sub %r' % (path, rec['sub']))
    sub = subs[0]
    ctx = Ctx()
    try:
        guarded_check(sub, rec['recipe'], ctx)
    except Mismatch as mm:
        key = _classify(mod, known_entries or [], sub, rec['recipe'], mm)
        return (mm.kind, mm.detail, key)
    return None



def floor_count(floor, n):
    """the number of cases of a class below which a run counts as STARVED (harness error, exit 2).
    A floor is declared at about half of the share the class has when the generator works.  The share of a class
    varies from seed to seed much more than binomial noise would (Hypothesis mutates and re-uses examples, so the
    cases of a run are correlated; measured at seeds 1-7: up to a factor 2.5 for classes of a few dozen cases), and a
    check that fails on the unchanged tree because of that is worse than none.  The run therefore counts a class as
    starved when it has less than HALF the declared floor (about a quarter of its healthy share), for classes with a
    declared floor of fewer than 20 cases per run when it has less than a quarter of it; floors of fewer than 12 cases
    per run are advisory (recorded in the evidence, never an error).  A generator that lost a class with a real floor
    produces none, or next to none, and is still caught."""
    want = floor * n
    if want < 12:
        # (advisory only: a class this small - a per-operator or per-container split of a larger class that has a
        # floor of its own - was seen with NO case at all at one seed in thirteen although it usually has twenty)
        return 0.0
    if want < 20:
        return 0.25 * want
    return 0.5 * want



def run_property(mod, tier, seed, only_sub=None):
    t0 = time.time()
    pid = mod.PROPERTY
    known_entries = load_known(pid)
    violations = []      # (sub, kind, path)
    harness_errors = []
    per_sub = {}
    known_lines = []

    # 0. known findings: re-run each recorded example, report those that still fail
    for e in known_entries:
        if e.get('status') != 'known' or 'example' not in e:
            continue
        subs = [s for s in mod.SUBS if s.name == e.get('sub')]
        if not subs:
            harness_errors.append('known finding %s names unknown sub' % e['key'])
            continue
        ctx = Ctx()
        try:
            guarded_check(subs[0], e['example'], ctx)
        except Mismatch as mm:
            if _classify(mod, known_entries, subs[0], e['example'], mm) == e['key']:
                known_lines.append('KNOWN-FINDING: property=%s %s [%s]' % (pid, e['what'], e['key']))
            else:
                p = write_replay(pid, subs[0].name, e['example'], mm.kind, mm.detail, seed)
                violations.append((subs[0].name, mm.kind, p, mm.detail))
    for line in known_lines:
        print(line)

    # 1. replay tier: committed counter-examples (regressions), bypassing Hypothesis
    rdir = os.path.join(boot.VERIF, 'replays')
    n_replayed = 0
    if os.path.isdir(rdir):
        for fn in sorted(os.listdir(rdir)):
            if not (fn.startswith(pid + '-') and fn.endswith('.json')):
                continue
            path = os.path.join(rdir, fn)
            n_replayed += 1
            try:
                res = replay_file(mod, path, known_entries)
            except HarnessBug as e:
                harness_errors.append(str(e))
                continue
            if res is not None and res[2] is None:
                violations.append(('replay', res[0], path, res[1]))

    # 2. generated / enumerated search
    pool = multiprocessing.get_context('fork').Pool(N_PROC if tier == 'thorough' else QUICK_PROCS)
    try:
        for sub in mod.SUBS:
            if only_sub and sub.name != only_sub:
                continue
            if sub.custom is not None:
                if tier != 'thorough':
                    continue
                results = sub.custom(seed)
                merged = _merge([r[0] for r in results])
                for r in results:
                    if r[2]:
                        harness_errors.append('%s: %s' % (sub.name, r[2]))
                    if r[1]:
                        recipe, kind, detail = r[1]
                        p_ = write_replay(pid, r[3] if len(r) > 3 else sub.name, recipe, kind, detail, seed)
                        violations.append((sub.name, kind, p_, detail))
                per_sub[sub.name] = merged
                per_sub[sub.name]['exhaustive'] = False
                continue
            excluded = []
            merged_all = []
            for rnd in range(4):       # collect-then-shrink, one bucket per round
                if tier == 'thorough':
                    nshards = sub.shards
                    n = sub.thorough
                else:
                    nshards = min(QUICK_PROCS, sub.shards)
                    n = max(1, sub.quick // nshards)     # sub.quick = total cases of the quick tier
                jobs = [(mod.__name__, sub.name, n, derive_seed(seed, pid, sub.name, sh, rnd), tier,
                         list(excluded), sh, nshards, 400 if tier == 'quick' else 1500)
                        for sh in range(nshards)]
                if pool is not None and nshards > 1:
                    results = pool.map(_shard_entry, jobs, chunksize=1)
                else:
                    results = [_shard_entry(j) for j in jobs]
                merged = _merge([r[0] for r in results])
                merged_all.append(merged)
                errs = [r[2] for r in results if r[2]]
                fails = [r[1] for r in results if r[1]]
                if errs:
                    harness_errors.append('%s: %s' % (sub.name, errs[0]))
                if not fails:
                    break
                # smallest failing recipe of the first bucket
                fails.sort(key=lambda f: len(json.dumps(f[0], default=repr)))
                recipe, kind, detail = fails[0]
                p = write_replay(pid, sub.name, recipe, kind, detail, seed)
                violations.append((sub.name, kind, p, detail))
                excluded.append(kind)
            per_sub[sub.name] = merged_all[0] if len(merged_all) == 1 else _merge(merged_all)
            per_sub[sub.name]['exhaustive'] = sub.enum is not None
    finally:
        if pool is not None:
            pool.close()
            pool.join()

    # 3. distribution floors (only meaningful when nothing failed)
    if not violations:
        for sub in mod.SUBS:
            m = per_sub.get(sub.name)
            if sub.custom is not None and m is not None and not m['evaluations']:
                continue
            if not m or not m['evaluations']:
                if m is not None:
                    harness_errors.append('%s: no cases evaluated' % sub.name)
                continue
            for lab, floor in sub.floors.items():
                count, n = m['labels'].get(lab, 0), m['evaluations']
                if count < floor_count(floor, n):
                    harness_errors.append('%s: class %r is %.3f of cases (%d of %d), floor %.3f'
                                          % (sub.name, lab, count / float(n), count, n, floor))

    wall = time.time() - t0
    write_evidence(mod, tier, seed, per_sub, violations, known_lines, n_replayed, wall, harness_errors)

    for subname, kind, path, detail in violations:
        print('VIOLATION property=%s replay=%s' % (pid, path))
        print('  sub=%s kind=%s detail=%s' % (subname, kind, str(detail)[:600].replace('\n', ' | ')))
    tot = sum(m['evaluations'] for m in per_sub.values())
    nt = sum(len(m['nt']) for m in per_sub.values())
    print('%s %s seed=%s: %d cases, %d distinct non-trivial, %d replays, %d known-finding hits, '
          '%d violations, %.1fs' % (pid, tier, seed, tot, nt, n_replayed,
                                   sum(sum(m['known'].values()) for m in per_sub.values()),
                                   len(violations), wall))
    if violations:
        return EXIT_VIOLATION
    if harness_errors:
        for h in harness_errors:
            sys.stderr.write('HARNESS-ERROR: %s\n' % h)
        return EXIT_HARNESS
    return EXIT_OK


def write_evidence(mod, tier, seed, per_sub, violations, known_lines, n_replayed, wall, harness_errors):
    pid = mod.PROPERTY
    evaluations = sum(m['evaluations'] for m in per_sub.values())
    nt = sum(len(m['nt']) for m in per_sub.values())
    samples = []
    for name, m in per_sub.items():
        for s in m['samples'][:2]:
            samples.append({'sub': name, 'recipe': s['recipe'], 'outcome': s['outcome']})
    subs = {}
    for name, m in per_sub.items():
        subs[name] = {
            'evaluations': m['evaluations'],
            'distinct_nontrivial': len(m['nt']),
            'classes': dict(sorted(m['labels'].items())),
            'known_finding_hits': dict(m['known']),
            'exhaustive': bool(m.get('exhaustive')),
        }
    ev = {
        'property_id': pid,
        'tier': tier,
        'seed': int(seed),
        'level': 'exploration',
        'coverage': {
            'evaluations': evaluations,
            'distinct_nontrivial': nt,
            'rule': mod.RULE,
            'samples': samples,
            'exhaustive': False,
            'sub_checks': subs,
            'exhaustive_sub_domains': sorted(n for n, m in per_sub.items() if m.get('exhaustive')),
            'replays_run': n_replayed,
            'known_findings_reported': known_lines,
            'harness_errors': harness_errors,
            'bounds': getattr(mod, 'BOUNDS', {}).get(tier, getattr(mod, 'BOUNDS', {})),
        },
        'assumptions': list(getattr(mod, 'ASSUMPTIONS', [])),
        'wall_s': round(wall, 2),
        'violations': len(violations),
    }
    # evidence/ describes runs against /repo; a run against another tree (VERIF_REPO=<scratch copy with a seeded change>)
    # writes its evidence under out/ so that it can never be mistaken for it
    d = os.path.join(boot.VERIF, 'evidence') if boot.REPO == '/repo' else os.path.join(boot.VERIF, 'out', 'evidence-other-tree')
    ev['repo'] = boot.REPO
    os.makedirs(d, exist_ok=True)
    tmp = os.path.join(d, '.%s.json.tmp' % pid)
    with open(tmp, 'w') as f:
        json.dump(ev, f, indent=1, default=repr)
        f.write('\n')
    os.replace(tmp, os.path.join(d, '%s.json' % pid))
