"""C03 — Auto-mode restructuring is compositional in its sub-specs.

Generator: spec recipes over {dotted path, T expression, dict / OrderedDict spec (string keys and
T / Spec keys), [sub], tuple, Pipe, named probe callables, Val, Spec, Coalesce (+default,
default_factory, skip value / tuple / predicate, skip_exc), Call, Invoke (constants / specs /
star), Ref (recursive)}, generated type-directed against the target by evaluating the reference on
the prefix; every probe position yields SKIP, STOP or an error with small probability.

Mode wrappers (Fill / Auto) appear as specs at every position, and - constructed - directly as a step of a
tuple / Pipe / Fill(Pipe(...)) with a result of SKIP (mostly), STOP or a value, followed by steps whose reading depends
on the mode (string path, dict of paths, list, nested chain; in a fill-mode Pipe: a string that would be a path).  The
result of such a step is a result like any other; what follows is read in the mode of the chain (ref_chain, ref_fill).

Oracle: refauto() - a direct recursive interpreter of the recipe (no scopes, no modes) that returns
the value and the expected probe call log; plus metamorphic checks (tuple composition,
Pipe == tuple, Spec(x) == x, a chain without a step whose result is SKIP gives the same result).
"""
import collections

import os

from hypothesis import strategies as st

import glom
from glom import (T, Spec, Val, Coalesce, Call, Invoke, Ref, Pipe, SKIP, STOP, GlomError, PathAccessError,
                  CoalesceError, Path, Fill, Auto)

from .. import fuzzrun
from ..runner import Sub, Mismatch, HarnessBug
from .. import runner as runner_mod
from .. import targets as tg

PROPERTY = 'C03'
RULE = ('spec trees of depth <= 4 / width <= 3 over the auto-mode constructs, generated against the value each sub-spec will '
        'receive (reference evaluation of the prefix) so that most sub-specs succeed; probes produce SKIP / STOP / errors at '
        'every position of dicts, lists, tuples, Pipes and Coalesce alternatives; Fill / Auto wrappers as specs, constructed '
        'as direct chain steps that yield SKIP / STOP / a value before mode-sensitive steps. '
        'Non-trivial = depth >= 2 with >= 2 construct kinds, or a SKIP/STOP occurred, or Coalesce passed over >= 1 alternative.')
ASSUMPTIONS = [
    'reference interpreter refauto() in this module; glom is only used for sentinels and exception classes',
    'order of key vs value evaluation in a dict spec with a T/Spec key is not asserted (only the order among values)',
    'targets are JSON-like trees with attribute objects; probes are total unless scripted to fail',
]


class Probe(object):
    """named callable with a scripted behaviour and a call log"""
    def __init__(self, ident, behaviour, log):
        self.ident, self.behaviour, self.log = ident, behaviour, log
        self.__name__ = 'p%d' % ident

    def __call__(self, target):
        self.log.append((self.ident, repr(target)))
        return behave(self.behaviour, target)

    def __repr__(self):
        return 'p%d' % self.ident


class ProbeError(ValueError):
    pass


def behave(b, target):
    kind = b[0]
    if kind == 'id':
        return target
    if kind == 'wrap':
        return ['w', target]
    if kind == 'const':
        return tg.build(b[1]).obj
    if kind == 'skip':
        return SKIP
    if kind == 'stop':
        return STOP
    if kind == 'glomerror':
        raise GlomError('probe refuses')
    if kind == 'valueerror':
        raise ProbeError('probe fails')
    if kind == 'len':
        return len(target)
    if kind == 'none':
        return None
    raise ValueError(b)


def collect(*a, **kw):
    return ['collected', list(a), sorted(kw.items())]


FUNCS = {'collect': collect}


# ---------------------------------------------------------------------------
# reference interpreter

class Unspecified(Exception):
    """the reference met an input for which the documentation promises nothing: the case asserts nothing"""


class RefErr(Exception):
    """the evaluation fails; cls is the exception class glom must raise"""
    def __init__(self, cls, why=''):
        Exception.__init__(self, cls, why)
        self.cls, self.why = cls, why


ACCESS = (KeyError, IndexError, AttributeError, TypeError, ValueError)


def ref_path(target, text):
    cur = target
    for seg in text.split('.'):
        try:
            if isinstance(cur, dict):
                cur = cur[seg]
            elif isinstance(cur, (list, tuple)):
                cur = cur[int(seg)]
            else:
                cur = getattr(cur, seg)
        except ACCESS:
            raise RefErr(PathAccessError, 'path %r' % text)
    return cur


def ref_t(target, steps):
    cur = target
    for op, seg in steps:
        try:
            cur = cur[seg] if op == '[' else getattr(cur, seg)
        except ACCESS:
            raise RefErr(PathAccessError, 'T step %r' % (seg,))
    return cur


def iterate(target):
    if isinstance(target, (str, bytes)) or not hasattr(target, '__iter__'):
        raise RefErr(GlomError, 'not iterable')
    return iter(target)


SKIP_EXC = {'GlomError': GlomError, 'PathAccessError': PathAccessError, 'ValueError': ValueError,
            'both': (GlomError, ValueError), 'none': ()}


def skip_func(sk):
    if sk is None:
        return lambda v: False
    if sk[0] == 'value':
        val = tg.build(sk[1]).obj
        return lambda v: v == val
    if sk[0] == 'tuple':
        vals = tuple(tg.build(x).obj for x in sk[1])
        return lambda v: v in vals
    return lambda v: v is None or v == ''       # predicate 'falsy_none'


def falsy_none(v):
    return v is None or v == ''


def lit(x):
    """a literal recipe as an object; the two sentinels are spelled ['skip'] / ['stop']"""
    if x == ['skip']:
        return SKIP
    if x == ['stop']:
        return STOP
    return tg.build(x).obj


def note(env, label):
    """class labels that only the reference evaluation can know (check() seeds env with a set under '$labels')"""
    env.get('$labels', set()).add(label)


# steps whose reading depends on the mode: a string is a path in auto mode and a literal in fill mode, a tuple is a
# chain or a template, a list maps over the target or is a template, a dict's string values are paths or literals
SENSITIVE = ('path', 'dict', 'list', 'tuple', 'flit', 'fdict', 'ftuple')


def ref_chain(steps, target, log, env, ev, mode):
    """'a tuple or Pipe feeds each step's result to the next'; 'a sub-result of SKIP omits that step and STOP ends
    the chain'.  Every step is read by ev, the reading of the chain itself: what a step did to get its result
    (such as switching the mode for the spec it wraps) is not the next step's business."""
    res = target
    pending = None
    for n, sub in enumerate(steps):
        if pending is not None:
            note(env, 'modestep:%s:%s-then-%s' % (mode, pending, 'sensitive' if sub[0] in SENSITIVE else 'other'))
            pending = None
        nxt = ev(sub, res, log, env)
        if sub[0] == 'mode':
            pending = 'skip' if nxt is SKIP else 'stop' if nxt is STOP else 'value'
            if nxt is STOP and n + 1 < len(steps):
                note(env, 'modestep:%s:stop-then-more' % mode)
        if nxt is SKIP:
            continue
        if nxt is STOP:
            break
        res = nxt
    return res


def ref_coalesce(r, target, log, env, ev):
    opts = r[2]
    exc = SKIP_EXC[opts.get('skip_exc', 'GlomError')]
    sf = skip_func(opts.get('skip'))
    for sub in r[1]:
        try:
            v = ev(sub, target, log, env)
        except RefErr as e:
            if exc and issubclass(e.cls, exc):
                continue                       # skipped: try the next alternative
            raise
        if sf(v):
            continue
        return v                               # first non-skipped success wins; later ones never run
    if 'default' in opts:
        d = opts['default']
        return target if d == ['T'] else lit(d)
    if opts.get('default_factory'):
        return ['made']
    raise RefErr(CoalesceError, 'no alternative')


def ref_fill(r, target, log, env):
    """the reading of FILL mode as far as this module generates it (docs/modes.rst, Fill docstring): dicts and tuples
    are templates, callables are called with the target, other plain objects (strings, numbers) stand for themselves;
    'modes do not change the behavior of T, or many other core specifiers'; 'once set, the mode remains in place
    until it is overridden by another mode'."""
    kind = r[0]
    if kind == 'flit':
        return tg.build(r[1]).obj
    if kind in ('T', 'val', 'probe'):
        return refauto(r, target, log, env)
    if kind == 'fdict':
        return dict((k, ref_fill(sub, target, log, env)) for k, sub in r[1])
    if kind == 'ftuple':
        return tuple(ref_fill(sub, target, log, env) for sub in r[1])
    if kind == 'coalesce':
        return ref_coalesce(r, target, log, env, ref_fill)
    if kind == 'pipe':
        return ref_chain(r[1], target, log, env, ref_fill, 'fill')
    if kind == 'mode':
        return (refauto if r[1] == 'auto' else ref_fill)(r[2], target, log, env)
    raise HarnessBug('no fill-mode reading defined for %r' % (r,))


def refauto(r, target, log, env):
    kind = r[0]
    if kind == 'path':
        return ref_path(target, r[1])
    if kind == 'T':
        return ref_t(target, r[1])
    if kind == 'dict':
        out = collections.OrderedDict() if r[2] == 'odict' else {}
        for key, sub in r[1]:
            v = refauto(sub, target, log, env)
            if v is SKIP:
                continue
            if key[0] == 'k':
                k = key[1]
            else:
                k = ref_t(target, key[1])
            try:
                out[k] = v
            except TypeError:
                raise RefErr(TypeError, 'unhashable computed key')
        return out
    if kind == 'list':
        out = []
        for item in iterate(target):
            v = refauto(r[1], item, log, env)
            if v is SKIP:
                continue
            if v is STOP:
                break
            out.append(v)
        return out
    if kind in ('tuple', 'pipe'):
        return ref_chain(r[1], target, log, env, refauto, 'auto')
    if kind == 'probe':
        log.append((r[1], repr(target)))
        try:
            return behave(r[2], target)
        except GlomError:
            raise RefErr(GlomError, 'probe')
        except ProbeError:
            raise RefErr(ProbeError, 'probe')
        except TypeError:
            raise RefErr(TypeError, 'probe len')
    if kind == 'val':
        return lit(r[1])
    if kind == 'spec':
        return refauto(r[1], target, log, env)
    if kind == 'mode':
        # a mode wrapper is a spec like any other: its result is the result of the wrapped spec, read in that mode
        return (refauto if r[1] == 'auto' else ref_fill)(r[2], target, log, env)
    if kind == 'coalesce':
        return ref_coalesce(r, target, log, env, refauto)
    if kind == 'call':
        args = [ref_arg(a, target) for a in r[2]]
        kwargs = dict((k, ref_arg(a, target)) for k, a in r[3])
        return FUNCS[r[1]](*args, **kwargs)
    if kind == 'invoke':
        args, kwargs = [], {}
        # a keyword given again by a later constants()/specs() call is superseded: only the freshest
        # value counts and a superseded spec is not evaluated at all
        freshest = {}
        for i, op in enumerate(r[2]):
            if op[0] in ('C', 'S'):
                for k, _ in op[2]:
                    freshest[k] = i
        for i, op in enumerate(r[2]):
            if op[0] == 'C':
                args += [tg.build(a).obj for a in op[1]]
                kwargs.update(dict((k, tg.build(a).obj) for k, a in op[2] if freshest[k] == i))
            elif op[0] == 'S':
                args += [refauto(a, target, log, env) for a in op[1]]
                kwargs.update(dict((k, refauto(a, target, log, env)) for k, a in op[2] if freshest[k] == i))
            else:
                if op[1] is not None:
                    extra = refauto(op[1], target, log, env)
                    if not hasattr(extra, '__iter__'):
                        raise RefErr(TypeError, 'argument after * must be an iterable')
                    args += list(extra)
                if op[2] is not None:
                    extra = refauto(op[2], target, log, env)
                    if not isinstance(extra, dict):
                        if hasattr(extra, '__iter__'):
                            # star(kwargs=spec) is documented for a spec that evaluates to a MAPPING; an
                            # iterable that is none (an empty list, a list of pairs, '') is outside that -
                            # glom feeds it to dict.update(), a call f(**x) would refuse it: not asserted
                            raise Unspecified('star kwargs: an iterable that is no mapping')
                        raise RefErr(TypeError, 'argument after ** must be a mapping')
                    kwargs.update(extra)
        return FUNCS[r[1]](*args, **kwargs)
    if kind == 'ref':
        env = dict(env)
        env[r[1]] = r[2]
        return refauto(r[2], target, log, env)
    if kind == 'refuse':
        return refauto(env[r[1]], target, log, env)
    if kind == 'children':
        # Ref-recursion helper: (T['kids'], [Ref(name)]) or leaf value
        raise ValueError(r)
    raise ValueError(r)


def ref_arg(a, target):
    if a[0] == 'T':
        return ref_t(target, a[1])
    return tg.build(a[1]).obj


# ---------------------------------------------------------------------------
# builder

def build_t(steps):
    t = T
    for op, seg in steps:
        t = t[seg] if op == '[' else getattr(t, seg)
    return t


def build(r, log):
    kind = r[0]
    if kind == 'path':
        return r[1]
    if kind == 'T':
        return build_t(r[1])
    if kind == 'dict':
        out = collections.OrderedDict() if r[2] == 'odict' else {}
        for key, sub in r[1]:
            if key[0] == 'k':
                k = key[1]
            elif key[0] == 'Tkey':
                k = build_t(key[1])
            else:
                k = Spec(build_t(key[1]))
            out[k] = build(sub, log)
        return out
    if kind == 'list':
        return [build(r[1], log)]
    if kind == 'tuple':
        return tuple(build(s, log) for s in r[1])
    if kind == 'pipe':
        return Pipe(*[build(s, log) for s in r[1]])
    if kind == 'probe':
        return Probe(r[1], r[2], log)
    if kind == 'val':
        return Val(lit(r[1]))
    if kind == 'spec':
        return Spec(build(r[1], log))
    if kind == 'mode':
        return (Auto if r[1] == 'auto' else Fill)(build(r[2], log))
    if kind == 'flit':
        return tg.build(r[1]).obj
    if kind == 'fdict':
        return dict((k, build(sub, log)) for k, sub in r[1])
    if kind == 'ftuple':
        return tuple(build(sub, log) for sub in r[1])
    if kind == 'coalesce':
        opts = r[2]
        kw = {}
        if 'default' in opts:
            kw['default'] = T if opts['default'] == ['T'] else lit(opts['default'])
        if opts.get('default_factory'):
            kw['default_factory'] = lambda: ['made']
        sk = opts.get('skip')
        if sk is not None:
            if sk[0] == 'value':
                kw['skip'] = tg.build(sk[1]).obj
            elif sk[0] == 'tuple':
                kw['skip'] = tuple(tg.build(x).obj for x in sk[1])
            else:
                kw['skip'] = falsy_none
        if 'skip_exc' in opts:
            kw['skip_exc'] = SKIP_EXC[opts['skip_exc']]
        return Coalesce(*[build(s, log) for s in r[1]], **kw)
    if kind == 'call':
        args = [build_arg(a) for a in r[2]]
        kwargs = dict((k, build_arg(a)) for k, a in r[3])
        return Call(FUNCS[r[1]], args=args, kwargs=kwargs)
    if kind == 'invoke':
        inv = Invoke(FUNCS[r[1]])
        # r[3] (optional): further builder calls made on the finished spec whose results are thrown away --
        # "every call returns a new spec", so they must leave the spec they were derived from as it was
        for n_op, op in enumerate(list(r[2]) + list(r[3] if len(r) > 3 else [])):
            if n_op == len(r[2]):
                kept = inv
            if op[0] == 'C':
                inv = inv.constants(*[tg.build(a).obj for a in op[1]], **dict((k, tg.build(a).obj) for k, a in op[2]))
            elif op[0] == 'S':
                inv = inv.specs(*[build(a, log) for a in op[1]], **dict((k, build(a, log)) for k, a in op[2]))
            else:
                kw = {}
                if op[1] is not None:
                    kw['args'] = build(op[1], log)
                if op[2] is not None:
                    kw['kwargs'] = build(op[2], log)
                inv = inv.star(**kw)
        if len(r) > 3 and r[3]:
            return kept
        return inv
    if kind == 'ref':
        return Ref(r[1], build(r[2], log))
    if kind == 'refuse':
        return Ref(r[1])
    raise ValueError(r)


def build_arg(a):
    if a[0] == 'T':
        return build_t(a[1])
    return tg.build(a[1]).obj


# ---------------------------------------------------------------------------
# generation (type-directed)

LITS = [['i', 0], ['i', 7], ['s', 'lit'], ['none'], ['s', ''], ['list', [['i', 1]]]]


class Gen(object):
    def __init__(self, draw):
        self.draw = draw
        self.nprobe = 0

    def probe(self, behaviour):
        self.nprobe += 1
        return ['probe', self.nprobe, behaviour]

    def access(self, value):
        """an access spec valid for value, or None"""
        d = self.draw
        if isinstance(value, dict) and value:
            keys = [k for k in value if isinstance(k, str) and '.' not in k and k != '']
            if keys:
                k = d(st.sampled_from(sorted(keys)))
                return d(st.sampled_from([['path', k], ['T', [['[', k]]]]))
        if isinstance(value, (list, tuple)) and value:
            i = d(st.integers(0, len(value) - 1))
            return d(st.sampled_from([['path', str(i)], ['T', [['[', i]]]]))
        if isinstance(value, tg.Obj) and value.__dict__:
            k = d(st.sampled_from(sorted(value.__dict__)))
            return d(st.sampled_from([['path', k], ['T', [['.', k]]]]))
        return None

    def failing(self):
        return self.draw(st.sampled_from([['path', 'nope'], ['T', [['[', 'nope']]], ['path', 'a.nope.x'],
                                          self.probe(['glomerror']), self.probe(['valueerror'])]))

    def leaf(self, value):
        d = self.draw
        k = d(st.sampled_from(range(12)))
        if k <= 3:
            a = self.access(value)
            if a is not None:
                return a
        if k == 4:
            return ['val', d(st.sampled_from(LITS))]
        if k == 5:
            return self.probe(['id'])
        if k == 6:
            return self.probe(['wrap'])
        if k == 7:
            return self.probe(['const', d(st.sampled_from(LITS))])
        if k == 8:
            return ['T', []]
        if k == 9:
            return self.probe(d(st.sampled_from([['skip'], ['stop'], ['none']])))
        if k == 11:
            if d(st.booleans()):
                return self.failing()
            # a mode wrapper as a spec, at whatever position this leaf ends up (dict value, list item spec, chain step,
            # Coalesce alternative, Invoke argument)
            return self.mode_step(value, 0, d(st.sampled_from(['value', 'value', 'skip', 'stop'])), 'auto')
        if k == 10:
            return ['call', 'collect', [d(st.sampled_from([['T', []], ['lit', ['i', 1]], ['lit', ['s', 'x']]]))
                                        for _ in range(d(st.integers(0, 2)))],
                    [[kw, d(st.sampled_from([['T', []], ['lit', ['i', 2]]]))] for kw in d(st.lists(st.sampled_from(['p', 'q']), max_size=2, unique=True))]]
        return self.probe(['id'])

    def spec(self, value, depth):
        d = self.draw
        if depth <= 0:
            return self.leaf(value)
        k = d(st.sampled_from(range(16)))
        if k <= 2:
            return self.leaf(value)
        if k <= 4:          # dict
            n = d(st.integers(0, 3))
            entries = []
            used = set()
            for i in range(n):
                kk = d(st.integers(0, 9))
                key = ['k', d(st.sampled_from(['x', 'y', 'z', 'w']))]
                srcs = (sorted(k_ for k_, v in value.items() if isinstance(v, (str, int)) and not isinstance(v, bool)
                               and isinstance(k_, str)) if isinstance(value, dict) else [])
                if kk == 0 and srcs:
                    src = d(st.sampled_from(srcs))
                    key = [d(st.sampled_from(['Tkey', 'Speckey'])), [['[', src]]]
                if repr(key) in used:
                    continue
                used.add(repr(key))
                entries.append([key, self.spec(value, depth - 1)])
            return ['dict', entries, d(st.sampled_from(['dict', 'dict', 'odict']))]
        if k <= 6:          # list over an iterable value
            if isinstance(value, (list, tuple)) :
                item = value[0] if len(value) else None
                return ['list', self.spec(item, depth - 1)]
            a = self.access_to_iterable(value)
            if a is not None:
                sub, item = a
                return ['tuple', [sub, ['list', self.spec(item, depth - 1)]]]
            return self.leaf(value)
        if k <= 9:          # tuple / pipe
            steps = []
            cur = value
            log = []
            for _ in range(d(st.integers(0, 3))):
                s = self.spec(cur, depth - 1)
                steps.append(s)
                try:
                    nxt = refauto(s, cur, log, {})
                    if nxt is SKIP:
                        continue
                    if nxt is STOP:
                        break
                    cur = nxt
                except RefErr:
                    break
                except Exception:
                    break
            return [d(st.sampled_from(['tuple', 'tuple', 'pipe'])), steps]
        if k == 10:
            return ['spec', self.spec(value, depth - 1)]
        if k <= 12:         # coalesce
            alts = []
            for _ in range(d(st.integers(1, 3))):
                alts.append(self.failing() if d(st.integers(0, 9)) < 4 else self.spec(value, depth - 1))
            opts = {}
            c = d(st.integers(0, 5))
            if c == 0:
                opts['default'] = d(st.sampled_from(LITS + [['T']]))
            elif c == 1:
                opts['default_factory'] = True
            s_ = d(st.integers(0, 5))
            if s_ == 0:
                opts['skip'] = ['value', d(st.sampled_from(LITS))]
            elif s_ == 1:
                opts['skip'] = ['tuple', [['none'], ['s', ''], ['i', 0]]]
            elif s_ == 2:
                opts['skip'] = ['pred']
            e_ = d(st.integers(0, 6))
            if e_ == 0:
                opts['skip_exc'] = d(st.sampled_from(['PathAccessError', 'ValueError', 'both', 'none']))
            return ['coalesce', alts, opts]
        if k == 13:         # invoke
            ops = []
            for _ in range(d(st.integers(1, 3))):
                o = d(st.sampled_from(['C', 'S', 'S', '*']))
                if o == 'C':
                    ops.append(['C', [d(st.sampled_from(LITS)) for _ in range(d(st.integers(0, 2)))],
                                [[kw, d(st.sampled_from(LITS))] for kw in d(st.lists(st.sampled_from(['p', 'q']), max_size=2, unique=True))]])
                elif o == 'S':
                    ops.append(['S', [self.nonsentinel(value, depth - 1) for _ in range(d(st.integers(0, 2)))],
                                [[kw, self.nonsentinel(value, depth - 1)] for kw in d(st.lists(st.sampled_from(['p', 'r']), max_size=2, unique=True))]])
                else:
                    kwspec = ['val', ['dict', [['q', ['i', 9]]]]] if d(st.booleans()) else ['val', ['dict', []]]
                    if isinstance(value, dict):
                        # keyword arguments taken from a mapping OWNED BY THE TARGET (it must not be written to)
                        owned = sorted(k_ for k_, v_ in value.items() if isinstance(v_, dict) and isinstance(k_, str) and k_
                                       and '.' not in k_ and all(isinstance(x, str) and x.isidentifier() for x in v_))
                        if owned:
                            kwspec = ['path', d(st.sampled_from(owned))]
                    ops.append(['*', ['val', ['list', [['i', 1], ['i', 2]]]] if d(st.booleans()) else None, kwspec])
            if d(st.sampled_from(range(3))) == 0:
                later = [['C', [d(st.sampled_from(LITS))], [[kw, ['s', 'later']] for kw in d(st.lists(st.sampled_from(['p', 'q', 'r']), min_size=1, max_size=2, unique=True))]]]
                if d(st.booleans()):
                    later.append(['S', [], [[kw, ['val', ['s', 'later-spec']]] for kw in d(st.lists(st.sampled_from(['p', 'r']), min_size=1, max_size=2, unique=True))]])
                return ['invoke', 'collect', ops, later]
            return ['invoke', 'collect', ops]
        if k == 15:
            # a chain nested directly inside a chain, with SKIP / STOP produced inside the inner one:
            # STOP must end the inner chain only, the outer steps go on with the inner result
            ctor = d(st.sampled_from(['pipe', 'pipe', 'tuple']))
            inner = [self.leaf(value) for _ in range(d(st.integers(0, 2)))]
            inner.insert(d(st.integers(0, len(inner))), self.probe(d(st.sampled_from([['stop'], ['skip'], ['stop']]))))
            inner.append(self.probe(['wrap']))
            outer = [[ctor, inner]] + [self.probe(d(st.sampled_from([['wrap'], ['id'], ['const', ['i', 7]]])))
                                       for _ in range(d(st.integers(1, 2)))]
            if d(st.booleans()):
                outer.insert(0, self.probe(['id']))
            return [d(st.sampled_from(['pipe', 'pipe', 'tuple'])), outer]
        if k == 14 and isinstance(value, dict) and 'kids' in value:
            # Ref recursion over a tree-shaped target: {'v': .., 'kids': [...]}
            if d(st.booleans()):
                # the same name defined again INSIDE the definition, with another body that recurses too: every
                # Ref('node') resolves to the nearest enclosing definition
                inner = ['ref', 'node', ['dict', [[['k', 'w'], ['path', 'v']],
                                                  [['k', 'sub'], ['tuple', [['path', 'kids'], ['list', ['refuse', 'node']]]]]], 'dict']]
                return ['ref', 'node', ['dict', [[['k', 'v'], ['path', 'v']],
                                                 [['k', 'kids'], ['tuple', [['path', 'kids'], ['list', ['refuse', 'node']]]]],
                                                 [['k', 'again'], inner]], 'dict']]
            return ['ref', 'node', ['dict', [[['k', 'v'], ['path', 'v']],
                                             [['k', 'kids'], ['tuple', [['path', 'kids'], ['list', ['refuse', 'node']]]]]], 'dict']]
        return self.leaf(value)

    # ---- mode wrappers (Fill / Auto) used as specs.  What they wrap is read in their mode; their result is a result like
    # any other: SKIP omits the entry / step, STOP ends the list / chain, a value is fed to the next step -- and what
    # comes next is read in the mode of the place where it stands.

    def strpath(self, value):
        """a dotted path valid for value, in the STRING spelling (the spelling that means something else in fill mode:
        there a string stands for itself), or None"""
        d = self.draw
        segs, cur = [], value
        for _ in range(d(st.sampled_from([1, 1, 2]))):
            if isinstance(cur, dict):
                keys = sorted(k for k in cur if isinstance(k, str) and k and '.' not in k)
                if not keys:
                    break
                k = d(st.sampled_from(keys))
                segs.append(k)
                cur = cur[k]
            elif isinstance(cur, (list, tuple)) and len(cur):
                i = d(st.sampled_from(range(len(cur))))
                segs.append(str(i))
                cur = cur[i]
            elif isinstance(cur, tg.Obj) and cur.__dict__:
                k = d(st.sampled_from(sorted(cur.__dict__)))
                segs.append(k)
                cur = getattr(cur, k)
            else:
                break
        return '.'.join(segs) if segs else None

    def taccess(self, value):
        """a T expression valid for value (T reads the same in every mode); T itself where nothing can be accessed"""
        d = self.draw
        if isinstance(value, dict):
            keys = sorted(k for k in value if isinstance(k, str))
            if keys:
                return ['T', [['[', d(st.sampled_from(keys))]]]
        if isinstance(value, (list, tuple)) and len(value):
            return ['T', [['[', d(st.sampled_from(range(len(value))))]]]
        if isinstance(value, tg.Obj) and value.__dict__:
            return ['T', [['.', d(st.sampled_from(sorted(value.__dict__)))]]]
        return ['T', []]

    def sentinel_spec(self, s, mode):
        """a spec whose result, read in the given mode, is the sentinel s ('skip' / 'stop')"""
        d = self.draw
        k = d(st.sampled_from(range(4)))
        if k == 0:
            return self.probe([s])
        if k == 1:
            return ['val', [s]]
        if k == 2:
            # an optional part: every alternative fails with a GlomError, the default is the sentinel
            fails = [['T', [['[', 'nope']]], self.probe(['glomerror'])]
            if mode == 'auto':
                fails += [['path', 'nope'], ['path', 'a.nope.x']]        # (in fill mode these would be literals)
            return ['coalesce', [d(st.sampled_from(fails)) for _ in range(d(st.sampled_from([1, 1, 2])))], {'default': [s]}]
        m = d(st.sampled_from(['auto', 'fill']))
        return ['mode', m, self.sentinel_spec(s, m)]

    def fill_value(self, value, depth):
        """a spec for fill mode: templates, T, literals, callables"""
        d = self.draw
        k = d(st.sampled_from(range(9)))
        if k == 0:
            return self.taccess(value)
        if k == 1:
            return ['val', d(st.sampled_from(LITS))]
        if k == 2:
            p = self.strpath(value)
            return ['flit', d(st.sampled_from([['s', 'lit'], ['i', 7], ['s', p or 'a.b']]))]
        if k == 3:
            return self.probe(d(st.sampled_from([['id'], ['wrap']])))
        if k == 4:
            return ['mode', 'auto', self.spec(value, depth - 1)]
        if k == 5:
            p = self.strpath(value)
            return ['coalesce', [d(st.sampled_from([['T', [['[', 'nope']]], self.probe(['glomerror']), ['flit', ['s', p or 'a']],
                                                    self.taccess(value)])) for _ in range(d(st.sampled_from([1, 2])))],
                    {'default': d(st.sampled_from(LITS + [['T']]))}]
        entries = []
        for key in d(st.lists(st.sampled_from(['a', 'b', 'x']), min_size=1, max_size=3, unique=True)):
            kk = d(st.sampled_from(range(4)))
            p = self.strpath(value)
            entries.append([key, self.taccess(value) if kk <= 1 else ['flit', ['s', p or 'lit']] if kk == 2
                            else ['val', d(st.sampled_from(LITS))]])
        if k <= 7:
            return ['fdict', entries]
        return ['ftuple', [e[1] for e in entries]]

    def mode_step(self, value, depth, want, ctx):
        """a mode wrapper used as a spec at a place read in mode ctx; want ('skip' / 'stop' / 'value') steers its result"""
        d = self.draw
        # the wrapper that switches away from the mode in force is the one that matters most
        m = d(st.sampled_from(['fill', 'fill', 'auto'] if ctx == 'auto' else ['auto', 'auto', 'fill']))
        if want in ('skip', 'stop'):
            return ['mode', m, self.sentinel_spec(want, m)]
        if m == 'auto':
            return ['mode', 'auto', self.spec(value, depth - 1)]
        return ['mode', 'fill', self.fill_value(value, depth)]

    def sensitive(self, value, depth):
        """an auto-mode step that would mean something else in another mode: a string path, a dict of string paths,
        a list, a nested chain"""
        d = self.draw
        k = d(st.sampled_from(range(8)))
        p = self.strpath(value)
        if k <= 3 and p is not None:
            return ['path', p]
        if k <= 5:
            entries = []
            for key in d(st.lists(st.sampled_from(['x', 'y', 'z']), min_size=1, max_size=2, unique=True)):
                q = self.strpath(value)
                entries.append([['k', key], ['path', q] if q is not None else self.leaf(value)])
            return ['dict', entries, d(st.sampled_from(['dict', 'odict']))]
        if k == 6 and isinstance(value, (list, tuple)):
            return ['list', self.leaf(value[0] if len(value) else None)]
        return ['tuple', [self.probe(['wrap']), self.probe(d(st.sampled_from([['wrap'], ['id'], ['len']])))]]

    def fill_sensitive(self, value):
        """a fill-mode step that would mean something else in auto mode: a string that is a valid path there,
        a tuple template"""
        d = self.draw
        p = self.strpath(value)
        if d(st.sampled_from(range(4))) or p is None:
            return ['flit', ['s', p or 'a']]
        return ['ftuple', [self.taccess(value), ['flit', ['s', p]]]]

    def modechain(self, value, depth):
        """constructed class: a chain with a mode wrapper DIRECTLY as a step - mostly one whose result is SKIP -
        followed by steps whose meaning depends on the mode; in an auto-mode place (tuple / Pipe) or as Fill(Pipe(...))"""
        d = self.draw
        ctx = d(st.sampled_from(['auto', 'auto', 'fill']))
        ev = refauto if ctx == 'auto' else ref_fill
        steps = []
        state = {'cur': value, 'live': True}

        def push(s):
            steps.append(s)
            if not state['live']:
                return
            try:
                nxt = ev(s, state['cur'], [], {})
            except HarnessBug:
                raise
            except Exception:
                state['live'] = False
                return
            if nxt is STOP:
                state['live'] = False
            elif nxt is not SKIP:
                state['cur'] = nxt

        if d(st.sampled_from(range(3))) == 0:
            push((self.access(state['cur']) if ctx == 'auto' else self.taccess(state['cur'])) or self.probe(['id']))
        for _ in range(d(st.sampled_from([1, 1, 1, 2]))):
            push(self.mode_step(state['cur'], depth, d(st.sampled_from(['skip'] * 5 + ['value'] * 3 + ['stop'])), ctx))
        push(self.sensitive(state['cur'], depth) if ctx == 'auto' else self.fill_sensitive(state['cur']))
        if d(st.sampled_from(range(3))) == 0:
            push(self.spec(state['cur'], depth - 1) if ctx == 'auto' else self.fill_value(state['cur'], depth))
        if ctx == 'fill':
            return ['mode', 'fill', ['pipe', steps]]
        return [d(st.sampled_from(['tuple', 'tuple', 'pipe'])), steps]

    def nonsentinel(self, value, depth):
        s = self.spec(value, depth)
        # Invoke.specs arguments are passed on as they are: keep SKIP/STOP-producing probes out
        if 'skip' in repr(s) or 'stop' in repr(s):
            return ['T', []]
        return s

    def access_to_iterable(self, value):
        d = self.draw
        if isinstance(value, dict):
            ks = sorted(k for k, v in value.items() if isinstance(v, (list, tuple)) and isinstance(k, str) and '.' not in k and k)
            if ks:
                k = d(st.sampled_from(ks))
                return ['path', k], (value[k][0] if len(value[k]) else None)
        if isinstance(value, tg.Obj):
            ks = sorted(k for k, v in value.__dict__.items() if isinstance(v, (list, tuple)))
            if ks:
                k = d(st.sampled_from(ks))
                return ['T', [['.', k]]], (getattr(value, k)[0] if len(getattr(value, k)) else None)
        return None


def gen_target(draw):
    def node(d):
        r = draw(st.integers(0, 9))
        if d <= 0 or r < 2:
            return draw(st.sampled_from([['i', 3], ['s', 'txt'], ['none'], ['i', 0], ['s', '']]))
        if r < 6:
            ks = draw(st.lists(st.sampled_from(['a', 'b', 'c', 'v']), max_size=3, unique=True))
            return ['dict', [[k, node(d - 1)] for k in ks]]
        if r < 8:
            return ['list', [node(d - 1) for _ in range(draw(st.integers(0, 3)))]]
        if r == 8:
            ks = draw(st.lists(st.sampled_from(['a', 'b']), max_size=2, unique=True))
            return ['obj', [[k, node(d - 1)] for k in ks]]
        # a tree for Ref recursion
        def tree(dd):
            kids = [tree(dd - 1) for _ in range(draw(st.integers(0, 2)))] if dd > 0 else []
            return ['dict', [['v', ['i', draw(st.integers(0, 9))]], ['kids', ['list', kids]]]]
        return tree(2)
    t = node(3)
    if t[0] in tg.SCALAR_TAGS:
        t = ['dict', [['a', t], ['b', node(2)]]]
    return t


REF_SPEC = ['ref', 'node', ['dict', [[['k', 'v'], ['path', 'v']],
                                    [['k', 'kids'], ['tuple', [['path', 'kids'], ['list', ['refuse', 'node']]]]]], 'dict']]


# the same name defined again INSIDE the definition, with another body that recurses too
_INNER_DEF = ['ref', 'node', ['dict', [[['k', 'w'], ['path', 'v']],
                                       [['k', 'sub'], ['tuple', [['path', 'kids'], ['list', ['refuse', 'node']]]]]], 'dict']]
REF_REDEFINED = ['ref', 'node', ['dict', [[['k', 'v'], ['path', 'v']],
                                          [['k', 'kids'], ['tuple', [['path', 'kids'], ['list', ['refuse', 'node']]]]],
                                          [['k', 'again'], _INNER_DEF]], 'dict']]


def gen_tree_target(draw, dd=2):
    kids = [gen_tree_target(draw, dd - 1) for _ in range(draw(st.integers(0, 2)))] if dd > 0 else []
    return ['dict', [['v', ['i', draw(st.integers(0, 9))]], ['kids', ['list', kids]]]]


def gen(draw):
    form0 = draw(st.sampled_from(range(12)))
    if form0 == 0:
        # Ref recursion over a tree-shaped target, alone / as a chain step / as a dict value
        form = draw(st.sampled_from(['plain', 'chain', 'dictval', 'redefined']))
        if form == 'redefined':
            return {'target': gen_tree_target(draw), 'spec': REF_REDEFINED}
        spec = REF_SPEC if form == 'plain' else (['tuple', [['T', []], REF_SPEC]] if form == 'chain'
                                                 else ['dict', [[['k', 'tree'], REF_SPEC], [['k', 'n'], ['path', 'v']]], 'dict'])
        return {'target': gen_tree_target(draw), 'spec': spec}
    trec = gen_target(draw)
    value = tg.build(trec).obj
    g = Gen(draw)
    if form0 == 1:
        # a mode wrapper directly as a chain step; alone / as a dict value / as a Coalesce alternative / in a Spec /
        # as a step of another chain
        chain = g.modechain(value, 2)
        nest = draw(st.sampled_from(['plain', 'plain', 'plain', 'dictval', 'alt', 'spec', 'step']))
        if nest == 'dictval':
            chain = ['dict', [[['k', 'r'], chain], [['k', 'n'], g.sensitive(value, 1)]], 'dict']
        elif nest == 'alt':
            chain = ['coalesce', [g.failing(), chain], {}]
        elif nest == 'spec':
            chain = ['spec', chain]
        elif nest == 'step':
            chain = ['tuple', [['T', []], chain]]
        return {'target': trec, 'spec': chain}
    return {'target': trec, 'spec': g.spec(value, draw(st.sampled_from([2, 3, 3, 4, 5] if runner_mod.thorough() else [2, 2, 3, 3, 4])))}


# ---------------------------------------------------------------------------
# checking

def kinds(r, acc=None):
    acc = set() if acc is None else acc
    if isinstance(r, list) and r and isinstance(r[0], str):
        acc.add(r[0])
        for x in r[1:]:
            kinds(x, acc)
    elif isinstance(r, (list, tuple)):
        for x in r:
            kinds(x, acc)
    elif isinstance(r, dict):
        for x in r.values():
            kinds(x, acc)
    return acc


def depth(r):
    if isinstance(r, list) and r and isinstance(r[0], str) and r[0] in ('dict', 'list', 'tuple', 'pipe', 'spec', 'coalesce', 'invoke', 'ref',
                                                                        'mode', 'fdict', 'ftuple'):
        subs = []
        for x in r[1:]:
            subs.append(depth(x))
        return 1 + max(subs + [0])
    if isinstance(r, (list, tuple)):
        return max([depth(x) for x in r] + [0])
    return 0


def deep_same(a, b):
    if type(a) is not type(b):
        return False
    if isinstance(a, dict):
        return list(a.keys()) == list(b.keys()) and all(deep_same(a[k], b[k]) for k in a)
    if isinstance(a, (list, tuple)):
        return len(a) == len(b) and all(deep_same(x, y) for x, y in zip(a, b))
    if isinstance(a, tg.Obj):
        return deep_same(a.__dict__, b.__dict__)
    return a == b


SPEC_KINDS = ('path', 'T', 'dict', 'list', 'tuple', 'pipe', 'probe', 'val', 'spec', 'coalesce', 'call', 'invoke', 'ref', 'refuse',
              'mode', 'flit', 'fdict', 'ftuple')


def skipped_steps(r, target):
    """for a chain at the top of the recipe - (a, b, ...), Pipe(a, b, ...) or Fill(Pipe(a, b, ...)) -: a function that
    rebuilds the recipe around other steps, the steps, and the indices of those whose result is SKIP by the reference"""
    if r[0] in ('tuple', 'pipe'):
        steps, ev, rebuild = r[1], refauto, lambda ss: [r[0], ss]
    elif r[0] == 'mode' and r[1] == 'fill' and r[2][0] == 'pipe':
        steps, ev, rebuild = r[2][1], ref_fill, lambda ss: ['mode', 'fill', ['pipe', ss]]
    else:
        return None
    res, idx = target, []
    for n, sub in enumerate(steps):
        nxt = ev(sub, res, [], {})          # (the whole chain succeeds by the reference: no step up to a STOP raises)
        if nxt is SKIP:
            idx.append(n)
            continue
        if nxt is STOP:
            break
        res = nxt
    return rebuild, steps, idx


def evaluate(target, spec):
    try:
        return ('ok', glom.glom(target, spec))
    except Exception as e:
        return ('err', e)


def check(recipe, ctx):
    r = recipe['spec']
    rlog, glog = [], []
    rt = tg.build(recipe['target']).obj
    env0 = {'$labels': set()}
    try:
        exp = ('ok', refauto(r, rt, rlog, env0))
    except RefErr as e:
        exp = ('err', e)
    except Unspecified:
        ctx.label('unspecified-star-kwargs')
        return
    for l in sorted(env0['$labels']):
        ctx.label(l)
    gt = tg.build(recipe['target']).obj
    snap = tg.snapshot(gt)
    spec = build(r, glog)
    ks = kinds(r) & set(SPEC_KINDS)
    sentinel = exp[0] == 'ok' and (exp[1] is SKIP or exp[1] is STOP)
    text = repr(r)
    ctx.label('exp-' + exp[0])
    for k in ks:
        ctx.label('has-' + k)
    if "'later'" in repr(recipe):
        ctx.label('invoke-derived-later')
    had_skipstop = "'skip'" in text or "'stop'" in text
    if r[0] in ('tuple', 'pipe') and any(x[0] in ('tuple', 'pipe') and ("'stop'" in repr(x) or "'skip'" in repr(x)) for x in r[1]):
        ctx.label('nested-chain-sentinel')
    ctx.nontrivial((depth(r) >= 2 and len(ks) >= 2) or had_skipstop or "'coalesce'" in text)
    where = 'spec=%r target=%r' % (spec, gt)
    got = evaluate(gt, spec)
    if exp[0] == 'ok':
        if got[0] != 'ok':
            raise Mismatch('spurious-error', '%s: expected %r, glom raised %s: %s'
                           % (where, exp[1], type(got[1]).__name__, str(got[1]).splitlines()[-1][:200]))
        if not (exp[1] is got[1] if (exp[1] is SKIP or exp[1] is STOP) else deep_same(got[1], exp[1])):
            raise Mismatch('wrong-result', '%s: expected %r, got %r' % (where, exp[1], got[1]))
    else:
        if got[0] != 'err':
            raise Mismatch('missing-error', '%s: expected %s (%s), glom returned %r'
                           % (where, exp[1].cls.__name__, exp[1].why, got[1]))
        if not isinstance(got[1], exp[1].cls):
            raise Mismatch('wrong-error-class', '%s: expected %s (%s), glom raised %s: %s'
                           % (where, exp[1].cls.__name__, exp[1].why, type(got[1]).__name__,
                              str(got[1]).splitlines()[-1][:200]))
    # every probe called exactly as often, with the same argument, in the same order
    if glog != rlog:
        raise Mismatch('evaluation-order', '%s: expected probe calls %r, observed %r' % (where, rlog, glog))
    d = tg.snapshot_diff(snap, tg.snapshot(gt))
    if d:
        raise Mismatch('target-mutated', '%s: %s' % (where, d))
    # ---- metamorphic: wrappers that must not change anything
    if exp[0] == 'ok':
        for name, wrapped in (('Spec(x)', ['spec', r]), ('(x,)', ['tuple', [r]]), ('Pipe(x)', ['pipe', [r]])):
            log2 = []
            got2 = evaluate(tg.build(recipe['target']).obj, build(wrapped, log2))
            expect2 = exp[1]
            if name != 'Spec(x)' and (exp[1] is SKIP or exp[1] is STOP):
                expect2 = rt       # a skipped / stopped single step leaves the target
                if got2[0] == 'ok' and deep_same(got2[1], gt):
                    continue
            if got2[0] != 'ok' or not (got2[1] is expect2 if (expect2 is SKIP or expect2 is STOP) else deep_same(got2[1], expect2)):
                raise Mismatch('wrapper-changes-result', '%s of %s: expected %r, got %r' % (name, where, expect2, got2))
            if log2 != rlog:
                raise Mismatch('wrapper-changes-evaluation', '%s of %s: probe calls %r vs %r' % (name, where, log2, rlog))
    # ---- metamorphic: 'a sub-result of SKIP omits that step' -- the chain without that step gives the same result
    sk = skipped_steps(r, rt) if exp[0] == 'ok' else None
    if sk is not None:
        rebuild, steps, idx = sk
        for n in idx[:3]:
            without = rebuild(steps[:n] + steps[n + 1:])
            got3 = evaluate(tg.build(recipe['target']).obj, build(without, []))
            if got3[0] != 'ok' or not deep_same(got3[1], got[1]):
                raise Mismatch('skipped-step-not-omitted', '%s: step %d yields SKIP, but without it the chain gives %r instead of %r'
                               % (where, n, got3[1], got[1]))
            ctx.label('omission-checked')
            if steps[n][0] == 'mode':
                ctx.label('omission-checked:modestep')
    if r[0] in ('tuple', 'pipe') and len(r[1]) == 2 and exp[0] == 'ok':
        a, b = r[1]
        la = []
        ta = tg.build(recipe['target']).obj
        mid = evaluate(ta, build(a, la))
        if mid[0] == 'ok' and mid[1] is not SKIP and mid[1] is not STOP:
            two = evaluate(mid[1], build(b, la))
            if two[0] == 'ok' and two[1] is not SKIP and two[1] is not STOP:
                if not deep_same(two[1], got[1]):
                    raise Mismatch('not-compositional', '%s: glom(t, (a, b)) = %r but glom(glom(t, a), b) = %r'
                                   % (where, got[1], two[1]))
                ctx.label('composition-checked')
    ctx.outcome([repr(spec)[:140], exp[0]])


def check_val_identity(recipe, ctx):
    """glom(t, Val(v)) is v ; Val inside containers keeps identity as well"""
    v = tg.build(recipe['value']).obj
    ctx.nontrivial(True)
    for spec, pick in ((Val(v), lambda r: r), ({'k': Val(v)}, lambda r: r['k']), ((T, Val(v)), lambda r: r),
                       (Coalesce('nope', Val(v)), lambda r: r), (Spec(Val(v)), lambda r: r)):
        got = glom.glom({'a': 1}, spec)
        if pick(got) is not v:
            raise Mismatch('val-identity', 'glom(t, %r) does not return the Val object itself' % (spec,))
    ctx.outcome(repr(v))


def enum_vals(tier):
    for l in LITS + [['dict', [['a', ['list', []]]]], ['obj', [['a', ['i', 1]]]]]:
        yield {'value': l}


SUBS = [
    Sub('auto', check, gen=gen, quick=5000, thorough=20000,
        floors={'exp-ok': 0.5, 'exp-err': 0.02, 'has-coalesce': 0.05, 'has-dict': 0.12, 'has-list': 0.08,
                'has-invoke': 0.03, 'invoke-derived-later': 0.004, 'has-ref': 0.03, 'nested-chain-sentinel': 0.02, 'composition-checked': 0.01,
                # a mode wrapper (Fill / Auto) directly as a chain step, followed by a step whose reading depends on the mode
                'has-mode': 0.05, 'modestep:auto:skip-then-sensitive': 0.015, 'modestep:fill:skip-then-sensitive': 0.005,
                'modestep:auto:value-then-sensitive': 0.004, 'omission-checked:modestep': 0.02}),
    Sub('val-identity', check_val_identity, enum=enum_vals),
    fuzzrun.fuzz_sub('fuzz-auto', 'hyp:c03:auto', runs=30000, campaigns=4, replay_sub='auto'),
]
