"""C03 — Auto-mode restructuring is compositional in its sub-specs.

Generator: spec recipes over {dotted path, T expression, dict / OrderedDict spec (string keys and
T / Spec keys), [sub], tuple, Pipe, named probe callables, Val, Spec, Coalesce (+default,
default_factory, skip value / tuple / predicate, skip_exc), Call, Invoke (constants / specs /
star), Ref (recursive)}, generated type-directed against the target by evaluating the reference on
the prefix; every probe position yields SKIP, STOP or an error with small probability.

Oracle: refauto() - a direct recursive interpreter of the recipe (no scopes, no modes) that returns
the value and the expected probe call log; plus metamorphic checks (tuple composition,
Pipe == tuple, Spec(x) == x).
"""
import collections

import os

from hypothesis import strategies as st

import glom
from glom import (T, Spec, Val, Coalesce, Call, Invoke, Ref, Pipe, SKIP, STOP, GlomError, PathAccessError,
                  CoalesceError, Path)

from .. import fuzzrun
from ..runner import Sub, Mismatch
from .. import runner as runner_mod
from .. import targets as tg

PROPERTY = 'C03'
RULE = ('spec trees of depth <= 4 / width <= 3 over the auto-mode constructs, generated against the value each sub-spec will '
        'receive (reference evaluation of the prefix) so that most sub-specs succeed; probes produce SKIP / STOP / errors at '
        'every position of dicts, lists, tuples, Pipes and Coalesce alternatives. '
        'Non-trivial = depth >= 2 with >= 2 construct kinds, or a SKIP/STOP occurred, or Coalesce passed over >= 1 alternative.')
ASSUMPTIONS = [
    'reference interpreter refauto() in this module; glom is only used for sentinels and exception classes',
    'order of key vs value evaluation in a dict spec with a T/Spec key is not asserted (only the order among values)',
    'targets are JSON-like trees with attribute objects; probes are total unless scripted to fail',
]


class Probe(object):
    """named callable with a scripted behaviour and a call log"""
    def __init__(self, ident, behaviour, log):
        self.ident, self.behaviour, self.log = ident, behaviour, log
        self.__name__ = 'p%d' % ident

    def __call__(self, target):
        self.log.append((self.ident, repr(target)))
        return behave(self.behaviour, target)

    def __repr__(self):
        return 'p%d' % self.ident


class ProbeError(ValueError):
    pass


def behave(b, target):
    kind = b[0]
    if kind == 'id':
        return target
    if kind == 'wrap':
        return ['w', target]
    if kind == 'const':
        return tg.build(b[1]).obj
    if kind == 'skip':
        return SKIP
    if kind == 'stop':
        return STOP
    if kind == 'glomerror':
        raise GlomError('probe refuses')
    if kind == 'valueerror':
        raise ProbeError('probe fails')
    if kind == 'len':
        return len(target)
    if kind == 'none':
        return None
    raise ValueError(b)


def collect(*a, **kw):
    return ['collected', list(a), sorted(kw.items())]


FUNCS = {'collect': collect}


# ---------------------------------------------------------------------------
# reference interpreter

class RefErr(Exception):
    """the evaluation fails; cls is the exception class glom must raise"""
    def __init__(self, cls, why=''):
        Exception.__init__(self, cls, why)
        self.cls, self.why = cls, why


ACCESS = (KeyError, IndexError, AttributeError, TypeError, ValueError)


def ref_path(target, text):
    cur = target
    for seg in text.split('.'):
        try:
            if isinstance(cur, dict):
                cur = cur[seg]
            elif isinstance(cur, (list, tuple)):
                cur = cur[int(seg)]
            else:
                cur = getattr(cur, seg)
        except ACCESS:
            raise RefErr(PathAccessError, 'path %r' % text)
    return cur


def ref_t(target, steps):
    cur = target
    for op, seg in steps:
        try:
            cur = cur[seg] if op == '[' else getattr(cur, seg)
        except ACCESS:
            raise RefErr(PathAccessError, 'T step %r' % (seg,))
    return cur


def iterate(target):
    if isinstance(target, (str, bytes)) or not hasattr(target, '__iter__'):
        raise RefErr(GlomError, 'not iterable')
    return iter(target)


SKIP_EXC = {'GlomError': GlomError, 'PathAccessError': PathAccessError, 'ValueError': ValueError,
            'both': (GlomError, ValueError), 'none': ()}


def skip_func(sk):
    if sk is None:
        return lambda v: False
    if sk[0] == 'value':
        val = tg.build(sk[1]).obj
        return lambda v: v == val
    if sk[0] == 'tuple':
        vals = tuple(tg.build(x).obj for x in sk[1])
        return lambda v: v in vals
    return lambda v: v is None or v == ''       # predicate 'falsy_none'


def falsy_none(v):
    return v is None or v == ''


def refauto(r, target, log, env):
    kind = r[0]
    if kind == 'path':
        return ref_path(target, r[1])
    if kind == 'T':
        return ref_t(target, r[1])
    if kind == 'dict':
        out = collections.OrderedDict() if r[2] == 'odict' else {}
        for key, sub in r[1]:
            v = refauto(sub, target, log, env)
            if v is SKIP:
                continue
            if key[0] == 'k':
                k = key[1]
            else:
                k = ref_t(target, key[1])
            try:
                out[k] = v
            except TypeError:
                raise RefErr(TypeError, 'unhashable computed key')
        return out
    if kind == 'list':
        out = []
        for item in iterate(target):
            v = refauto(r[1], item, log, env)
            if v is SKIP:
                continue
            if v is STOP:
                break
            out.append(v)
        return out
    if kind in ('tuple', 'pipe'):
        res = target
        for sub in r[1]:
            nxt = refauto(sub, res, log, env)
            if nxt is SKIP:
                continue
            if nxt is STOP:
                break
            res = nxt
        return res
    if kind == 'probe':
        log.append((r[1], repr(target)))
        try:
            return behave(r[2], target)
        except GlomError:
            raise RefErr(GlomError, 'probe')
        except ProbeError:
            raise RefErr(ProbeError, 'probe')
        except TypeError:
            raise RefErr(TypeError, 'probe len')
    if kind == 'val':
        return tg.build(r[1]).obj
    if kind == 'spec':
        return refauto(r[1], target, log, env)
    if kind == 'coalesce':
        opts = r[2]
        exc = SKIP_EXC[opts.get('skip_exc', 'GlomError')]
        sf = skip_func(opts.get('skip'))
        for sub in r[1]:
            try:
                v = refauto(sub, target, log, env)
            except RefErr as e:
                if exc and issubclass(e.cls, exc):
                    continue                       # skipped: try the next alternative
                raise
            if sf(v):
                continue
            return v                               # first non-skipped success wins; later ones never run
        if 'default' in opts:
            d = opts['default']
            return target if d == ['T'] else tg.build(d).obj
        if opts.get('default_factory'):
            return ['made']
        raise RefErr(CoalesceError, 'no alternative')
    if kind == 'call':
        args = [ref_arg(a, target) for a in r[2]]
        kwargs = dict((k, ref_arg(a, target)) for k, a in r[3])
        return FUNCS[r[1]](*args, **kwargs)
    if kind == 'invoke':
        args, kwargs = [], {}
        # a keyword given again by a later constants()/specs() call is superseded: only the freshest
        # value counts and a superseded spec is not evaluated at all
        freshest = {}
        for i, op in enumerate(r[2]):
            if op[0] in ('C', 'S'):
                for k, _ in op[2]:
                    freshest[k] = i
        for i, op in enumerate(r[2]):
            if op[0] == 'C':
                args += [tg.build(a).obj for a in op[1]]
                kwargs.update(dict((k, tg.build(a).obj) for k, a in op[2] if freshest[k] == i))
            elif op[0] == 'S':
                args += [refauto(a, target, log, env) for a in op[1]]
                kwargs.update(dict((k, refauto(a, target, log, env)) for k, a in op[2] if freshest[k] == i))
            else:
                if op[1] is not None:
                    extra = refauto(op[1], target, log, env)
                    if not hasattr(extra, '__iter__'):
                        raise RefErr(TypeError, 'argument after * must be an iterable')
                    args += list(extra)
                if op[2] is not None:
                    extra = refauto(op[2], target, log, env)
                    if not isinstance(extra, dict):
                        raise RefErr(TypeError, 'argument after ** must be a mapping')
                    kwargs.update(extra)
        return FUNCS[r[1]](*args, **kwargs)
    if kind == 'ref':
        env = dict(env)
        env[r[1]] = r[2]
        return refauto(r[2], target, log, env)
    if kind == 'refuse':
        return refauto(env[r[1]], target, log, env)
    if kind == 'children':
        # Ref-recursion helper: (T['kids'], [Ref(name)]) or leaf value
        raise ValueError(r)
    raise ValueError(r)


def ref_arg(a, target):
    if a[0] == 'T':
        return ref_t(target, a[1])
    return tg.build(a[1]).obj


# ---------------------------------------------------------------------------
# builder

def build_t(steps):
    t = T
    for op, seg in steps:
        t = t[seg] if op == '[' else getattr(t, seg)
    return t


def build(r, log):
    kind = r[0]
    if kind == 'path':
        return r[1]
    if kind == 'T':
        return build_t(r[1])
    if kind == 'dict':
        out = collections.OrderedDict() if r[2] == 'odict' else {}
        for key, sub in r[1]:
            if key[0] == 'k':
                k = key[1]
            elif key[0] == 'Tkey':
                k = build_t(key[1])
            else:
                k = Spec(build_t(key[1]))
            out[k] = build(sub, log)
        return out
    if kind == 'list':
        return [build(r[1], log)]
    if kind == 'tuple':
        return tuple(build(s, log) for s in r[1])
    if kind == 'pipe':
        return Pipe(*[build(s, log) for s in r[1]])
    if kind == 'probe':
        return Probe(r[1], r[2], log)
    if kind == 'val':
        return Val(tg.build(r[1]).obj)
    if kind == 'spec':
        return Spec(build(r[1], log))
    if kind == 'coalesce':
        opts = r[2]
        kw = {}
        if 'default' in opts:
            kw['default'] = T if opts['default'] == ['T'] else tg.build(opts['default']).obj
        if opts.get('default_factory'):
            kw['default_factory'] = lambda: ['made']
        sk = opts.get('skip')
        if sk is not None:
            if sk[0] == 'value':
                kw['skip'] = tg.build(sk[1]).obj
            elif sk[0] == 'tuple':
                kw['skip'] = tuple(tg.build(x).obj for x in sk[1])
            else:
                kw['skip'] = falsy_none
        if 'skip_exc' in opts:
            kw['skip_exc'] = SKIP_EXC[opts['skip_exc']]
        return Coalesce(*[build(s, log) for s in r[1]], **kw)
    if kind == 'call':
        args = [build_arg(a) for a in r[2]]
        kwargs = dict((k, build_arg(a)) for k, a in r[3])
        return Call(FUNCS[r[1]], args=args, kwargs=kwargs)
    if kind == 'invoke':
        inv = Invoke(FUNCS[r[1]])
        # r[3] (optional): further builder calls made on the finished spec whose results are thrown away --
        # "every call returns a new spec", so they must leave the spec they were derived from as it was
        for n_op, op in enumerate(list(r[2]) + list(r[3] if len(r) > 3 else [])):
            if n_op == len(r[2]):
                kept = inv
            if op[0] == 'C':
                inv = inv.constants(*[tg.build(a).obj for a in op[1]], **dict((k, tg.build(a).obj) for k, a in op[2]))
            elif op[0] == 'S':
                inv = inv.specs(*[build(a, log) for a in op[1]], **dict((k, build(a, log)) for k, a in op[2]))
            else:
                kw = {}
                if op[1] is not None:
                    kw['args'] = build(op[1], log)
                if op[2] is not None:
                    kw['kwargs'] = build(op[2], log)
                inv = inv.star(**kw)
        if len(r) > 3 and r[3]:
            return kept
        return inv
    if kind == 'ref':
        return Ref(r[1], build(r[2], log))
    if kind == 'refuse':
        return Ref(r[1])
    raise ValueError(r)


def build_arg(a):
    if a[0] == 'T':
        return build_t(a[1])
    return tg.build(a[1]).obj


# ---------------------------------------------------------------------------
# generation (type-directed)

LITS = [['i', 0], ['i', 7], ['s', 'lit'], ['none'], ['s', ''], ['list', [['i', 1]]]]


class Gen(object):
    def __init__(self, draw):
        self.draw = draw
        self.nprobe = 0

    def probe(self, behaviour):
        self.nprobe += 1
        return ['probe', self.nprobe, behaviour]

    def access(self, value):
        """an access spec valid for value, or None"""
        d = self.draw
        if isinstance(value, dict) and value:
            keys = [k for k in value if isinstance(k, str) and '.' not in k and k != '']
            if keys:
                k = d(st.sampled_from(sorted(keys)))
                return d(st.sampled_from([['path', k], ['T', [['[', k]]]]))
        if isinstance(value, (list, tuple)) and value:
            i = d(st.integers(0, len(value) - 1))
            return d(st.sampled_from([['path', str(i)], ['T', [['[', i]]]]))
        if isinstance(value, tg.Obj) and value.__dict__:
            k = d(st.sampled_from(sorted(value.__dict__)))
            return d(st.sampled_from([['path', k], ['T', [['.', k]]]]))
        return None

    def failing(self):
        return self.draw(st.sampled_from([['path', 'nope'], ['T', [['[', 'nope']]], ['path', 'a.nope.x'],
                                          self.probe(['glomerror']), self.probe(['valueerror'])]))

    def leaf(self, value):
        d = self.draw
        k = d(st.sampled_from(range(12)))
        if k <= 3:
            a = self.access(value)
            if a is not None:
                return a
        if k == 4:
            return ['val', d(st.sampled_from(LITS))]
        if k == 5:
            return self.probe(['id'])
        if k == 6:
            return self.probe(['wrap'])
        if k == 7:
            return self.probe(['const', d(st.sampled_from(LITS))])
        if k == 8:
            return ['T', []]
        if k == 9:
            return self.probe(d(st.sampled_from([['skip'], ['stop'], ['none']])))
        if k == 11 and d(st.booleans()):
            return self.failing()
        if k == 10:
            return ['call', 'collect', [d(st.sampled_from([['T', []], ['lit', ['i', 1]], ['lit', ['s', 'x']]]))
                                        for _ in range(d(st.integers(0, 2)))],
                    [[kw, d(st.sampled_from([['T', []], ['lit', ['i', 2]]]))] for kw in d(st.lists(st.sampled_from(['p', 'q']), max_size=2, unique=True))]]
        return self.probe(['id'])

    def spec(self, value, depth):
        d = self.draw
        if depth <= 0:
            return self.leaf(value)
        k = d(st.sampled_from(range(16)))
        if k <= 2:
            return self.leaf(value)
        if k <= 4:          # dict
            n = d(st.integers(0, 3))
            entries = []
            used = set()
            for i in range(n):
                kk = d(st.integers(0, 9))
                key = ['k', d(st.sampled_from(['x', 'y', 'z', 'w']))]
                if kk == 0 and isinstance(value, dict) and any(isinstance(v, (str, int)) and not isinstance(v, bool) for v in value.values()):
                    src = d(st.sampled_from(sorted(k_ for k_, v in value.items() if isinstance(v, (str, int)) and not isinstance(v, bool) and isinstance(k_, str))))
                    key = [d(st.sampled_from(['Tkey', 'Speckey'])), [['[', src]]]
                if repr(key) in used:
                    continue
                used.add(repr(key))
                entries.append([key, self.spec(value, depth - 1)])
            return ['dict', entries, d(st.sampled_from(['dict', 'dict', 'odict']))]
        if k <= 6:          # list over an iterable value
            if isinstance(value, (list, tuple)) :
                item = value[0] if len(value) else None
                return ['list', self.spec(item, depth - 1)]
            a = self.access_to_iterable(value)
            if a is not None:
                sub, item = a
                return ['tuple', [sub, ['list', self.spec(item, depth - 1)]]]
            return self.leaf(value)
        if k <= 9:          # tuple / pipe
            steps = []
            cur = value
            log = []
            for _ in range(d(st.integers(0, 3))):
                s = self.spec(cur, depth - 1)
                steps.append(s)
                try:
                    nxt = refauto(s, cur, log, {})
                    if nxt is SKIP:
                        continue
                    if nxt is STOP:
                        break
                    cur = nxt
                except RefErr:
                    break
                except Exception:
                    break
            return [d(st.sampled_from(['tuple', 'tuple', 'pipe'])), steps]
        if k == 10:
            return ['spec', self.spec(value, depth - 1)]
        if k <= 12:         # coalesce
            alts = []
            for _ in range(d(st.integers(1, 3))):
                alts.append(self.failing() if d(st.integers(0, 9)) < 4 else self.spec(value, depth - 1))
            opts = {}
            c = d(st.integers(0, 5))
            if c == 0:
                opts['default'] = d(st.sampled_from(LITS + [['T']]))
            elif c == 1:
                opts['default_factory'] = True
            s_ = d(st.integers(0, 5))
            if s_ == 0:
                opts['skip'] = ['value', d(st.sampled_from(LITS))]
            elif s_ == 1:
                opts['skip'] = ['tuple', [['none'], ['s', ''], ['i', 0]]]
            elif s_ == 2:
                opts['skip'] = ['pred']
            e_ = d(st.integers(0, 6))
            if e_ == 0:
                opts['skip_exc'] = d(st.sampled_from(['PathAccessError', 'ValueError', 'both', 'none']))
            return ['coalesce', alts, opts]
        if k == 13:         # invoke
            ops = []
            for _ in range(d(st.integers(1, 3))):
                o = d(st.sampled_from(['C', 'S', 'S', '*']))
                if o == 'C':
                    ops.append(['C', [d(st.sampled_from(LITS)) for _ in range(d(st.integers(0, 2)))],
                                [[kw, d(st.sampled_from(LITS))] for kw in d(st.lists(st.sampled_from(['p', 'q']), max_size=2, unique=True))]])
                elif o == 'S':
                    ops.append(['S', [self.nonsentinel(value, depth - 1) for _ in range(d(st.integers(0, 2)))],
                                [[kw, self.nonsentinel(value, depth - 1)] for kw in d(st.lists(st.sampled_from(['p', 'r']), max_size=2, unique=True))]])
                else:
                    kwspec = ['val', ['dict', [['q', ['i', 9]]]]] if d(st.booleans()) else ['val', ['dict', []]]
                    if isinstance(value, dict):
                        # keyword arguments taken from a mapping OWNED BY THE TARGET (it must not be written to)
                        owned = sorted(k_ for k_, v_ in value.items() if isinstance(v_, dict) and isinstance(k_, str) and k_
                                       and '.' not in k_ and all(isinstance(x, str) and x.isidentifier() for x in v_))
                        if owned:
                            kwspec = ['path', d(st.sampled_from(owned))]
                    ops.append(['*', ['val', ['list', [['i', 1], ['i', 2]]]] if d(st.booleans()) else None, kwspec])
            if d(st.sampled_from(range(3))) == 0:
                later = [['C', [d(st.sampled_from(LITS))], [[kw, ['s', 'later']] for kw in d(st.lists(st.sampled_from(['p', 'q', 'r']), min_size=1, max_size=2, unique=True))]]]
                if d(st.booleans()):
                    later.append(['S', [], [[kw, ['val', ['s', 'later-spec']]] for kw in d(st.lists(st.sampled_from(['p', 'r']), min_size=1, max_size=2, unique=True))]])
                return ['invoke', 'collect', ops, later]
            return ['invoke', 'collect', ops]
        if k == 15:
            # a chain nested directly inside a chain, with SKIP / STOP produced inside the inner one:
            # STOP must end the inner chain only, the outer steps go on with the inner result
            ctor = d(st.sampled_from(['pipe', 'pipe', 'tuple']))
            inner = [self.leaf(value) for _ in range(d(st.integers(0, 2)))]
            inner.insert(d(st.integers(0, len(inner))), self.probe(d(st.sampled_from([['stop'], ['skip'], ['stop']]))))
            inner.append(self.probe(['wrap']))
            outer = [[ctor, inner]] + [self.probe(d(st.sampled_from([['wrap'], ['id'], ['const', ['i', 7]]])))
                                       for _ in range(d(st.integers(1, 2)))]
            if d(st.booleans()):
                outer.insert(0, self.probe(['id']))
            return [d(st.sampled_from(['pipe', 'pipe', 'tuple'])), outer]
        if k == 14 and isinstance(value, dict) and 'kids' in value:
            # Ref recursion over a tree-shaped target: {'v': .., 'kids': [...]}
            if d(st.booleans()):
                # the same name defined again INSIDE the definition, with another body that recurses too: every
                # Ref('node') resolves to the nearest enclosing definition
                inner = ['ref', 'node', ['dict', [[['k', 'w'], ['path', 'v']],
                                                  [['k', 'sub'], ['tuple', [['path', 'kids'], ['list', ['refuse', 'node']]]]]], 'dict']]
                return ['ref', 'node', ['dict', [[['k', 'v'], ['path', 'v']],
                                                 [['k', 'kids'], ['tuple', [['path', 'kids'], ['list', ['refuse', 'node']]]]],
                                                 [['k', 'again'], inner]], 'dict']]
            return ['ref', 'node', ['dict', [[['k', 'v'], ['path', 'v']],
                                             [['k', 'kids'], ['tuple', [['path', 'kids'], ['list', ['refuse', 'node']]]]]], 'dict']]
        return self.leaf(value)

    def nonsentinel(self, value, depth):
        s = self.spec(value, depth)
        # Invoke.specs arguments are passed on as they are: keep SKIP/STOP-producing probes out
        if 'skip' in repr(s) or 'stop' in repr(s):
            return ['T', []]
        return s

    def access_to_iterable(self, value):
        d = self.draw
        if isinstance(value, dict):
            ks = sorted(k for k, v in value.items() if isinstance(v, (list, tuple)) and isinstance(k, str) and '.' not in k and k)
            if ks:
                k = d(st.sampled_from(ks))
                return ['path', k], (value[k][0] if len(value[k]) else None)
        if isinstance(value, tg.Obj):
            ks = sorted(k for k, v in value.__dict__.items() if isinstance(v, (list, tuple)))
            if ks:
                k = d(st.sampled_from(ks))
                return ['T', [['.', k]]], (getattr(value, k)[0] if len(getattr(value, k)) else None)
        return None


def gen_target(draw):
    def node(d):
        r = draw(st.integers(0, 9))
        if d <= 0 or r < 2:
            return draw(st.sampled_from([['i', 3], ['s', 'txt'], ['none'], ['i', 0], ['s', '']]))
        if r < 6:
            ks = draw(st.lists(st.sampled_from(['a', 'b', 'c', 'v']), max_size=3, unique=True))
            return ['dict', [[k, node(d - 1)] for k in ks]]
        if r < 8:
            return ['list', [node(d - 1) for _ in range(draw(st.integers(0, 3)))]]
        if r == 8:
            ks = draw(st.lists(st.sampled_from(['a', 'b']), max_size=2, unique=True))
            return ['obj', [[k, node(d - 1)] for k in ks]]
        # a tree for Ref recursion
        def tree(dd):
            kids = [tree(dd - 1) for _ in range(draw(st.integers(0, 2)))] if dd > 0 else []
            return ['dict', [['v', ['i', draw(st.integers(0, 9))]], ['kids', ['list', kids]]]]
        return tree(2)
    t = node(3)
    if t[0] in tg.SCALAR_TAGS:
        t = ['dict', [['a', t], ['b', node(2)]]]
    return t


REF_SPEC = ['ref', 'node', ['dict', [[['k', 'v'], ['path', 'v']],
                                    [['k', 'kids'], ['tuple', [['path', 'kids'], ['list', ['refuse', 'node']]]]]], 'dict']]


# the same name defined again INSIDE the definition, with another body that recurses too
_INNER_DEF = ['ref', 'node', ['dict', [[['k', 'w'], ['path', 'v']],
                                       [['k', 'sub'], ['tuple', [['path', 'kids'], ['list', ['refuse', 'node']]]]]], 'dict']]
REF_REDEFINED = ['ref', 'node', ['dict', [[['k', 'v'], ['path', 'v']],
                                          [['k', 'kids'], ['tuple', [['path', 'kids'], ['list', ['refuse', 'node']]]]],
                                          [['k', 'again'], _INNER_DEF]], 'dict']]


def gen_tree_target(draw, dd=2):
    kids = [gen_tree_target(draw, dd - 1) for _ in range(draw(st.integers(0, 2)))] if dd > 0 else []
    return ['dict', [['v', ['i', draw(st.integers(0, 9))]], ['kids', ['list', kids]]]]


def gen(draw):
    if draw(st.sampled_from(range(12))) == 0:
        # Ref recursion over a tree-shaped target, alone / as a chain step / as a dict value
        form = draw(st.sampled_from(['plain', 'chain', 'dictval', 'redefined']))
        if form == 'redefined':
            return {'target': gen_tree_target(draw), 'spec': REF_REDEFINED}
        spec = REF_SPEC if form == 'plain' else (['tuple', [['T', []], REF_SPEC]] if form == 'chain'
                                                 else ['dict', [[['k', 'tree'], REF_SPEC], [['k', 'n'], ['path', 'v']]], 'dict'])
        return {'target': gen_tree_target(draw), 'spec': spec}
    trec = gen_target(draw)
    value = tg.build(trec).obj
    g = Gen(draw)
    return {'target': trec, 'spec': g.spec(value, draw(st.sampled_from([2, 3, 3, 4, 5] if runner_mod.thorough() else [2, 2, 3, 3, 4])))}


# ---------------------------------------------------------------------------
# checking

def kinds(r, acc=None):
    acc = set() if acc is None else acc
    if isinstance(r, list) and r and isinstance(r[0], str):
        acc.add(r[0])
        for x in r[1:]:
            kinds(x, acc)
    elif isinstance(r, (list, tuple)):
        for x in r:
            kinds(x, acc)
    elif isinstance(r, dict):
        for x in r.values():
            kinds(x, acc)
    return acc


def depth(r):
    if isinstance(r, list) and r and isinstance(r[0], str) and r[0] in ('dict', 'list', 'tuple', 'pipe', 'spec', 'coalesce', 'invoke', 'ref'):
        subs = []
        for x in r[1:]:
            subs.append(depth(x))
        return 1 + max(subs + [0])
    if isinstance(r, (list, tuple)):
        return max([depth(x) for x in r] + [0])
    return 0


def deep_same(a, b):
    if type(a) is not type(b):
        return False
    if isinstance(a, dict):
        return list(a.keys()) == list(b.keys()) and all(deep_same(a[k], b[k]) for k in a)
    if isinstance(a, (list, tuple)):
        return len(a) == len(b) and all(deep_same(x, y) for x, y in zip(a, b))
    if isinstance(a, tg.Obj):
        return deep_same(a.__dict__, b.__dict__)
    return a == b


SPEC_KINDS = ('path', 'T', 'dict', 'list', 'tuple', 'pipe', 'probe', 'val', 'spec', 'coalesce', 'call', 'invoke', 'ref', 'refuse')


def evaluate(target, spec):
    try:
        return ('ok', glom.glom(target, spec))
    except Exception as e:
        return ('err', e)


def check(recipe, ctx):
    r = recipe['spec']
    rlog, glog = [], []
    rt = tg.build(recipe['target']).obj
    try:
        exp = ('ok', refauto(r, rt, rlog, {}))
    except RefErr as e:
        exp = ('err', e)
    gt = tg.build(recipe['target']).obj
    snap = tg.snapshot(gt)
    spec = build(r, glog)
    ks = kinds(r) & set(SPEC_KINDS)
    sentinel = exp[0] == 'ok' and (exp[1] is SKIP or exp[1] is STOP)
    text = repr(r)
    ctx.label('exp-' + exp[0])
    for k in ks:
        ctx.label('has-' + k)
    if "'later'" in repr(recipe):
        ctx.label('invoke-derived-later')
    had_skipstop = "'skip'" in text or "'stop'" in text
    if r[0] in ('tuple', 'pipe') and any(x[0] in ('tuple', 'pipe') and ("'stop'" in repr(x) or "'skip'" in repr(x)) for x in r[1]):
        ctx.label('nested-chain-sentinel')
    ctx.nontrivial((depth(r) >= 2 and len(ks) >= 2) or had_skipstop or "'coalesce'" in text)
    where = 'spec=%r target=%r' % (spec, gt)
    got = evaluate(gt, spec)
    if exp[0] == 'ok':
        if got[0] != 'ok':
            raise Mismatch('spurious-error', '%s: expected %r, glom raised %s: %s'
                           % (where, exp[1], type(got[1]).__name__, str(got[1]).splitlines()[-1][:200]))
        if not (exp[1] is got[1] if (exp[1] is SKIP or exp[1] is STOP) else deep_same(got[1], exp[1])):
            raise Mismatch('wrong-result', '%s: expected %r, got %r' % (where, exp[1], got[1]))
    else:
        if got[0] != 'err':
            raise Mismatch('missing-error', '%s: expected %s (%s), glom returned %r'
                           % (where, exp[1].cls.__name__, exp[1].why, got[1]))
        if not isinstance(got[1], exp[1].cls):
            raise Mismatch('wrong-error-class', '%s: expected %s (%s), glom raised %s: %s'
                           % (where, exp[1].cls.__name__, exp[1].why, type(got[1]).__name__,
                              str(got[1]).splitlines()[-1][:200]))
    # every probe called exactly as often, with the same argument, in the same order
    if glog != rlog:
        raise Mismatch('evaluation-order', '%s: expected probe calls %r, observed %r' % (where, rlog, glog))
    d = tg.snapshot_diff(snap, tg.snapshot(gt))
    if d:
        raise Mismatch('target-mutated', '%s: %s' % (where, d))
    # ---- metamorphic: wrappers that must not change anything
    if exp[0] == 'ok':
        for name, wrapped in (('Spec(x)', ['spec', r]), ('(x,)', ['tuple', [r]]), ('Pipe(x)', ['pipe', [r]])):
            log2 = []
            got2 = evaluate(tg.build(recipe['target']).obj, build(wrapped, log2))
            expect2 = exp[1]
            if name != 'Spec(x)' and (exp[1] is SKIP or exp[1] is STOP):
                expect2 = rt       # a skipped / stopped single step leaves the target
                if got2[0] == 'ok' and deep_same(got2[1], gt):
                    continue
            if got2[0] != 'ok' or not (got2[1] is expect2 if (expect2 is SKIP or expect2 is STOP) else deep_same(got2[1], expect2)):
                raise Mismatch('wrapper-changes-result', '%s of %s: expected %r, got %r' % (name, where, expect2, got2))
            if log2 != rlog:
                raise Mismatch('wrapper-changes-evaluation', '%s of %s: probe calls %r vs %r' % (name, where, log2, rlog))
    # ---- metamorphic: glom(t, (a, b)) == glom(glom(t, a), b)
    if r[0] in ('tuple', 'pipe') and len(r[1]) == 2 and exp[0] == 'ok':
        a, b = r[1]
        la = []
        ta = tg.build(recipe['target']).obj
        mid = evaluate(ta, build(a, la))
        if mid[0] == 'ok' and mid[1] is not SKIP and mid[1] is not STOP:
            two = evaluate(mid[1], build(b, la))
            if two[0] == 'ok' and two[1] is not SKIP and two[1] is not STOP:
                if not deep_same(two[1], got[1]):
                    raise Mismatch('not-compositional', '%s: glom(t, (a, b)) = %r but glom(glom(t, a), b) = %r'
                                   % (where, got[1], two[1]))
                ctx.label('composition-checked')
    ctx.outcome([repr(spec)[:140], exp[0]])


def check_val_identity(recipe, ctx):
    """glom(t, Val(v)) is v ; Val inside containers keeps identity as well"""
    v = tg.build(recipe['value']).obj
    ctx.nontrivial(True)
    for spec, pick in ((Val(v), lambda r: r), ({'k': Val(v)}, lambda r: r['k']), ((T, Val(v)), lambda r: r),
                       (Coalesce('nope', Val(v)), lambda r: r), (Spec(Val(v)), lambda r: r)):
        got = glom.glom({'a': 1}, spec)
        if pick(got) is not v:
            raise Mismatch('val-identity', 'glom(t, %r) does not return the Val object itself' % (spec,))
    ctx.outcome(repr(v))


def enum_vals(tier):
    for l in LITS + [['dict', [['a', ['list', []]]]], ['obj', [['a', ['i', 1]]]]]:
        yield {'value': l}


SUBS = [
    Sub('auto', check, gen=gen, quick=5000, thorough=20000,
        floors={'exp-ok': 0.5, 'exp-err': 0.02, 'has-coalesce': 0.05, 'has-dict': 0.12, 'has-list': 0.08,
                'has-invoke': 0.03, 'invoke-derived-later': 0.004, 'has-ref': 0.03, 'nested-chain-sentinel': 0.02, 'composition-checked': 0.01}),
    Sub('val-identity', check_val_identity, enum=enum_vals),
    fuzzrun.fuzz_sub('fuzz-auto', 'hyp:c03:auto', runs=30000, campaigns=4, replay_sub='auto'),
]
