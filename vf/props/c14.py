"""C14 — Wildcards enumerate children / descendants once, tolerate misses, terminate.

Sub-checks
  read     object graphs (shared nodes, back-edges / cycles, strings, sets, tuples, attribute objects,
           containers whose element access or iteration raises, list / tuple / namedtuple subclasses whose
           instances have a __dict__, mappings that re-order themselves when read, keyed stores of a type that is not
           a dict and is registered with keys= / get= whose reads re-order or extend them, attribute objects whose
           attribute reads re-order or extend their own __dict__, instances of str / bytes / int / float subclasses
           that carry instance attributes) x paths with 1-3 wildcards at every position, spelled as dotted string,
           Path(..., T.__star__(), ...) and pure T, followed by ordinary segments that exist only under some entries
  mutate   Assign / Delete through 1-3 wildcards on recording containers (inner nodes also: list subclasses with a
           __dict__, self-re-ordering mappings, str / int / ... subclass instances whose attributes hold the sub-trees)

Oracle: refstar() - breadth-first enumeration with an identity-keyed visited set that includes the start value.
Termination is decided without a clock: every container of the generated graph is a recording
subclass sharing one access log with a budget; exceeding it raises a BaseException.
"""
import os
import operator
import collections
from reprlib import recursive_repr

from hypothesis import strategies as st

import glom
from glom import Path, T, GlomError, PathAccessError, Assign, Delete

from .. import boot
from .. import fuzzrun
from ..runner import Sub, Mismatch, HarnessBug
from .. import targets as tg

PROPERTY = 'C14'
RULE = ('graphs: recipes over recording dict/list/object containers, tuples, sets, strings and atoms with shared '
        'nodes and back-edges (cycles to the root or an inner node), plus containers whose item access / iteration raises, '
        'list / tuple / namedtuple subclasses whose instances have a __dict__ (with and without instance attributes) and '
        'OrderedDict subclasses that move a key to the end when it is read (the LRU recipe), keyed stores that are no dict subclass '
        '(known to a Glommer through register(keys=, get=)) and attribute objects whose element read moves the key to the end / the '
        'front or adds an entry to the container being read, instances of str / bytes / int / float subclasses with instance '
        'attributes (attribute-style objects that are also "scalars"); '
        'paths: 1-4 segments with 1-3 wildcards (* and **, at most one **-after-** to bound output size) in string, Path and T '
        'spelling. Non-trivial = graph with a shared or cyclic node, or >= 2 wildcards, or a miss after a wildcard.')
ASSUMPTIONS = [
    'children(v): mapping values | attribute values of objects with __dict__ | items of iterables other than str/bytes, in the object\'s own order',
    'entries are compared by identity (atoms by equality)',
    'a list / tuple (sub)class instance is a sequence: its children are its items, whatever instance attributes it carries '
    '(the statement names "sequence items" for sequences; glom indexes such values everywhere else). Other objects that are both '
    'attribute-bearing and iterable are not generated (the statement does not order the two readings)',
    'a mapping that re-orders itself when read has one child per key, in the order of the keys when the step starts; the reference keeps '
    'its own model of the key order (reads in path order, entry by entry) and never reads through the mapping\'s own __getitem__',
    'the same holds for a container whose read EXTENDS it (a store or attribute object that notes its first read in an entry of '
    'its own): one child per key present when the step starts; what a read adds is a child for the steps that start later',
    'an instance of a str / bytes / int / float subclass that has a __dict__ is an attribute-style object: str / bytes are not '
    'iterated and numbers are not iterable, so "attribute values" is the only reading the statement offers; its children are '
    'the values of its instance attributes, for * and for ** alike, wherever ** meets it',
    'a type registered with keys= and get= (Glommer.register) is walked by its keys, one child get(value, key) per key',
    'S-rooted wildcards are outside the statement (targets only)',
]
BUDGET = 40000


class ErrDict(tg.RecDict):
    """dict whose item access raises for keys starting with 'bad'"""
    __slots__ = ()

    def __getitem__(self, k):
        if isinstance(k, str) and k.startswith('bad'):
            self._logit('getitem-raises', k)
            raise RuntimeError('no access to %r' % (k,))
        return tg.RecDict.__getitem__(self, k)


class ErrIter(object):
    """iterable whose iteration raises"""
    __slots__ = ()

    def __iter__(self):
        raise RuntimeError('cannot iterate')

    def __repr__(self):
        return '<ErrIter>'


class SubList(tg.RecList):
    """an ordinary list subclass: no __slots__, so its instances have a __dict__ (class L(list): pass); the access
    log lives in the slots inherited from RecList, the instance __dict__ holds only the generated attributes"""


class SubTuple(tuple):
    """an ordinary tuple subclass whose instances have a __dict__"""


class Pt(collections.namedtuple('Pt', 'x y')):
    """the usual "namedtuple + methods" idiom: a namedtuple subclass without __slots__"""

    def norm(self):
        return 0


SEQSUB = (SubList, SubTuple, Pt)


class LRU(tg.OrderedDict):
    """the LRU recipe of the `collections` documentation: reading an item moves its key to the end"""
    __slots__ = ('_log', '_nid')

    def _logit(self, *entry):
        log = getattr(self, '_log', None)
        if log is not None:
            log.append((getattr(self, '_nid', None),) + entry)

    def __getitem__(self, k):
        self._logit('getitem', k)
        v = tg.OrderedDict.__getitem__(self, k)
        self.move_to_end(k)
        return v

    def __setitem__(self, k, v):
        self._logit('setitem', k)
        return tg.OrderedDict.__setitem__(self, k, v)

    def __delitem__(self, k):
        self._logit('delitem', k)
        return tg.OrderedDict.__delitem__(self, k)

    @recursive_repr()
    def __repr__(self):
        # (OrderedDict.__repr__ reads the items through __getitem__: it would re-order the mapping)
        return 'LRU(%s)' % ', '.join('%s=%r' % (k, dict.__getitem__(self, k)) for k in tg.OrderedDict.__iter__(self))

    __hash__ = None


def read_effect(mode, d, k):
    """what a successful read of d[k] does to the storage d of a self-modifying fixture (Store, TouchObj); a failing read
    raises KeyError before anything is changed.  The fixtures apply it to their real storage, the reference to its own copy"""
    val = d[k]
    if mode == 'mte':                   # least-recently-used order: the key that was read moves to the end
        d[k] = d.pop(k)
    elif mode == 'mtf':                 # most-recently-used first
        d.move_to_end(k, last=False)
    elif mode == 'mark':                # the first read is noted in an entry of the container itself
        d.setdefault('seen', True)
    else:
        raise ValueError('bad mode %r' % (mode,))
    return val


class Store(object):
    """a keyed store that is NOT a dict (sub)class and not iterable: glom knows it only through
    Glommer.register(Store, keys=Store.keys, get=operator.getitem).  keys() is a live view of the underlying OrderedDict,
    as dict.keys() is; a read re-orders or extends the store (read_effect)"""
    __slots__ = ('_d', '_mode', '_log', '_nid')

    def __init__(self, mode):
        self._d = tg.OrderedDict()
        self._mode = mode
        self._log = None
        self._nid = None

    def keys(self):
        return self._d.keys()

    def __getitem__(self, k):
        if self._log is not None:
            self._log.append((self._nid, 'getitem', k))
        return read_effect(self._mode, self._d, k)

    @recursive_repr()
    def __repr__(self):
        return 'Store[%s](%s)' % (self._mode, ', '.join('%s=%r' % kv for kv in self._d.items()))

    __hash__ = None


class TouchObj(tg.RecObj):
    """an attribute-style object whose reads of public attributes re-order or extend its own __dict__ (an auditing /
    lazily initialising __getattribute__)"""
    __slots__ = ('_mode',)

    def __getattribute__(self, name):
        if name.startswith('_'):
            return object.__getattribute__(self, name)
        tg.RecObj.__getattribute__(self, name)          # (logs the read; AttributeError for a missing attribute)
        return read_effect(object.__getattribute__(self, '_mode'), object.__getattribute__(self, '__dict__'), name)

    @recursive_repr()
    def __repr__(self):
        return 'TouchObj[%s](%s)' % (self._mode, ', '.join('%s=%r' % kv for kv in self.__dict__.items()))


SELFMOD = (Store, TouchObj)


class Tag(str):
    """a 'smart string': a str subclass whose instances carry attributes"""


class Blob(bytes):
    """a bytes subclass whose instances carry attributes"""


class Px(int):
    """a number with attributes (as IntEnum-like members are)"""


class Ratio(float):
    """a float subclass whose instances carry attributes"""


SCALSUB = (Tag, Blob, Px, Ratio)
SCALSUB_TAGS = {'sstr': Tag, 'sbytes': Blob, 'sint': Px, 'sfloat': Ratio}

_GLOMMER = []


def glommer():
    """the Glommer that knows Store (made on first use; the module-level registry is left alone)"""
    if not _GLOMMER:
        gl = glom.Glommer()
        gl.register(Store, keys=Store.keys, get=operator.getitem)
        _GLOMMER.append(gl)
    return _GLOMMER[0]


def build_graph(r):
    """tg recipe extended with ["edict", entries], ["eiter"], ["lru", entries], the sequence subclasses
    ["lsub", items, attrs], ["tsub", items, attrs], ["ntsub", [x, y], attrs] (attrs: [[name, R], ...] instance attributes),
    the self-modifying ["store", mode, entries] / ["tobj", mode, attrs] and the scalar subclasses
    ["sstr", text, attrs], ["sbytes", latin1-text, attrs], ["sint", n, attrs], ["sfloat", x, attrs]"""
    b = tg.Built()
    b.obj = _build(r, b)
    b.log.budget = BUDGET
    return b


def _build(r, b):
    tag = r[0]
    if tag == 'edict':
        c = ErrDict()
        nid = len(b.nodes)
        b.nodes.append(c)
        for k, v in r[1]:
            dict.__setitem__(c, k, _build(v, b))
        c._log, c._nid = b.log, nid
        return c
    if tag == 'eiter':
        return ErrIter()
    if tag == 'lru':
        c = LRU()
        nid = len(b.nodes)
        b.nodes.append(c)
        for k, v in r[1]:
            tg.OrderedDict.__setitem__(c, k, _build(v, b))
        c._log, c._nid = b.log, nid
        return c
    if (tag == 'store' and r[1] not in STORE_MODES) or (tag == 'tobj' and r[1] not in TOBJ_MODES):
        raise HarnessBug('bad mode in recipe %r' % (r[:2],))
    if tag == 'store':
        c = Store(r[1])
        nid = len(b.nodes)
        b.nodes.append(c)
        for k, v in r[2]:
            c._d[k] = _build(v, b)
        c._log, c._nid = b.log, nid
        return c
    if tag == 'tobj':
        c = TouchObj()
        object.__setattr__(c, '_mode', r[1])
        nid = len(b.nodes)
        b.nodes.append(c)
        for k, v in r[2]:
            c.__dict__[k] = _build(v, b)
        object.__setattr__(c, '_log', b.log)
        object.__setattr__(c, '_nid', nid)
        return c
    if tag in SCALSUB_TAGS:
        c = SCALSUB_TAGS[tag](r[1].encode('latin1') if tag == 'sbytes' else r[1])
        b.nodes.append(c)
        for k, v in r[2]:
            c.__dict__[k] = _build(v, b)
        return c
    if tag == 'lsub':
        c = SubList()
        nid = len(b.nodes)
        b.nodes.append(c)
        for v in r[1]:
            list.append(c, _build(v, b))
        for k, v in r[2]:
            c.__dict__[k] = _build(v, b)
        c._log, c._nid = b.log, nid
        return c
    if tag in ('tsub', 'ntsub'):
        items = [_build(v, b) for v in r[1]]
        c = SubTuple(items) if tag == 'tsub' else Pt(*items)
        for k, v in r[2]:
            c.__dict__[k] = _build(v, b)
        return c
    if tag in ('rdict', 'dict', 'odict'):
        c = tg.RecDict()
        nid = len(b.nodes)
        b.nodes.append(c)
        for k, v in r[1]:
            dict.__setitem__(c, k, _build(v, b))
        c._log, c._nid = b.log, nid
        return c
    if tag == 'plist':
        return [_build(v, b) for v in r[1]]        # a PLAIN list (exact type list), not recorded
    if tag in ('rlist', 'list'):
        c = tg.RecList()
        nid = len(b.nodes)
        b.nodes.append(c)
        for v in r[1]:
            list.append(c, _build(v, b))
        c._log, c._nid = b.log, nid
        return c
    if tag in ('robj', 'obj'):
        c = tg.RecObj()
        nid = len(b.nodes)
        b.nodes.append(c)
        for k, v in r[1]:
            c.__dict__[k] = _build(v, b)
        object.__setattr__(c, '_log', b.log)
        object.__setattr__(c, '_nid', nid)
        return c
    if tag == 'tuple':
        return tuple(_build(v, b) for v in r[1])
    if tag in ('set', 'fset'):
        vals = [_build(v, b) for v in r[1]]
        vals = [v for v in vals if isinstance(v, tg._ATOM)]
        return set(vals) if tag == 'set' else frozenset(vals)
    if tag == 'ref':
        if not b.nodes:
            return None
        return b.nodes[r[1] % len(b.nodes)]
    return tg._build(r, b)


KEYS = ['a', 'b', 'k', 'z']


ATTRS = ['a', 'p']          # instance attributes of the sequence subclasses ('a' is also a path segment)
STORE_MODES = ['mte', 'mte', 'mtf', 'mark']
TOBJ_MODES = ['mark', 'mark', 'mte']
SCALSUB_VALUES = [['sstr', 'xy'], ['sstr', 'h1'], ['sstr', ''], ['sint', 0], ['sint', 7], ['sint', 7], ['sfloat', 2.5], ['sbytes', 'x']]


def gen_graph(draw, depth=4, ext=False):
    """ext=True adds the classes LRU / Store / TouchObj / SubList / SubTuple / Pt and the scalar subclasses Tag / Blob / Px /
    Ratio as nodes anywhere in the graph (every draw they need is made only then: the stream of the callers in other
    modules, which use the default, is unchanged)"""
    count = [0]

    def attrs(d):
        if draw(st.booleans()):
            return []
        ks = draw(st.lists(st.sampled_from(ATTRS), min_size=1, max_size=2, unique=True))
        return [[k, node(d - 1)] for k in ks]

    def atom():
        return draw(st.sampled_from([['i', 1], ['i', 2], ['s', 'xy'], ['none'], ['f', 3.5], ['tuple', []],
                                     ['fset', [['i', 1]]], ['s', ''], ['eiter'], ['set', [['i', 1], ['i', 2]]]]))

    def node(d):
        r = draw(st.integers(0, 99))
        if count[0] and r < 14:
            return ['ref', draw(st.integers(0, count[0] - 1))]
        if ext and r < 32 and draw(st.sampled_from(range(3))) == 0:
            # a "scalar" with instance attributes; below the root by construction, so a ** meets it as a descendant
            count[0] += 1
            tag, val = draw(st.sampled_from(SCALSUB_VALUES))
            ks = draw(st.sampled_from([[], ['a'], ['p'], ['a'], ['a', 'p'], ['p', 'a']]))
            return [tag, val, [[k, node(d - 1)] for k in ks]]
        if d <= 0 or r < 32:
            return atom()
        sel = draw(st.sampled_from(range(12))) if ext and r < 60 else None
        if sel is not None and sel < 3:
            count[0] += 1
            ks = draw(st.lists(st.sampled_from(KEYS), min_size=2, max_size=4, unique=True))
            return ['lru', [[k, node(d - 1)] for k in ks]]
        if sel is not None and sel < 5:
            count[0] += 1
            mode = draw(st.sampled_from(STORE_MODES))
            ks = draw(st.lists(st.sampled_from(KEYS), min_size=2, max_size=4, unique=True))
            return ['store', mode, [[k, node(d - 1)] for k in ks]]
        if ext and 80 <= r < 90 and draw(st.sampled_from(range(2))) == 0:
            count[0] += 1
            mode = draw(st.sampled_from(TOBJ_MODES))
            ks = draw(st.lists(st.sampled_from(['a', 'k', 'b', 'p']), min_size=2, max_size=3, unique=True))
            return ['tobj', mode, [[k, node(d - 1)] for k in ks]]
        if ext and 60 <= r < 80 and draw(st.sampled_from(range(3))) == 0:
            count[0] += 1
            items = [node(d - 1) for _ in range(draw(st.sampled_from([0, 1, 2, 2, 3])))]
            return ['lsub', items, attrs(d)]
        if ext and r >= 90 and draw(st.sampled_from(range(3))) > 0:
            if draw(st.booleans()):
                return ['ntsub', [node(d - 1), node(d - 1)], attrs(d)]
            return ['tsub', [node(d - 1) for _ in range(draw(st.integers(0, 2)))], attrs(d)]
        if r < 60:
            count[0] += 1
            tag = 'edict' if draw(st.integers(0, 7)) == 0 else 'rdict'
            ks = draw(st.lists(st.sampled_from(KEYS + (['bad1', 'bad2'] if tag == 'edict' else [])),
                               max_size=3, unique=True))
            return [tag, [[k, node(d - 1)] for k in ks]]
        if r < 80:
            count[0] += 1
            return ['rlist', [node(d - 1) for _ in range(draw(st.integers(0, 3)))]]
        if r < 90:
            count[0] += 1
            ks = draw(st.lists(st.sampled_from(['a', 'k']), max_size=2, unique=True))
            return ['robj', [[k, node(d - 1)] for k in ks]]
        return ['tuple', [node(d - 1) for _ in range(draw(st.integers(0, 2)))]]

    g = node(depth)
    if g[0] not in ('rdict', 'rlist', 'robj', 'edict', 'lru', 'lsub', 'store', 'tobj'):
        count[0] += 1
        g = ['rdict', [['a', g], ['k', node(depth - 1)]]]
    return g


def gen_read(draw, ext=False):
    g = gen_graph(draw, ext=ext)
    n = draw(st.integers(1, 4))
    segs = [draw(st.sampled_from(['*', '*', '**', 'a', 'k', '0', 'z', 'b'])) for _ in range(n)]
    if not any(s in ('*', '**') for s in segs):
        segs[draw(st.integers(0, n - 1))] = draw(st.sampled_from(['*', '**']))
    while segs.count('**') > 2:
        segs[segs.index('**')] = '*'
    while segs.count('*') + segs.count('**') > 3:
        i = [j for j, s in enumerate(segs) if s in ('*', '**')][-1]
        segs[i] = 'a'
    return {'graph': g, 'segs': segs}


def gen_read_ext(draw):
    return gen_read(draw, ext=True)


# ---------------------------------------------------------------------------
# reference

ACCESS_ERRORS = (KeyError, IndexError, AttributeError, TypeError, ValueError)


class Model(object):
    """state of one reference walk: the key order of every self-re-ordering mapping (taken from the object, without reading
    through it, the first time the walk touches it; from then on maintained by the walk's own reads) and the containers of
    the generated special classes that a wildcard enumerated"""

    def __init__(self):
        self.order = {}
        self.enumerated = []
        self.state = {}         # id(Store / TouchObj) -> the walk's own copy of its storage (key -> child, in key order)
        self.selfmod = []       # (container, number of children, did a read of that enumeration change its key list)
        self.expanded = []      # scalar-subclass instances with children that a ** expanded as DESCENDANTS

    def storage(self, v):
        """the walk's model of the storage of a Store / TouchObj: copied from the object (not through its reading
        methods) the first time the walk touches it, from then on changed only by the walk's own reads"""
        s = self.state.get(id(v))
        if s is None:
            if isinstance(v, Store):
                s = tg.OrderedDict(Store._d.__get__(v))
            else:
                s = dict(object.__getattribute__(v, '__dict__'))
            self.state[id(v)] = s
        return s

    def read_selfmod(self, v, k):
        return read_effect(object.__getattribute__(v, '_mode'), self.storage(v), k)

    def keys(self, v):
        o = self.order.get(id(v))
        if o is None:
            o = self.order[id(v)] = list(tg.OrderedDict.__iter__(v))
        return o

    def read(self, v, k):
        """value of v[k]; a successful read moves k to the end (a failing one raises before that)"""
        val = dict.__getitem__(v, k)
        o = self.keys(v)
        o.remove(k)
        o.append(k)
        return val


def children(v, m=None):
    if m is None:
        m = Model()
    if isinstance(v, SELFMOD):
        # one child per key present when the step starts, in the order they have then
        held = m.storage(v)
        out, changed = [], False
        for k in list(held):
            before = list(held)
            out.append(m.read_selfmod(v, k))
            changed = changed or list(held) != before
        m.selfmod.append((v, len(out), changed))
        return out
    if isinstance(v, LRU):
        m.enumerated.append(v)
        # one child per key, keys as they are ordered when the step starts
        return [m.read(v, k) for k in list(m.keys(v))]
    if isinstance(v, dict):
        out = []
        for k in dict.keys(v):
            if isinstance(v, ErrDict) and isinstance(k, str) and k.startswith('bad'):
                continue            # access raises: that child is skipped, the others are kept
            out.append(dict.__getitem__(v, k))
        return out
    if isinstance(v, SCALSUB):
        # an attribute-style object (str / bytes are not iterated, numbers are not iterable): its attribute values
        m.enumerated.append(v)
        return list(v.__dict__.values())
    if isinstance(v, (str, bytes)):
        return []
    if isinstance(v, SEQSUB):
        m.enumerated.append(v)      # (a sequence: falls through to the list / tuple rule)
    if isinstance(v, list):
        return list(list.__iter__(v))
    if isinstance(v, (tuple, set, frozenset)):
        return list(v)
    if isinstance(v, ErrIter):
        return []
    d = getattr(v, '__dict__', None)
    if isinstance(d, dict) and not isinstance(v, type):
        return [c for k, c in d.items() if not k.startswith('_')]
    return []


def get(v, seg, m=None):
    if isinstance(v, SELFMOD):
        try:
            return (m or Model()).read_selfmod(v, seg)
        except KeyError:
            raise (KeyError if isinstance(v, Store) else AttributeError)(seg)
    if isinstance(v, LRU):
        return (m or Model()).read(v, seg)
    if isinstance(v, dict):
        if isinstance(v, ErrDict) and isinstance(seg, str) and seg.startswith('bad'):
            raise KeyError(seg)
        return dict.__getitem__(v, seg)
    if isinstance(v, (list, tuple)):
        return (list if isinstance(v, list) else tuple).__getitem__(v, int(seg))
    if isinstance(v, tg.RecObj):
        if seg.startswith('_'):
            raise AttributeError(seg)
        try:
            return v.__dict__[seg]
        except KeyError:
            raise AttributeError(seg)
    return getattr(v, seg)


def descendants(v, m=None):
    if m is None:
        m = Model()
    items = list(children(v, m))
    seen = {id(v)}                      # the start value counts as visited
    i = 0
    while i < len(items):
        it = items[i]
        i += 1
        if id(it) not in seen:
            seen.add(id(it))
            ch = children(it, m)
            if ch and isinstance(it, SCALSUB):
                m.expanded.append(it)
            items.extend(ch)
        if len(items) > 200000:
            raise MemoryError('reference blow-up')
    return [v] + items


def refstar(v, segs, m=None):
    if m is None:
        m = Model()
    if not segs:
        return v
    s, rest = segs[0], segs[1:]
    if s in ('*', '**'):
        out = []
        for c in (children(v, m) if s == '*' else descendants(v, m)):
            try:
                out.append(refstar(c, rest, m))
            except ACCESS_ERRORS:
                pass
        return out
    return refstar(get(v, s, m), rest, m)


def enum_labels(m):
    """which of the generated special classes did a wildcard enumerate (with enough children for a loss to show)"""
    out = set()
    for v, n, changed in m.selfmod:
        if n >= 2 and changed:
            out.add('enum-selfmod-store' if isinstance(v, Store) else 'enum-selfmod-obj')
            out.add('enum-selfmod-' + object.__getattribute__(v, '_mode'))
    if m.expanded:
        out.add('starstar-expands-scalarsub')
    for v in m.enumerated:
        if isinstance(v, LRU):
            if len(v) >= 2:
                out.add('enum-lru')
        elif isinstance(v, SCALSUB):
            if v.__dict__:
                out.add('enum-scalarsub')
        elif len(v) >= 1:
            out.add('enum-seqsub-attrs' if v.__dict__ else 'enum-seqsub-bare')
            if isinstance(v, Pt):
                out.add('enum-namedtuple-sub')
    return sorted(out)


def pristine(v):
    """diagnosis only: a shallow copy of a Store / TouchObj as it was before its first read (other values: themselves)"""
    if not isinstance(v, SELFMOD):
        return v
    mode = object.__getattribute__(v, '_mode')
    if isinstance(v, Store):
        c, src, dst = Store(mode), Store._d.__get__(v), None
        dst = c._d
    else:
        c, src = TouchObj(), object.__getattribute__(v, '__dict__')
        object.__setattr__(c, '_mode', mode)
        dst = c.__dict__
    for k, val in src.items():
        if not (mode == 'mark' and k == 'seen'):
            dst[k] = val
    return c


def blame(m):
    """diagnosis only (it names the bucket of a mismatch that was already established): the first special-class container
    of the walk whose own '*' enumeration differs from children()"""
    for v in [x[0] for x in m.selfmod] + m.enumerated:
        name = ('-store' if isinstance(v, Store) else '-touchobj' if isinstance(v, TouchObj) else '-lru' if isinstance(v, LRU)
                else '-scalarsub' if isinstance(v, SCALSUB) else '-seqsub')
        v = pristine(v)
        exp = children(v)
        try:
            got = glommer().glom(v, '*')
        except Exception:
            return name
        if not same_nested(got, exp, 1):
            return name
    for v in m.expanded:
        box = [v]
        try:
            got = glommer().glom(box, '**')
        except Exception:
            return '-scalarsub-below-starstar'
        if not same_nested(got, descendants(box), 1):
            return '-scalarsub-below-starstar'
    return ''


def same_nested(a, b, levels):
    if levels == 0:
        if isinstance(a, SCALSUB) or isinstance(b, SCALSUB):
            return a is b           # (they carry attributes: the very object, not an equal one)
        return tg.same(a, b)
    if not (type(a) is list and type(b) is list and len(a) == len(b)):
        return False
    return all(same_nested(x, y, levels - 1) for x, y in zip(a, b))


def size(v, levels):
    if levels == 0:
        return 1
    return sum(size(x, levels - 1) for x in v)


def make_specs(segs):
    out = [('str', '.'.join(segs))]
    parts = [T.__star__() if s == '*' else T.__starstar__() if s == '**' else s for s in segs]
    out.append(('path', Path(*parts)))
    t = T
    ok = True
    for s in segs:
        if s == '*':
            t = t.__star__()
        elif s == '**':
            t = t.__starstar__()
        else:
            ok = False
    if ok:
        out.append(('t', t))
    # the same path rooted at a scope value: Path(S, 'root', <parts>) evaluated with scope={'root': graph}
    out.append(('s-rooted', Path(glom.S, 'root', *parts)))
    return out


def has_sharing(g):
    return "'ref'" in repr(g)


def has_lru(g):
    return "'lru'" in repr(g)


def has_store(g):
    return "'store'" in repr(g)


def has_selfmod(g):
    r = repr(g)
    return "'store'" in r or "'tobj'" in r


def settled(snap):
    """a snapshot without what the TouchObj fixtures do to themselves when read: the order of their attributes and the
    attribute 'seen' (atoms are left out: every parent still names the identity of each of its children)"""
    out = {}
    for i, (tname, val) in snap[1].items():
        if isinstance(val, str):
            continue
        if tname == 'TouchObj':
            val = sorted(x for x in val if x[0] != ('a', 'seen'))
        out[i] = (tname, val)
    return (snap[0], out)


def expect(g, segs):
    m = Model()
    try:
        return ('ok', refstar(g, segs, m)), m
    except ACCESS_ERRORS as e:
        return ('err', e), m


def check_read(recipe, ctx):
    segs = recipe['segs']
    b = build_graph(recipe['graph'])
    g = b.obj
    nwild = sum(1 for s in segs if s in ('*', '**'))
    try:
        exp, m = expect(g, segs)
    except (MemoryError, RecursionError):
        ctx.label('reference-too-big')
        return
    if exp[0] == 'ok' and size(exp[1], nwild) > 20000:
        ctx.label('reference-too-big')
        return
    snap = tg.snapshot(g)
    ctx.label('exp-' + exp[0], 'wild-%d' % nwild)
    ctx.label(*enum_labels(m))
    if has_sharing(recipe['graph']):
        ctx.label('shared-or-cyclic')
    if '**' in segs:
        ctx.label('starstar')
    first = min(i for i, s in enumerate(segs) if s in ('*', '**'))
    miss_after = exp[0] == 'ok' and len(segs) > first + 1
    ctx.nontrivial(has_sharing(recipe['graph']) or nwild >= 2 or miss_after)
    reordering = has_lru(recipe['graph'])
    selfmod = has_selfmod(recipe['graph'])
    # (a graph with a Store is evaluated by the Glommer the type is registered with, every other one by glom.glom)
    run = glommer().glom if has_store(recipe['graph']) else glom.glom
    for n, (name, spec) in enumerate(make_specs(segs)):
        if n and selfmod:
            # every spelling meets the stores / objects that note their first read as they were built
            b = build_graph(recipe['graph'])
            g = b.obj
            snap = tg.snapshot(g)
        if n and (reordering or selfmod):
            # the evaluation before this one may have left a self-re-ordering mapping in another order:
            # the expectation is taken from the graph as this evaluation finds it
            exp, m = expect(g, segs)
        where = 'spelling=%s path=%r graph=%r' % (name, segs, g)
        b.log.reset()
        try:
            if name == 's-rooted':
                ctx.label('s-rooted')
                got = ('ok', run({'unrelated': 1}, spec, scope={'root': g}))
            else:
                got = ('ok', run(g, spec))
        except PathAccessError as e:
            got = ('err', e)
        except tg.BudgetExceeded as e:
            raise Mismatch('non-termination', '%s: more than %d element accesses' % (where, BUDGET))
        except RecursionError as e:
            raise Mismatch('non-termination', '%s: RecursionError' % where)
        except Exception as e:
            raise Mismatch('unexpected-exception-class', '%s: %s: %r' % (where, type(e).__name__, e))
        if exp[0] == 'err':
            if got[0] != 'err':
                raise Mismatch('missing-error', '%s: the segment before the first wildcard fails (%r); glom returned %r'
                               % (where, exp[1], got[1]))
            continue
        if got[0] == 'err':
            raise Mismatch('spurious-error', '%s: expected %r, glom raised %r' % (where, exp[1], got[1]))
        if not same_nested(got[1], exp[1], nwild):
            raise Mismatch('wrong-entries' + blame(m), '%s: expected %r, got %r' % (where, exp[1], got[1]))
        after = tg.snapshot(g)
        d = tg.snapshot_diff(settled(snap), settled(after)) if selfmod else tg.snapshot_diff(snap, after)
        if d:
            raise Mismatch('target-mutated', '%s: %s' % (where, d))
    ctx.outcome([segs, exp[0], repr(exp[1])[:100]])


# ---------------------------------------------------------------------------
# Assign / Delete through wildcards

def gen_tree(draw, d, leaf='map', ext=False):
    """acyclic tree of recording containers whose leaves (depth d) are dicts / objects (or plain lists of numbers);
    ext=True: inner containers are also list subclasses with an instance __dict__, self-re-ordering mappings and
    instances of str / bytes / int / float subclasses whose attributes hold the sub-trees"""
    if d <= 0 and leaf == 'list':
        return ['plist', [['i', draw(st.integers(0, 9))] for _ in range(draw(st.integers(0, 3)))]]
    if d <= 0:
        tag = draw(st.sampled_from(['rdict', 'rdict', 'robj']))
        ks = draw(st.lists(st.sampled_from(['x', 'y']), max_size=2, unique=True))
        return [tag, [[k, ['i', draw(st.integers(0, 9))]] for k in ks]]
    tag = draw(st.sampled_from(['rdict', 'rlist', 'rlist', 'robj'] + (['lsub', 'lru', 'ssub'] if ext else [])))
    n = draw(st.integers(0, 3))
    if tag == 'ssub':
        # an inner node that is a str / int / ... subclass instance whose attributes hold the sub-trees
        tag, val = draw(st.sampled_from(SCALSUB_VALUES))
        ks = draw(st.lists(st.sampled_from(['a', 'b', 'k']), min_size=max(n, 1), max_size=max(n, 1), unique=True))
        return [tag, val, [[k, gen_tree(draw, d - 1, leaf, ext)] for k in ks]]
    if tag == 'rlist':
        return ['rlist', [gen_tree(draw, d - 1, leaf, ext) for _ in range(n)]]
    if tag == 'lsub':
        return ['lsub', [gen_tree(draw, d - 1, leaf, ext) for _ in range(n)],
                [['p', ['i', 7]]] if draw(st.booleans()) else []]
    ks = draw(st.lists(st.sampled_from(['a', 'b', 'k']), min_size=n, max_size=n, unique=True))
    return [tag, [[k, gen_tree(draw, d - 1, leaf, ext)] for k in ks]]


def gen_mutate_ext(draw):
    return gen_mutate(draw, ext=True)


def gen_mutate(draw, ext=False):
    nw = draw(st.integers(1, 3))
    extra = draw(st.integers(0, 1))          # ordinary segments between wildcards
    segs = []
    depth = 0
    for i in range(nw):
        if extra and i == 1:
            segs.append(draw(st.sampled_from(['a', 'k', '0'])))
            depth += 1
        segs.append('*')
        depth += 1
    if draw(st.integers(0, 5)) == 0 or (ext and draw(st.sampled_from(range(5))) == 0):
        segs[0] = '**'
    if draw(st.sampled_from(range(4))) == 0:
        # the matched entries are themselves plain LISTS and the final segment is an index into them
        return {'tree': gen_tree(draw, depth, 'list', ext), 'segs': segs, 'final': draw(st.sampled_from(['0', '0', '1', '2'])),
                'op': draw(st.sampled_from(['assign', 'assign', 'delete'])), 'ignore_missing': draw(st.booleans()),
                'api': draw(st.sampled_from(['func', 'spec'])), 'leaf': 'list'}
    return {'tree': gen_tree(draw, depth, ext=ext), 'segs': segs, 'final': draw(st.sampled_from(['x', 'y', 'new'])),
            'op': draw(st.sampled_from(['assign', 'assign', 'delete'])),
            'ignore_missing': draw(st.booleans()),
            'api': draw(st.sampled_from(['func', 'spec']))}


def flatten(v, levels):
    for _ in range(levels - 1):
        v = sum(v, [])
    return v


def check_mutate(recipe, ctx):
    segs, final, op = recipe['segs'], recipe['final'], recipe['op']
    nwild = sum(1 for s in segs if s in ('*', '**'))
    # reference on its own copy
    rb = build_graph(recipe['tree'])
    m = Model()
    entries = flatten(refstar(rb.obj, segs, m), nwild)
    exp_err = None
    rb.log.reset()
    ign = bool(recipe.get('ignore_missing')) and op == 'delete'
    for e in entries:
        try:
            if ign:
                # with ignore_missing=True an entry that lacks the element is skipped, the others are still deleted
                try:
                    if isinstance(e, dict):
                        del e[final]
                    elif isinstance(e, list):
                        del e[int(final)]
                    else:
                        delattr(e, final)
                except (KeyError, IndexError, AttributeError, ValueError):
                    pass
                continue
            if op == 'assign':
                if isinstance(e, dict):
                    e[final] = 'V'
                elif isinstance(e, list):
                    e[int(final)] = 'V'
                else:
                    setattr(e, final, 'V')
            else:
                if isinstance(e, dict):
                    del e[final]
                elif isinstance(e, list):
                    del e[int(final)]
                else:
                    delattr(e, final)
        except Exception as ex:
            exp_err = ex
            break
    exp_log = [x for x in rb.log if x[1] in ('setitem', 'delitem', 'setattr', 'delattr')]
    gb = build_graph(recipe['tree'])
    path = '.'.join(segs + [final])
    if ign:
        ctx.label('delete-ignore-missing')
    if recipe.get('leaf') == 'list':
        ctx.label('list-entries-index-final')
    ctx.label('op-' + op, 'wild-%d' % nwild, 'entries-%d' % min(len(entries), 3),
              'exp-err' if exp_err is not None else 'exp-ok')
    ctx.label(*enum_labels(m))
    ctx.nontrivial(nwild >= 2 or len(entries) >= 2)
    where = '%s %r on %r' % (op, path, gb.obj)
    gb.log.reset()
    try:
        if op == 'assign':
            res = glom.assign(gb.obj, path, 'V') if recipe['api'] == 'func' else glom.glom(gb.obj, Assign(path, 'V'))
        else:
            if ign:
                res = glom.delete(gb.obj, path, ignore_missing=True) if recipe['api'] == 'func' \
                    else glom.glom(gb.obj, Delete(path, ignore_missing=True))
            else:
                res = glom.delete(gb.obj, path) if recipe['api'] == 'func' else glom.glom(gb.obj, Delete(path))
        got_err = None
    except GlomError as e:
        got_err = e
    except tg.BudgetExceeded:
        raise Mismatch('non-termination', where)
    except Exception as e:
        raise Mismatch('unexpected-exception-class', '%s: %s: %r' % (where, type(e).__name__, e))
    got_log = [x for x in gb.log if x[1] in ('setitem', 'delitem', 'setattr', 'delattr')]
    if exp_err is None:
        if got_err is not None:
            raise Mismatch('spurious-error', '%s: every entry can be %sed, glom raised %r' % (where, op, got_err))
        if res is not gb.obj:
            raise Mismatch('wrong-return', '%s: must return the target' % where)
    else:
        if got_err is None:
            raise Mismatch('missing-error' + blame(m), '%s: entry fails with %r, glom raised nothing' % (where, exp_err))
    if got_log != exp_log:
        raise Mismatch('wrong-operations' + blame(m), '%s: expected operations %r, observed %r' % (where, exp_log, got_log))
    if tg.structure(gb.obj) != tg.structure(rb.obj):
        raise Mismatch('wrong-effect', '%s: expected %r, got %r' % (where, rb.obj, gb.obj))
    ctx.outcome([op, path, len(entries)])


# ---------------------------------------------------------------------------
# children that exist only while they are being enumerated: generators yielding fresh containers

def enum_lazychildren(tier):
    out = []
    for n in (3, 50, 200):
        for kind in ('dict', 'list', 'obj'):
            for tail in ('c', 'star'):
                out.append({'n': n, 'kind': kind, 'tail': tail})
    return out


def check_lazychildren(recipe, ctx):
    n, kind = recipe['n'], recipe['kind']

    def fresh(i):
        if kind == 'dict':
            return {'c': i}
        if kind == 'list':
            return [{'c': i}]
        o = tg.Obj()
        o.c = i
        return o

    def stage2():
        for i in range(n, 2 * n):
            yield fresh(i)

    def stage1():
        for i in range(n):
            yield fresh(i)
        yield stage2()
    spec = Path(T.__starstar__(), 'c') if recipe['tail'] == 'c' else Path(T.__starstar__(), T.__star__())
    got = glom.glom({'root': stage1()}, spec)
    if recipe['tail'] == 'c':
        exp = list(range(2 * n))
        if sorted(got) != exp:
            missing = sorted(set(exp) - set(got))
            raise Mismatch('wrong-entries', "glom({'root': <generator of %d fresh %ss, then a generator of %d more>}, '**.c'): %d of %d "
                           "descendants are missing (first: %r)" % (n, kind, n, len(missing), 2 * n, missing[:5]))
    else:
        flat = [x for sub in got for x in sub if isinstance(x, int)]
        if kind != 'list' and sorted(flat) != list(range(2 * n)):
            raise Mismatch('wrong-entries', "'**.*' over lazily produced %ss: expected the %d leaf values, got %d" % (kind, 2 * n, len(flat)))
    ctx.label('n-%d' % n)
    ctx.nontrivial(True)
    ctx.outcome([n, kind, recipe['tail']])


SUBS = [
    Sub('lazychildren', check_lazychildren, enum=enum_lazychildren),
    Sub('read', check_read, gen=gen_read_ext, quick=5000, thorough=15000,
        floors={'shared-or-cyclic': 0.2, 'starstar': 0.12, 'wild-2': 0.06, 'exp-ok': 0.5,
                'enum-lru': 0.045, 'enum-seqsub-bare': 0.022, 'enum-seqsub-attrs': 0.03, 'enum-namedtuple-sub': 0.014,
                # a wildcard enumerates a registered non-dict Store / an attribute object with >= 2 children whose reads
                # change its key list during that very enumeration (by mode: key moved to the end / the front, entry added)
                'enum-selfmod-store': 0.038, 'enum-selfmod-obj': 0.038, 'enum-selfmod-mark': 0.035, 'enum-selfmod-mte': 0.035,
                'enum-selfmod-mtf': 0.008,
                # a ** expands, as a DESCENDANT, an instance of a str / bytes / int / float subclass that has children
                'starstar-expands-scalarsub': 0.027, 'enum-scalarsub': 0.035}),
    Sub('mutate', check_mutate, gen=gen_mutate_ext, quick=2500, thorough=8000,
        floors={'wild-2': 0.06, 'wild-3': 0.1, 'exp-ok': 0.3, 'list-entries-index-final': 0.08,
                'enum-lru': 0.06, 'enum-seqsub-bare': 0.05, 'enum-seqsub-attrs': 0.03,
                'starstar-expands-scalarsub': 0.022, 'enum-scalarsub': 0.1}),
    fuzzrun.fuzz_sub('fuzz-path-text', 'c01-path-text', runs=20000, campaigns=4,
                     corpus=os.path.join(boot.VERIF, 'fuzz', 'corpus', 'c01-path-text'), replay_sub='read'),
]
