"""C14 — Wildcards enumerate children / descendants once, tolerate misses, terminate.

Sub-checks
  read     object graphs (shared nodes, back-edges / cycles, strings, sets, tuples, attribute objects,
           containers whose element access or iteration raises) x paths with 1-3 wildcards at every
           position, spelled as dotted string, Path(..., T.__star__(), ...) and pure T, followed by
           ordinary segments that exist only under some entries
  mutate   Assign / Delete through 1-3 wildcards on recording containers

Oracle: refstar() - breadth-first enumeration with an identity-keyed visited set that includes the start value.
Termination is decided without a clock: every container of the generated graph is a recording
subclass sharing one access log with a budget; exceeding it raises a BaseException.
"""
import os

from hypothesis import strategies as st

import glom
from glom import Path, T, GlomError, PathAccessError, Assign, Delete

from .. import boot
from .. import fuzzrun
from ..runner import Sub, Mismatch
from .. import targets as tg

PROPERTY = 'C14'
RULE = ('graphs: recipes over recording dict/list/object containers, tuples, sets, strings and atoms with shared '
        'nodes and back-edges (cycles to the root or an inner node), plus containers whose item access / iteration raises; '
        'paths: 1-4 segments with 1-3 wildcards (* and **, at most one **-after-** to bound output size) in string, Path and T '
        'spelling. Non-trivial = graph with a shared or cyclic node, or >= 2 wildcards, or a miss after a wildcard.')
ASSUMPTIONS = [
    'children(v): mapping values | attribute values of objects with __dict__ | items of iterables other than str/bytes, in the object\'s own order',
    'entries are compared by identity (atoms by equality)',
    'objects that are both attribute-bearing and iterable are not generated (the statement does not order the two readings)',
    'S-rooted wildcards are outside the statement (targets only)',
]
BUDGET = 40000


class ErrDict(tg.RecDict):
    """dict whose item access raises for keys starting with 'bad'"""
    __slots__ = ()

    def __getitem__(self, k):
        if isinstance(k, str) and k.startswith('bad'):
            self._logit('getitem-raises', k)
            raise RuntimeError('no access to %r' % (k,))
        return tg.RecDict.__getitem__(self, k)


class ErrIter(object):
    """iterable whose iteration raises"""
    __slots__ = ()

    def __iter__(self):
        raise RuntimeError('cannot iterate')

    def __repr__(self):
        return '<ErrIter>'


def build_graph(r):
    """tg recipe extended with ["edict", entries] and ["eiter"]"""
    b = tg.Built()
    b.obj = _build(r, b)
    b.log.budget = BUDGET
    return b


def _build(r, b):
    tag = r[0]
    if tag == 'edict':
        c = ErrDict()
        nid = len(b.nodes)
        b.nodes.append(c)
        for k, v in r[1]:
            dict.__setitem__(c, k, _build(v, b))
        c._log, c._nid = b.log, nid
        return c
    if tag == 'eiter':
        return ErrIter()
    if tag in ('rdict', 'dict', 'odict'):
        c = tg.RecDict()
        nid = len(b.nodes)
        b.nodes.append(c)
        for k, v in r[1]:
            dict.__setitem__(c, k, _build(v, b))
        c._log, c._nid = b.log, nid
        return c
    if tag == 'plist':
        return [_build(v, b) for v in r[1]]        # a PLAIN list (exact type list), not recorded
    if tag in ('rlist', 'list'):
        c = tg.RecList()
        nid = len(b.nodes)
        b.nodes.append(c)
        for v in r[1]:
            list.append(c, _build(v, b))
        c._log, c._nid = b.log, nid
        return c
    if tag in ('robj', 'obj'):
        c = tg.RecObj()
        nid = len(b.nodes)
        b.nodes.append(c)
        for k, v in r[1]:
            c.__dict__[k] = _build(v, b)
        object.__setattr__(c, '_log', b.log)
        object.__setattr__(c, '_nid', nid)
        return c
    if tag == 'tuple':
        return tuple(_build(v, b) for v in r[1])
    if tag in ('set', 'fset'):
        vals = [_build(v, b) for v in r[1]]
        vals = [v for v in vals if isinstance(v, tg._ATOM)]
        return set(vals) if tag == 'set' else frozenset(vals)
    if tag == 'ref':
        if not b.nodes:
            return None
        return b.nodes[r[1] % len(b.nodes)]
    return tg._build(r, b)


KEYS = ['a', 'b', 'k', 'z']


def gen_graph(draw, depth=4):
    count = [0]

    def atom():
        return draw(st.sampled_from([['i', 1], ['i', 2], ['s', 'xy'], ['none'], ['f', 3.5], ['tuple', []],
                                     ['fset', [['i', 1]]], ['s', ''], ['eiter'], ['set', [['i', 1], ['i', 2]]]]))

    def node(d):
        r = draw(st.integers(0, 99))
        if count[0] and r < 14:
            return ['ref', draw(st.integers(0, count[0] - 1))]
        if d <= 0 or r < 32:
            return atom()
        if r < 60:
            count[0] += 1
            tag = 'edict' if draw(st.integers(0, 7)) == 0 else 'rdict'
            ks = draw(st.lists(st.sampled_from(KEYS + (['bad1', 'bad2'] if tag == 'edict' else [])),
                               max_size=3, unique=True))
            return [tag, [[k, node(d - 1)] for k in ks]]
        if r < 80:
            count[0] += 1
            return ['rlist', [node(d - 1) for _ in range(draw(st.integers(0, 3)))]]
        if r < 90:
            count[0] += 1
            ks = draw(st.lists(st.sampled_from(['a', 'k']), max_size=2, unique=True))
            return ['robj', [[k, node(d - 1)] for k in ks]]
        return ['tuple', [node(d - 1) for _ in range(draw(st.integers(0, 2)))]]

    g = node(depth)
    if g[0] not in ('rdict', 'rlist', 'robj', 'edict'):
        count[0] += 1
        g = ['rdict', [['a', g], ['k', node(depth - 1)]]]
    return g


def gen_read(draw):
    g = gen_graph(draw)
    n = draw(st.integers(1, 4))
    segs = [draw(st.sampled_from(['*', '*', '**', 'a', 'k', '0', 'z', 'b'])) for _ in range(n)]
    if not any(s in ('*', '**') for s in segs):
        segs[draw(st.integers(0, n - 1))] = draw(st.sampled_from(['*', '**']))
    while segs.count('**') > 2:
        segs[segs.index('**')] = '*'
    while segs.count('*') + segs.count('**') > 3:
        i = [j for j, s in enumerate(segs) if s in ('*', '**')][-1]
        segs[i] = 'a'
    return {'graph': g, 'segs': segs}


# ---------------------------------------------------------------------------
# reference

ACCESS_ERRORS = (KeyError, IndexError, AttributeError, TypeError, ValueError)


def children(v):
    if isinstance(v, dict):
        out = []
        for k in dict.keys(v):
            if isinstance(v, ErrDict) and isinstance(k, str) and k.startswith('bad'):
                continue            # access raises: that child is skipped, the others are kept
            out.append(dict.__getitem__(v, k))
        return out
    if isinstance(v, (str, bytes)):
        return []
    if isinstance(v, list):
        return list(list.__iter__(v))
    if isinstance(v, (tuple, set, frozenset)):
        return list(v)
    if isinstance(v, ErrIter):
        return []
    d = getattr(v, '__dict__', None)
    if isinstance(d, dict) and not isinstance(v, type):
        return [c for k, c in d.items() if not k.startswith('_')]
    return []


def get(v, seg):
    if isinstance(v, dict):
        if isinstance(v, ErrDict) and isinstance(seg, str) and seg.startswith('bad'):
            raise KeyError(seg)
        return dict.__getitem__(v, seg)
    if isinstance(v, (list, tuple)):
        return (list if isinstance(v, list) else tuple).__getitem__(v, int(seg))
    if isinstance(v, tg.RecObj):
        if seg.startswith('_'):
            raise AttributeError(seg)
        try:
            return v.__dict__[seg]
        except KeyError:
            raise AttributeError(seg)
    return getattr(v, seg)


def descendants(v):
    items = list(children(v))
    seen = {id(v)}                      # the start value counts as visited
    i = 0
    while i < len(items):
        it = items[i]
        i += 1
        if id(it) not in seen:
            seen.add(id(it))
            items.extend(children(it))
        if len(items) > 200000:
            raise MemoryError('reference blow-up')
    return [v] + items


def refstar(v, segs):
    if not segs:
        return v
    s, rest = segs[0], segs[1:]
    if s in ('*', '**'):
        out = []
        for c in (children(v) if s == '*' else descendants(v)):
            try:
                out.append(refstar(c, rest))
            except ACCESS_ERRORS:
                pass
        return out
    return refstar(get(v, s), rest)


def same_nested(a, b, levels):
    if levels == 0:
        return tg.same(a, b)
    if not (type(a) is list and type(b) is list and len(a) == len(b)):
        return False
    return all(same_nested(x, y, levels - 1) for x, y in zip(a, b))


def size(v, levels):
    if levels == 0:
        return 1
    return sum(size(x, levels - 1) for x in v)


def make_specs(segs):
    out = [('str', '.'.join(segs))]
    parts = [T.__star__() if s == '*' else T.__starstar__() if s == '**' else s for s in segs]
    out.append(('path', Path(*parts)))
    t = T
    ok = True
    for s in segs:
        if s == '*':
            t = t.__star__()
        elif s == '**':
            t = t.__starstar__()
        else:
            ok = False
    if ok:
        out.append(('t', t))
    # the same path rooted at a scope value: Path(S, 'root', <parts>) evaluated with scope={'root': graph}
    out.append(('s-rooted', Path(glom.S, 'root', *parts)))
    return out


def has_sharing(g):
    return "'ref'" in repr(g)


def check_read(recipe, ctx):
    segs = recipe['segs']
    b = build_graph(recipe['graph'])
    g = b.obj
    nwild = sum(1 for s in segs if s in ('*', '**'))
    try:
        exp = ('ok', refstar(g, segs))
    except ACCESS_ERRORS as e:
        exp = ('err', e)
    except (MemoryError, RecursionError):
        ctx.label('reference-too-big')
        return
    if exp[0] == 'ok' and size(exp[1], nwild) > 20000:
        ctx.label('reference-too-big')
        return
    snap = tg.snapshot(g)
    ctx.label('exp-' + exp[0], 'wild-%d' % nwild)
    if has_sharing(recipe['graph']):
        ctx.label('shared-or-cyclic')
    if '**' in segs:
        ctx.label('starstar')
    first = min(i for i, s in enumerate(segs) if s in ('*', '**'))
    miss_after = exp[0] == 'ok' and len(segs) > first + 1
    ctx.nontrivial(has_sharing(recipe['graph']) or nwild >= 2 or miss_after)
    for name, spec in make_specs(segs):
        where = 'spelling=%s path=%r graph=%r' % (name, segs, g)
        b.log.reset()
        try:
            if name == 's-rooted':
                ctx.label('s-rooted')
                got = ('ok', glom.glom({'unrelated': 1}, spec, scope={'root': g}))
            else:
                got = ('ok', glom.glom(g, spec))
        except PathAccessError as e:
            got = ('err', e)
        except tg.BudgetExceeded as e:
            raise Mismatch('non-termination', '%s: more than %d element accesses' % (where, BUDGET))
        except RecursionError as e:
            raise Mismatch('non-termination', '%s: RecursionError' % where)
        except Exception as e:
            raise Mismatch('unexpected-exception-class', '%s: %s: %r' % (where, type(e).__name__, e))
        if exp[0] == 'err':
            if got[0] != 'err':
                raise Mismatch('missing-error', '%s: the segment before the first wildcard fails (%r); glom returned %r'
                               % (where, exp[1], got[1]))
            continue
        if got[0] == 'err':
            raise Mismatch('spurious-error', '%s: expected %r, glom raised %r' % (where, exp[1], got[1]))
        if not same_nested(got[1], exp[1], nwild):
            raise Mismatch('wrong-entries', '%s: expected %r, got %r' % (where, exp[1], got[1]))
        d = tg.snapshot_diff(snap, tg.snapshot(g))
        if d:
            raise Mismatch('target-mutated', '%s: %s' % (where, d))
    ctx.outcome([segs, exp[0], repr(exp[1])[:100]])


# ---------------------------------------------------------------------------
# Assign / Delete through wildcards

def gen_tree(draw, d, leaf='map'):
    """acyclic tree of recording containers whose leaves (depth d) are dicts / objects (or plain lists of numbers)"""
    if d <= 0 and leaf == 'list':
        return ['plist', [['i', draw(st.integers(0, 9))] for _ in range(draw(st.integers(0, 3)))]]
    if d <= 0:
        tag = draw(st.sampled_from(['rdict', 'rdict', 'robj']))
        ks = draw(st.lists(st.sampled_from(['x', 'y']), max_size=2, unique=True))
        return [tag, [[k, ['i', draw(st.integers(0, 9))]] for k in ks]]
    tag = draw(st.sampled_from(['rdict', 'rlist', 'rlist', 'robj']))
    n = draw(st.integers(0, 3))
    if tag == 'rlist':
        return ['rlist', [gen_tree(draw, d - 1, leaf) for _ in range(n)]]
    ks = draw(st.lists(st.sampled_from(['a', 'b', 'k']), min_size=n, max_size=n, unique=True))
    return [tag, [[k, gen_tree(draw, d - 1, leaf)] for k in ks]]


def gen_mutate(draw):
    nw = draw(st.integers(1, 3))
    extra = draw(st.integers(0, 1))          # ordinary segments between wildcards
    segs = []
    depth = 0
    for i in range(nw):
        if extra and i == 1:
            segs.append(draw(st.sampled_from(['a', 'k', '0'])))
            depth += 1
        segs.append('*')
        depth += 1
    if draw(st.integers(0, 5)) == 0:
        segs[0] = '**'
    if draw(st.sampled_from(range(4))) == 0:
        # the matched entries are themselves plain LISTS and the final segment is an index into them
        return {'tree': gen_tree(draw, depth, 'list'), 'segs': segs, 'final': draw(st.sampled_from(['0', '0', '1', '2'])),
                'op': draw(st.sampled_from(['assign', 'assign', 'delete'])), 'ignore_missing': draw(st.booleans()),
                'api': draw(st.sampled_from(['func', 'spec'])), 'leaf': 'list'}
    return {'tree': gen_tree(draw, depth), 'segs': segs, 'final': draw(st.sampled_from(['x', 'y', 'new'])),
            'op': draw(st.sampled_from(['assign', 'assign', 'delete'])),
            'ignore_missing': draw(st.booleans()),
            'api': draw(st.sampled_from(['func', 'spec']))}


def flatten(v, levels):
    for _ in range(levels - 1):
        v = sum(v, [])
    return v


def check_mutate(recipe, ctx):
    segs, final, op = recipe['segs'], recipe['final'], recipe['op']
    nwild = sum(1 for s in segs if s in ('*', '**'))
    # reference on its own copy
    rb = build_graph(recipe['tree'])
    entries = flatten(refstar(rb.obj, segs), nwild)
    exp_err = None
    rb.log.reset()
    ign = bool(recipe.get('ignore_missing')) and op == 'delete'
    for e in entries:
        try:
            if ign:
                # with ignore_missing=True an entry that lacks the element is skipped, the others are still deleted
                try:
                    if isinstance(e, dict):
                        del e[final]
                    elif isinstance(e, list):
                        del e[int(final)]
                    else:
                        delattr(e, final)
                except (KeyError, IndexError, AttributeError, ValueError):
                    pass
                continue
            if op == 'assign':
                if isinstance(e, dict):
                    e[final] = 'V'
                elif isinstance(e, list):
                    e[int(final)] = 'V'
                else:
                    setattr(e, final, 'V')
            else:
                if isinstance(e, dict):
                    del e[final]
                elif isinstance(e, list):
                    del e[int(final)]
                else:
                    delattr(e, final)
        except Exception as ex:
            exp_err = ex
            break
    exp_log = [x for x in rb.log if x[1] in ('setitem', 'delitem', 'setattr', 'delattr')]
    gb = build_graph(recipe['tree'])
    path = '.'.join(segs + [final])
    if ign:
        ctx.label('delete-ignore-missing')
    if recipe.get('leaf') == 'list':
        ctx.label('list-entries-index-final')
    ctx.label('op-' + op, 'wild-%d' % nwild, 'entries-%d' % min(len(entries), 3),
              'exp-err' if exp_err is not None else 'exp-ok')
    ctx.nontrivial(nwild >= 2 or len(entries) >= 2)
    where = '%s %r on %r' % (op, path, gb.obj)
    gb.log.reset()
    try:
        if op == 'assign':
            res = glom.assign(gb.obj, path, 'V') if recipe['api'] == 'func' else glom.glom(gb.obj, Assign(path, 'V'))
        else:
            if ign:
                res = glom.delete(gb.obj, path, ignore_missing=True) if recipe['api'] == 'func' \
                    else glom.glom(gb.obj, Delete(path, ignore_missing=True))
            else:
                res = glom.delete(gb.obj, path) if recipe['api'] == 'func' else glom.glom(gb.obj, Delete(path))
        got_err = None
    except GlomError as e:
        got_err = e
    except tg.BudgetExceeded:
        raise Mismatch('non-termination', where)
    except Exception as e:
        raise Mismatch('unexpected-exception-class', '%s: %s: %r' % (where, type(e).__name__, e))
    got_log = [x for x in gb.log if x[1] in ('setitem', 'delitem', 'setattr', 'delattr')]
    if exp_err is None:
        if got_err is not None:
            raise Mismatch('spurious-error', '%s: every entry can be %sed, glom raised %r' % (where, op, got_err))
        if res is not gb.obj:
            raise Mismatch('wrong-return', '%s: must return the target' % where)
    else:
        if got_err is None:
            raise Mismatch('missing-error', '%s: entry fails with %r, glom raised nothing' % (where, exp_err))
    if got_log != exp_log:
        raise Mismatch('wrong-operations', '%s: expected operations %r, observed %r' % (where, exp_log, got_log))
    if tg.structure(gb.obj) != tg.structure(rb.obj):
        raise Mismatch('wrong-effect', '%s: expected %r, got %r' % (where, rb.obj, gb.obj))
    ctx.outcome([op, path, len(entries)])


# ---------------------------------------------------------------------------
# children that exist only while they are being enumerated: generators yielding fresh containers

def enum_lazychildren(tier):
    out = []
    for n in (3, 50, 200):
        for kind in ('dict', 'list', 'obj'):
            for tail in ('c', 'star'):
                out.append({'n': n, 'kind': kind, 'tail': tail})
    return out


def check_lazychildren(recipe, ctx):
    n, kind = recipe['n'], recipe['kind']

    def fresh(i):
        if kind == 'dict':
            return {'c': i}
        if kind == 'list':
            return [{'c': i}]
        o = tg.Obj()
        o.c = i
        return o

    def stage2():
        for i in range(n, 2 * n):
            yield fresh(i)

    def stage1():
        for i in range(n):
            yield fresh(i)
        yield stage2()
    spec = Path(T.__starstar__(), 'c') if recipe['tail'] == 'c' else Path(T.__starstar__(), T.__star__())
    got = glom.glom({'root': stage1()}, spec)
    if recipe['tail'] == 'c':
        exp = list(range(2 * n))
        if sorted(got) != exp:
            missing = sorted(set(exp) - set(got))
            raise Mismatch('wrong-entries', "glom({'root': <generator of %d fresh %ss, then a generator of %d more>}, '**.c'): %d of %d "
                           "descendants are missing (first: %r)" % (n, kind, n, len(missing), 2 * n, missing[:5]))
    else:
        flat = [x for sub in got for x in sub if isinstance(x, int)]
        if kind != 'list' and sorted(flat) != list(range(2 * n)):
            raise Mismatch('wrong-entries', "'**.*' over lazily produced %ss: expected the %d leaf values, got %d" % (kind, 2 * n, len(flat)))
    ctx.label('n-%d' % n)
    ctx.nontrivial(True)
    ctx.outcome([n, kind, recipe['tail']])


SUBS = [
    Sub('lazychildren', check_lazychildren, enum=enum_lazychildren),
    Sub('read', check_read, gen=gen_read, quick=5000, thorough=15000,
        floors={'shared-or-cyclic': 0.2, 'starstar': 0.12, 'wild-2': 0.06, 'exp-ok': 0.5}),
    Sub('mutate', check_mutate, gen=gen_mutate, quick=2500, thorough=8000,
        floors={'wild-2': 0.06, 'wild-3': 0.1, 'exp-ok': 0.3, 'list-entries-index-final': 0.08}),
    fuzzrun.fuzz_sub('fuzz-path-text', 'c01-path-text', runs=20000, campaigns=4,
                     corpus=os.path.join(boot.VERIF, 'fuzz', 'corpus', 'c01-path-text'), replay_sub='read'),
]
