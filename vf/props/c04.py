"""C04 — Exceptions keep their class; glom failures are GlomErrors; default is selective.

Sub-checks
  matrix   EXHAUSTIVE for nesting depth <= 1: catalogue of exception classes (builtins with 0-5 args, user
           classes with attributes / keyword-only / arity-changing / argument-transforming constructors,
           GlomError subclasses of the same kinds, user subclasses of glom's own error classes with the
           inherited and with their own constructors, classes whose instances refuse attribute assignment
           (frozen dataclasses, raising __setattr__), a class whose __setattr__ derives a second attribute from an
           argument, BaseException subclasses), glom-detected failures, and failing T / Path steps whose cause has a class
           of its own (T[::0] -> ValueError, T ** 400 -> OverflowError, Decimal % 0 -> InvalidOperation, '%(k)s' % {} ->
           KeyError, 1['b'] -> TypeError, T / 0 -> ZeroDivisionError): the PathAccessError
           that reports the step is also an instance of that class, default / skip_exc match either
           x wrapper x default in {absent, object, None, T} x skip_exc in {absent, the class, a base,
           an unrelated class, a tuple, ()} x glom_debug in {False, True}
  deep     generated: the same fault planted at a random depth (<= 4) of nested dict / list / tuple /
           Pipe / Spec / Call / Invoke / non-catching Coalesce specs, same keyword matrix sampled
  reentrant  the fault raised inside a nested glom() call made from a callable (key functions, Spec.glom)
  extension  generated: the fault raised in a sub-spec that an extension spec (glomit), or a callable handed the scope
           through S, evaluates in the scope of the running evaluation - via scope[glom], Spec(sub).glom(t, scope=scope)
           (the flattened copy), Spec(sub, scope=own).glom(..), Spec(sub).glomit - alone, as the first step, as a later
           step of a tuple / Pipe or anywhere below one, one or two such holders deep; same oracle and keyword matrix
  mutsite  ENUMERATED: the fault raised by the user's container inside Assign / Delete with a T-style last step;
           for Delete x ignore_missing x whether the addressed element is present (readable)
"""
import itertools
import dataclasses
import decimal

from hypothesis import strategies as st

import glom
from glom import (T, Spec, Coalesce, Call, Invoke, Pipe, GlomError, PathAccessError, CoalesceError, MatchError,
                  TypeMatchError, CheckError, FoldError, BadSpec, UnregisteredTarget, PathAssignError,
                  PathDeleteError, Match, Check, Sum, Assign, Delete, Iter, Path, S)
from glom.grouping import Group

from ..runner import Sub, Mismatch, HarnessBug
from .. import targets as tg

import re
ADDR = re.compile(r' at 0x[0-9a-f]+')

PROPERTY = 'C04'
RULE = ('one fault site per case: a probe raising an instance from a 52-class catalogue, or a spec that makes glom itself fail '
        'with each documented error, or a single T / Path step that fails in plain Python with ValueError / OverflowError / '
        'decimal.InvalidOperation / KeyError / TypeError / ZeroDivisionError (reported as a PathAccessError that must also be one of '
        'that class); nested at depth 0-4 in dict/list/tuple/Pipe/Spec/Call/Invoke/Coalesce(non-catching); '
        'or inside a sub-spec that an extension spec / a callable given S evaluates in the live scope at any chain step; '
        'x default x skip_exc x glom_debug. Depth <= 1 is enumerated completely. '
        'Non-trivial = fault depth >= 2, or a non-builtin class, or a non-empty keyword set.')
ASSUMPTIONS = [
    'a failing T / Path step: "the exception originally raised" is the error the same operation raises in plain Python; glom '
    'reports the step as PathAccessError(that error, path, position) (C02), so the error leaving glom() is a PathAccessError AND '
    'an instance of that error\'s class, and an effective skip_exc that names either of the two replaces it by the default',
    'an attribute that the class\'s constructor derives from its args alone (UDerived.double) is part of "rebuilt from its args": '
    'it equals what type(e)(*e.args) has; other attributes outside args stay unasserted (DESIGN.md section 6)',
    '"can be rebuilt from its args": type(e)(*e.args) succeeds and has the same args',
    'exceptions raised by registered accessors inside a path step are PathAccessErrors by C01 and are not fault sites here',
    'BaseException subclasses that are not Exceptions propagate as the same object unless skip_exc names them',
    'extension: with the generated vias only the outermost glom() call is judged: Spec(sub).glom(t, scope=<live scope>) and scope[glom] hand the '
    'error on unchanged (no exit of a public glom() call lies in between), so the error that reaches the outer exit is the '
    'one raised at the fault site.  A nested public glom(t, sub, scope=<live scope>) is understood by the builder but not '
    'generated: the scope= keyword is documented for additional data only',
    'mutsite: IndexError / KeyError out of the container\'s __delitem__ and AttributeError out of its __delattr__ are the '
    'documented "could not delete" failures: detected by glom, PathDeleteError carrying the container\'s exception, and '
    'default / skip_exc are decided on the PathDeleteError; ignore_missing=True forgives them only for an element that is '
    'missing (a LookupError says so itself; otherwise: the element cannot be read either)',
]


# ---------------------------------------------------------------------------
# catalogue

class UAttr(Exception):
    def __init__(self, msg, code=5):
        Exception.__init__(self, msg)
        self.code = code


class UKwOnly(Exception):
    def __init__(self, *, code):
        Exception.__init__(self, code)
        self.code = code


class UArity(Exception):
    def __init__(self, a, b):
        Exception.__init__(self, a)
        self.b = b


class UTransform(Exception):
    def __init__(self, msg):
        Exception.__init__(self, 'prefix: ' + msg)


class USub(ValueError):
    pass


class GSub(GlomError):
    pass


class GOwnInit(GlomError):
    def __init__(self, a, b):
        self.a, self.b = a, b


class GKwOnly(GlomError):
    def __init__(self, *, code):
        GlomError.__init__(self, code)
        self.code = code


class GTransform(GlomError):
    def __init__(self, msg):
        GlomError.__init__(self, 'prefix: ' + msg)


class GArity(GlomError):
    def __init__(self, a, b):
        GlomError.__init__(self, a)
        self.b = b


class UFalsy(Exception):
    """a collection-like error: falsy when it holds no items"""
    def __len__(self):
        return len(self.args)


class GFalsy(GlomError):
    def __bool__(self):
        return False


class UStatusBase(Exception):
    """subclasses must declare a status: class NotFound(UStatusBase, status=404)"""
    def __init_subclass__(cls, *, status, **kw):
        super().__init_subclass__(**kw)
        cls.status = status


class UStatus404(UStatusBase, status=404):
    pass


class Cancelled(BaseException):
    pass


# -- user subclasses of glom's OWN error classes ("callers' except clauses keep working": `except WrongKind`), with the
#    inherited constructor and with constructors of their own (the inherited copy / re-creation recipe does not fit those)

class WrongKind(TypeMatchError):
    pass


class WrongKindField(TypeMatchError):
    def __init__(self, field, actual, expected):
        TypeMatchError.__init__(self, actual, expected)
        self.field = field


class WrongKindHint(TypeMatchError):
    def __init__(self, actual, expected=int, *, hint=None):
        TypeMatchError.__init__(self, actual, expected)
        self.hint = hint


class NoMatch(MatchError):
    pass


class NoMatchField(MatchError):
    def __init__(self, field):
        MatchError.__init__(self, 'field {0!r} did not match', field)
        self.field = field


class Missing(PathAccessError):
    pass


class MissingKey(PathAccessError):
    def __init__(self, key):
        PathAccessError.__init__(self, KeyError(key), Path(key), 0)
        self.key = key


class Invalid(CheckError):
    pass


class InvalidField(CheckError):
    def __init__(self, field, *, code=0):
        CheckError.__init__(self, ['field %s is invalid' % field], Check(type=int), Path(field))
        self.code = code


class NoneOf(CoalesceError):
    pass


class CannotDelete(PathDeleteError):
    pass


class CannotAssignKw(PathAssignError):
    def __init__(self, *, name):
        PathAssignError.__init__(self, ValueError(name), Path(), name)


class CannotFold(FoldError):
    pass


class UnsupportedOp(UnregisteredTarget):
    def __init__(self, op):
        UnregisteredTarget.__init__(self, op, object, {}, Path())


GLOM_SUBCLASSES = ['WrongKind', 'WrongKindField', 'WrongKindHint', 'NoMatch', 'NoMatchField', 'Missing', 'MissingKey',
                   'Invalid', 'InvalidField', 'NoneOf', 'CannotDelete', 'CannotAssignKw', 'CannotFold', 'UnsupportedOp']


# -- classes whose instances refuse attribute assignment: frozen dataclasses, a __setattr__ that raises (immutable
#    value-object errors); both GlomError subclasses and plain exceptions

@dataclasses.dataclass(frozen=True)
class GFrozen(GlomError):
    code: int


@dataclasses.dataclass(frozen=True)
class GFrozenPath(PathAccessError):
    """a frozen subclass of one of glom's own classes, with a constructor of its own"""
    key: str

    def get_message(self):
        return 'no key %r' % (self.key,)


class GNoSetattr(GlomError):
    def __setattr__(self, k, v):
        raise AttributeError('%s is read-only' % type(self).__name__)


class GNoSetattrT(GlomError):
    def __setattr__(self, k, v):
        raise TypeError('%s does not support attribute assignment' % type(self).__name__)


@dataclasses.dataclass(frozen=True)
class UFrozen(Exception):
    code: int


class UNoSetattr(Exception):
    def __setattr__(self, k, v):
        raise AttributeError('%s is read-only' % type(self).__name__)


SETATTR_REFUSING = ['GFrozen', 'GFrozenPath', 'GNoSetattr', 'GNoSetattrT', 'UFrozen', 'UNoSetattr']


# -- a class that keeps an attribute in step with an argument through its __setattr__ (validating / normalising /
#    derived-value setters).  Attributes outside args are not promised by the statement, but "rebuilt from its args" is:
#    what the class's own constructor derives from the args alone is the same on every instance built from those args

class UDerived(Exception):
    def __init__(self, n):
        Exception.__init__(self, n)
        self.n = n

    def __setattr__(self, k, v):
        Exception.__setattr__(self, k, v)
        if k == 'n':
            Exception.__setattr__(self, 'double', 2 * v)


# name -> the attributes its constructor derives from the args alone
ARGS_DERIVED = {'UDerived': ('n', 'double')}
_MISSING = ['missing']


class Unrelated(Exception):
    pass


CATALOGUE = {
    'ValueError0': lambda: ValueError(),
    'ValueError1': lambda: ValueError('bad value'),
    'ValueError3': lambda: ValueError('a', 2, None),
    'KeyError': lambda: KeyError('k'),
    'IndexError': lambda: IndexError(3),
    'AttributeError': lambda: AttributeError('no attr'),
    'FrozenInstanceError': lambda: dataclasses.FrozenInstanceError("cannot delete field 'attr'"),
    'TypeError': lambda: TypeError('wrong type'),
    'ZeroDivisionError': lambda: ZeroDivisionError('division by zero'),
    'OSError': lambda: OSError(2, 'No such file'),
    'UnicodeDecodeError': lambda: UnicodeDecodeError('utf8', b'\xff', 0, 1, 'invalid start byte'),
    'StopIteration': lambda: StopIteration(1),
    'RuntimeError': lambda: RuntimeError('r', 'u', 'n', 't', 'i'),
    'UAttr': lambda: UAttr('with attribute', code=9),
    'UKwOnly': lambda: UKwOnly(code=3),
    'UArity': lambda: UArity('first', 'second'),
    'UTransform': lambda: UTransform('msg'),
    'USub': lambda: USub('sub of ValueError'),
    'UFalsy': lambda: UFalsy(),
    'GFalsy': lambda: GFalsy('falsy glom error'),
    'UStatus404': lambda: UStatus404('not found'),
    'GlomError': lambda: GlomError('plain glom error'),
    'GSub': lambda: GSub('user glom error', 2),
    'GOwnInit': lambda: GOwnInit(1, 2),
    'GKwOnly': lambda: GKwOnly(code=4),
    'GTransform': lambda: GTransform('msg'),
    'GArity': lambda: GArity('first', 'second'),
    'SystemExit': lambda: SystemExit(3),
    'KeyboardInterrupt': lambda: KeyboardInterrupt(),
    'Cancelled': lambda: Cancelled('stop'),
    'GeneratorExit': lambda: GeneratorExit(),
    'WrongKind': lambda: WrongKind(str, int),
    'WrongKindField': lambda: WrongKindField('age', str, int),
    'WrongKindHint': lambda: WrongKindHint(str, hint='digits only'),
    'NoMatch': lambda: NoMatch('{0!r} does not match {1!r}', 1, 2),
    'NoMatchField': lambda: NoMatchField('age'),
    'Missing': lambda: Missing(KeyError('k'), Path('a', 'k'), 1),
    'MissingKey': lambda: MissingKey('k'),
    'Invalid': lambda: Invalid(['not valid'], Check(type=int), Path('a')),
    'InvalidField': lambda: InvalidField('age', code=7),
    'NoneOf': lambda: NoneOf(Coalesce('x', 'y'), [ValueError('v'), 3], Path('a')),
    'CannotDelete': lambda: CannotDelete(KeyError('k'), Path('a'), 'k'),
    'CannotAssignKw': lambda: CannotAssignKw(name='k'),
    'CannotFold': lambda: CannotFold('cannot fold', 5),
    'UnsupportedOp': lambda: UnsupportedOp('iterate'),
    'GFrozen': lambda: GFrozen(5),
    'GFrozenPath': lambda: GFrozenPath('k'),
    'GNoSetattr': lambda: GNoSetattr('read-only glom error', 1),
    'GNoSetattrT': lambda: GNoSetattrT('read-only glom error'),
    'UFrozen': lambda: UFrozen(5),
    'UNoSetattr': lambda: UNoSetattr('read-only error', 2),
    'UDerived': lambda: UDerived(4),
}

# glom-detected failures: name -> (target recipe, spec factory, documented class)
DETECTED = {
    'PathAccessError': (lambda: {'a': 1}, lambda: 'nope', PathAccessError),
    'PathAccessErrorT': (lambda: {'a': 1}, lambda: T['a']['b'], PathAccessError),
    'CoalesceError': (lambda: {'a': 1}, lambda: Coalesce('x', 'y'), CoalesceError),
    'MatchError': (lambda: 'str', lambda: Match(3), MatchError),
    'TypeMatchError': (lambda: 'str', lambda: Match(int), TypeMatchError),
    'CheckError': (lambda: 'str', lambda: Check(type=int), CheckError),
    'FoldError': (lambda: 5, lambda: Sum(), FoldError),
    'BadSpec': (lambda: [1], lambda: Group('a'), BadSpec),
    'UnregisteredTarget': (lambda: 5, lambda: [T], UnregisteredTarget),
    'PathAssignError': (lambda: [1], lambda: Assign('5', 2), PathAssignError),
    'PathDeleteError': (lambda: {}, lambda: Delete('a'), PathDeleteError),
    'TypeErrorBadSpec': (lambda: 1, lambda: 3.5, TypeError),      # not a spec at all
}


# glom-detected failures of ONE T / Path step, whose cause is an error of a class of its own: the step is an operation of
# plain Python on the target, and "the class of the exception originally raised" is the class Python raises for it.
# name -> (target, spec, the same operation in plain Python, position of the failing step).  glom reports a failing step
# as a PathAccessError (the documented subtype, C02) which carries that error: the error that leaves glom() must be BOTH -
# `except ValueError` around glom(t, T[::0]) and skip_exc=ValueError keep working - and default / skip_exc see both
TSTEP = {
    'TStepSliceValueError': (lambda: [1, 2], lambda: T[::0], lambda t: t[::0], 0),
    'TStepPowOverflowError': (lambda: 10.0, lambda: T ** 400, lambda t: t ** 400, 0),
    'TStepModInvalidOperation': (lambda: decimal.Decimal(7), lambda: T % 0, lambda t: t % 0, 0),
    'TStepFormatKeyError': (lambda: {'s': '%(k)s'}, lambda: T['s'] % {}, lambda t: t['s'] % {}, 1),
    'TStepItemTypeError': (lambda: {'a': 1}, lambda: T['a']['b'], lambda t: t['a']['b'], 1),
    'TStepDivZeroDivisionError': (lambda: 7, lambda: T / 0, lambda t: t / 0, 0),
    # (NOT a site: a string path on a list whose segment is no number.  The ValueError of the int() conversion is raised
    # inside the registered 'get' handler, not by an operation of the spec on the target: the failure is one that glom
    # detects itself, a plain PathAccessError, as on the pinned commit)
}


def tstep_original(name):
    """the error plain Python raises for the operation (a harness error if it raises none)"""
    tfac, sfac, ref, idx = TSTEP[name]
    try:
        ref(tfac())
    except Exception as e:
        return e
    raise HarnessBug('TSTEP %s: the plain-Python operation does not fail' % name)


class Site(object):
    """the fault site: a callable that raises a fresh instance and remembers it"""
    def __init__(self, name):
        self.name = name
        self.raised = []
        self.__name__ = 'site'

    def __call__(self, target):
        e = CATALOGUE[self.name]()
        self.raised.append(e)
        raise e

    def __repr__(self):
        return '<site %s>' % self.name


def ident(*a, **kw):
    return a


WRAPPERS = ['none', 'dict', 'list', 'tuple', 'pipe', 'spec', 'call', 'invoke', 'coalesce', 'tuple2', 'iter']


def wrap(spec, kind):
    if kind == 'none':
        return spec
    if kind == 'dict':
        return {'before': T, 'k': spec, 'after': T}
    if kind == 'list':
        return (lambda t: [t, t], [spec])
    if kind == 'tuple':
        return (T, spec, T)
    if kind == 'tuple2':
        return (T, (spec,))
    if kind == 'pipe':
        return Pipe(T, spec)
    if kind == 'spec':
        return Spec(spec)
    if kind == 'call':
        return Call(ident, args=(Spec(spec),))
    if kind == 'invoke':
        return Invoke(ident).specs(T, spec)
    if kind == 'coalesce':
        return Coalesce(spec, skip_exc=Unrelated)
    if kind == 'iter':
        return ((lambda t: [t]), Iter(spec).all())
    raise ValueError(kind)


DEFAULTS = ['absent', 'object', 'none', 'T']
SKIPS = ['absent', 'class', 'base', 'unrelated', 'tuple', 'empty']


def bases_of(exc):
    t = type(exc)
    for b in t.__mro__[1:]:
        if b not in (object,):
            return b
    return BaseException


def make_kwargs(exc_type, default, skip, debug, marker):
    kw = {}
    if default == 'object':
        kw['default'] = marker
    elif default == 'none':
        kw['default'] = None
    elif default == 'T':
        kw['default'] = T
    if skip == 'class':
        kw['skip_exc'] = exc_type
    elif skip == 'base':
        kw['skip_exc'] = exc_type.__mro__[1] if exc_type.__mro__[1] is not object else BaseException
    elif skip == 'unrelated':
        kw['skip_exc'] = Unrelated
    elif skip == 'tuple':
        kw['skip_exc'] = (Unrelated, exc_type)
    elif skip == 'empty':
        kw['skip_exc'] = ()
    if debug:
        kw['glom_debug'] = True
    return kw


def rebuildable(e):
    """can an object that is BOTH of e's class and a GlomError be built from e's args?  (a class that refuses plain
    subclassing - __init_subclass__ with required arguments, a sealing metaclass - cannot be combined with GlomError at
    all: such an error can only leave glom() as itself)"""
    try:
        c = type(e)(*e.args)
        if not isinstance(e, GlomError):
            type('probe', (type(e), GlomError), {})
    except Exception:
        return False
    return c.args == e.args


def judge(where, kw, orig, outcome, marker, detected_cls=None, tstep=None):
    """compare the observed outcome of glom(target, spec, **kw) with the statement.
    tstep=<position>: the fault is a failing T / Path step; `orig` is the error plain Python raises for the operation and
    the error at its origin is the PathAccessError carrying it, which is an instance of both classes"""
    default_given = 'default' in kw
    skip_given = 'skip_exc' in kw
    if skip_given:
        eff = kw['skip_exc']
    elif default_given:
        eff = GlomError
    else:
        eff = ()
    eff_default = kw.get('default', None)
    swallowed = bool(eff) and isinstance(orig, eff) if not isinstance(eff, tuple) else (len(eff) > 0 and isinstance(orig, eff))
    if tstep is not None and not swallowed and eff != ():
        swallowed = issubclass(PathAccessError, eff)
    if swallowed:
        if outcome[0] != 'ok':
            raise Mismatch('default-not-returned', '%s: %r matches skip_exc=%r, expected the default, got %s: %r'
                           % (where, orig, eff, type(outcome[1]).__name__, outcome[1].args))
        if outcome[1] is not eff_default:
            raise Mismatch('default-not-identical', '%s: expected the default object itself (%r), got %r'
                           % (where, eff_default, outcome[1]))
        return 'swallowed'
    if outcome[0] == 'ok':
        raise Mismatch('error-swallowed', '%s: %r does not match the effective skip_exc %r but glom returned %r'
                       % (where, orig, eff, outcome[1]))
    e = outcome[1]
    if not isinstance(orig, Exception):
        if e is not orig:
            raise Mismatch('baseexception-not-propagated', '%s: %r must propagate as the same object, got %r' % (where, orig, e))
        return 'propagated'
    if kw.get('glom_debug') and tstep is None:
        # (a failing step: the PathAccessError glom raises for it is the original object; judged like without glom_debug)
        if e is not orig:
            raise Mismatch('debug-not-original', '%s: glom_debug=True must propagate the original object %r, got %r (%s)'
                           % (where, orig, e, type(e).__name__))
        return 'debug'
    if not isinstance(e, type(orig)):
        # two buckets, so that one does not hide the other in the report: the error came out as an instance of a BASE of
        # its class (`except WrongKind` no longer catches it), or something unrelated took its place
        raise Mismatch('class-downgraded' if isinstance(orig, type(e)) else 'class-lost',
                       '%s: raised %r (%s) is not an instance of the original class %s'
                       % (where, e, type(e).__name__, type(orig).__name__))
    if tstep is not None:
        # the args of a PathAccessError are documented: (the error of the operation, the path, the position of the step)
        if not isinstance(e, PathAccessError):
            raise Mismatch('wrong-documented-class', '%s: expected a PathAccessError carrying %r, got %s'
                           % (where, orig, type(e).__name__))
        if len(e.args) != 3 or type(e.args[0]) is not type(orig) or e.args[0].args != orig.args or e.args[2] != tstep:
            raise Mismatch('args-changed', '%s: expected PathAccessError(%r, <path>, %d), got args %r' % (where, orig, tstep, e.args))
        same_args = True
    else:
        same_args = (e.args == orig.args) if detected_cls is None else (ADDR.sub('', repr(e.args)) == ADDR.sub('', repr(orig.args)))
    if not same_args:
        raise Mismatch('args-changed', '%s: original args %r, raised args %r' % (where, orig.args, e.args))
    if detected_cls is not None:
        if not isinstance(e, detected_cls) or not isinstance(e, GlomError) and detected_cls is not TypeError:
            raise Mismatch('wrong-documented-class', '%s: expected %s, got %s' % (where, detected_cls.__name__, type(e).__name__))
    if rebuildable(orig) and not isinstance(e, GlomError):
        raise Mismatch('not-a-glomerror', '%s: %r can be rebuilt from its args but the raised %s is no GlomError'
                       % (where, orig, type(e).__name__))
    for attr in ARGS_DERIVED.get(type(orig).__name__, ()):
        # reference: the rebuild the statement speaks of, done in plain Python
        want = getattr(type(orig)(*orig.args), attr)
        if getattr(e, attr, _MISSING) != want:
            raise Mismatch('args-derived-attr-lost', '%s: %s(*%r).%s is %r; on the raised %s it is %s'
                           % (where, type(orig).__name__, orig.args, attr, want, type(e).__name__,
                              repr(getattr(e, attr)) if hasattr(e, attr) else 'missing'))
    try:
        text = str(e)
    except Exception as e2:
        raise Mismatch('str-raises', '%s: str() of the raised error raises %r' % (where, e2))
    return 'raised'


def run_case(name, wrappers, default, skip, debug, build=None):
    """`build(spec, leaving)`, when given, puts the fault spec into its surroundings instead of the plain wrappers; it
    appends to `leaving` the exception objects that leave nested PUBLIC glom() calls made on the way, innermost first"""
    marker = ['default-marker']
    leaving = []
    if name in CATALOGUE:
        site = Site(name)
        spec = site
        target = {'a': 1}
        exc_type = type(CATALOGUE[name]())
        detected_cls = None
    elif name in TSTEP:
        tfac, sfac, ref, tstep_idx = TSTEP[name]
        spec = sfac()
        target = tfac()
        site = None
        detected_cls = PathAccessError
        exc_type = type(tstep_original(name))         # skip_exc names the class Python raises for the operation
    else:
        tfac, sfac, detected_cls = DETECTED[name]
        spec = sfac()
        target = tfac()
        site = None
        exc_type = detected_cls
    spec = build(spec, leaving) if build is not None else _rewrap(spec, wrappers, name)
    kw = make_kwargs(exc_type, default, skip, debug, marker)
    where = 'glom(%r, %r, %s)' % (target, spec, ', '.join('%s=%r' % kv for kv in sorted(kw.items())))
    try:
        outcome = ('ok', glom.glom(target, spec, **kw))
    except BaseException as e:
        if isinstance(e, (tg.BudgetExceeded,)):
            raise
        outcome = ('err', e)
    if site is not None:
        if len(site.raised) != 1:
            raise Mismatch('site-calls', '%s: the fault site ran %d times' % (where, len(site.raised)))
        orig = site.raised[0]
        # a nested public glom() call (no keywords) is judged against the error that reached it, and the outer call
        # against the error leaving the outermost nested call
        for lv in leaving:
            judge(where + ' [nested call]', {}, orig, ('err', lv), marker)
            orig = lv
    elif name in TSTEP:
        # the original is what the same operation raises in plain Python
        return judge(where, kw, tstep_original(name), outcome, marker, detected_cls, tstep=tstep_idx)
    else:
        # glom-detected: the original is what propagates under glom_debug; obtain it with a second run
        try:
            glom.glom(tfac(), build(sfac(), []) if build is not None else _rewrap(sfac(), wrappers, name), glom_debug=True)
            raise Mismatch('detected-no-error', '%s: expected %s' % (where, detected_cls.__name__))
        except Mismatch:
            raise
        except Exception as e0:
            orig = e0
        if kw.get('glom_debug') and outcome[0] == 'err':
            # two separate runs cannot yield the same object: compare class and args instead
            if type(outcome[1]) is not type(orig) or ADDR.sub('', repr(outcome[1].args)) != ADDR.sub('', repr(orig.args)):
                raise Mismatch('debug-not-original', '%s: %r vs %r' % (where, outcome[1], orig))
            kw = dict(kw)
            orig = outcome[1]
    return judge(where, kw, orig, outcome, marker, detected_cls)


def _rewrap(spec, wrappers, name):
    for w in wrappers:
        if w == 'list':
            spec = (lambda t: [t, t], [spec])
        else:
            spec = wrap(spec, w)
    return spec


def class_labels(name):
    """the catalogue classes that are generated on purpose: user subclasses of glom's own error classes, classes whose
    instances refuse attribute assignment, and failing T / Path steps that carry an error of a class of its own"""
    labs = []
    if name in TSTEP:
        labs += ['tstep-carried', 'tstep-' + type(tstep_original(name)).__name__]
    if name in GLOM_SUBCLASSES or name == 'GFrozenPath':
        labs.append('cls-glom-subclass')
    if name in SETATTR_REFUSING:
        labs.append('cls-setattr-refusing')
    if name in ARGS_DERIVED:
        labs.append('cls-args-derived-attr')
    return labs


ALL_NAMES = sorted(CATALOGUE) + sorted(DETECTED) + sorted(TSTEP)


def pep479(name, wrappers):
    """a StopIteration raised inside a generator frame becomes RuntimeError in Python itself"""
    return name == 'StopIteration' and 'iter' in wrappers


def enum_matrix(tier):
    names = ALL_NAMES
    for name in names:
        for w in WRAPPERS:
            if pep479(name, [w]):
                continue
            for default, skip, debug in itertools.product(DEFAULTS, SKIPS, [False, True]):
                yield {'name': name, 'wrappers': [w], 'default': default, 'skip': skip, 'debug': debug}


def check_case(recipe, ctx):
    name = recipe['name']
    res = run_case(name, recipe['wrappers'], recipe['default'], recipe['skip'], recipe['debug'])
    ctx.label('outcome-' + res, 'depth-%d' % min(len([w for w in recipe['wrappers'] if w != 'none']), 4),
              'detected' if name in DETECTED or name in TSTEP else 'injected')
    ctx.label(*class_labels(name))
    builtin = name in CATALOGUE and type(CATALOGUE[name]()).__module__ == 'builtins'
    ctx.nontrivial(len(recipe['wrappers']) >= 2 or not builtin or recipe['default'] != 'absent' or recipe['skip'] != 'absent')
    ctx.outcome([name, recipe['wrappers'], res])


def gen_deep(draw):
    names = ALL_NAMES
    n = draw(st.integers(2, 4))
    name = draw(st.sampled_from(names))
    return {'name': name,
            'wrappers': [draw(st.sampled_from([w for w in WRAPPERS[1:] if not pep479(name, [w])])) for _ in range(n)],
            'default': draw(st.sampled_from(DEFAULTS)), 'skip': draw(st.sampled_from(SKIPS)),
            'debug': draw(st.sampled_from([False, False, True]))}


# ---------------------------------------------------------------------------
# re-entrant: the fault is raised inside a nested glom() call

def gen_reentrant(draw):
    return {'name': draw(st.sampled_from(sorted(CATALOGUE))),
            'how': draw(st.sampled_from(['callable-glom', 'spec-glom', 'first-key', 'glommer'])),
            'depth': draw(st.integers(1, 3)),
            'default': draw(st.sampled_from(DEFAULTS)), 'skip': draw(st.sampled_from(SKIPS)),
            'debug': draw(st.sampled_from([False, False, True]))}


def check_reentrant(recipe, ctx):
    name = recipe['name']
    site = Site(name)
    how = recipe['how']
    leaving = []          # the exception objects leaving each nested call, innermost first

    def nested(p, kind):
        def call(t):
            try:
                if kind == 'callable-glom':
                    return glom.glom(t, p)
                if kind == 'spec-glom':
                    return Spec(p).glom(t)
                return glom.Glommer().glom(t, p)
            except BaseException as e:
                leaving.append(e)
                raise
        call.__name__ = 'nested_' + kind.replace('-', '_')
        return call

    inner = site
    for _ in range(recipe['depth']):
        if how == 'first-key':
            inner = (lambda p: ((lambda t: [t]), Iter().first(key=p)))(inner)
        else:
            inner = nested(inner, how)
    marker = ['default-marker']
    exc_type = type(CATALOGUE[name]())
    kw = make_kwargs(exc_type, recipe['default'], recipe['skip'], recipe['debug'], marker)
    if how == 'first-key':
        kw = {}
    target = {'a': 1}
    where = 're-entrant(%s x%d) glom(%r, <spec>, %s) site=%s' % (how, recipe['depth'], target,
                                                                  ', '.join('%s=%r' % kv for kv in sorted(kw.items())), name)
    try:
        outcome = ('ok', glom.glom(target, inner, **kw))
    except BaseException as e:
        outcome = ('err', e)
    if len(site.raised) != 1:
        raise Mismatch('site-calls', '%s: the fault site ran %d times' % (where, len(site.raised)))
    orig = site.raised[0]
    if how == 'first-key':
        # the key function runs in a nested Spec.glom() inside a generator: class and args must survive
        if isinstance(orig, StopIteration):
            res = 'pep479'       # a StopIteration raised by the key ends Python's own filter()/next() protocol
        elif outcome[0] != 'err':
            raise Mismatch('error-swallowed', '%s: glom returned %r' % (where, outcome[1]))
        else:
            e = outcome[1]
            if not isinstance(e, type(orig)) or e.args != orig.args:
                raise Mismatch('class-lost', '%s: %r raised in a first() key came out as %r (%s)'
                               % (where, orig, e, type(e).__name__))
            try:
                str(e)
            except Exception as e2:
                raise Mismatch('str-raises', '%s: %r' % (where, e2))
            res = 'raised'
    else:
        # every nested call (no keywords) is judged against the error that reached it ...
        reached = orig
        for lv in leaving:
            judge(where + ' [nested call]', {}, reached, ('err', lv), marker)
            reached = lv
        # ... and the outer call against the error leaving the outermost nested call
        res = judge(where, kw, reached, outcome, marker)
    ctx.label('outcome-' + res, 'how-' + how)
    ctx.label(*class_labels(name))
    ctx.nontrivial(True)
    ctx.outcome([name, how, res])


# ---------------------------------------------------------------------------
# extension specs: the fault is raised in a sub-spec that an extension (glomit protocol), or a callable that was handed
# the scope (S), evaluates in the scope of the running evaluation - at any step of a chain, at any depth

EXT_VIAS = {
    # the documented way for an extension to evaluate a sub-spec
    'scope-glom': lambda sub, t, scope: scope[glom.glom](t, sub, scope),
    # the public "compiled glom call", told to run in the scope at hand (it copies the scope into one flat mapping)
    'spec-glom-scope': lambda sub, t, scope: Spec(sub).glom(t, scope=scope),
    'spec-glom-scope-own': lambda sub, t, scope: Spec(sub, scope={'own': 1}).glom(t, scope=scope),
    # delegation to another extension spec's glomit
    'spec-glomit': lambda sub, t, scope: Spec(sub).glomit(t, scope),
    # a nested top-level call that is given the live scope as its scope= keyword.  Understood by the builder (replays),
    # NOT drawn by the generator: see EXT_VIAS_DRAWN
    'glom-scope': lambda sub, t, scope: glom.glom(t, sub, scope=scope),
    'glommer-scope': lambda sub, t, scope: glom.Glommer().glom(t, sub, scope=scope),
}
EXT_VIAS_FLAT = ('spec-glom-scope', 'spec-glom-scope-own')
EXT_VIAS_PUBLIC = ('glom-scope', 'glommer-scope')          # these pass the exit of a public glom() call of their own
# glom()'s scope= keyword is documented as "additional data that can be accessed via S"; whether a live scope (with the
# bookkeeping entries of the running evaluation in it) is a legitimate value for it is not said anywhere, so the nested
# public call is not generated (reported as a candidate; on the unchanged tree the error of a later chain step comes out
# of it as KeyError(CHILD_ERRORS))
EXT_VIAS_DRAWN = ['scope-glom', 'spec-glom-scope', 'spec-glom-scope', 'spec-glom-scope-own', 'spec-glomit']
EXT_HOLDERS = ['glomit', 'invoke-S', 'call-S']
EXT_LEADS = ['T', 'spec-T', 'ident', 'pipe-T']
CHAINING = ('tuple', 'tuple2', 'pipe', 'list', 'iter')     # the wrappers that put their spec behind an earlier chain step


def same(t):
    return t


class Reenter(object):
    """evaluates `sub` on the target in the scope it is given, through EXT_VIAS[via].  As an extension spec (glomit) and
    as a plain callable f(scope, target) for Invoke / Call with S among the arguments"""
    def __init__(self, sub, via, leaving):
        self.sub, self.via, self.leaving = sub, via, leaving
        self.__name__ = 'reenter'

    def _run(self, target, scope):
        if self.via not in EXT_VIAS_PUBLIC:
            return EXT_VIAS[self.via](self.sub, target, scope)
        try:
            return EXT_VIAS[self.via](self.sub, target, scope)
        except BaseException as e:
            self.leaving.append(e)
            raise

    def __repr__(self):
        return '<%s %s: %r>' % (type(self).__name__, self.via, self.sub)


class SubEval(Reenter):
    def glomit(self, target, scope):
        return self._run(target, scope)


class ScopeTaker(Reenter):
    def __call__(self, scope, target):
        return self._run(target, scope)


def build_extension(recipe, spec, leaving):
    name = recipe['name']
    spec = _rewrap(spec, recipe['inner'], name)
    for layer in recipe['layers']:
        if layer['holder'] == 'glomit':
            spec = SubEval(spec, layer['via'], leaving)
        elif layer['holder'] == 'invoke-S':
            spec = Invoke(ScopeTaker(spec, layer['via'], leaving)).specs(S, T)
        else:
            spec = Call(ScopeTaker(spec, layer['via'], leaving), args=(S, T))
        spec = _rewrap(spec, layer['between'], name)
        if layer['chain'] != 'none':
            lead = [{'T': T, 'spec-T': Spec(T), 'ident': same, 'pipe-T': Pipe(T, T)}[k] for k in layer['lead']]
            steps = lead + [spec] + [T] * layer['trail']
            spec = tuple(steps) if layer['chain'] == 'tuple' else Pipe(*steps)
    return _rewrap(spec, recipe['outer'], name)


def ext_later(recipe):
    """per layer (innermost first): does the holder sit at, or anywhere below, a chain step that is not the first one?"""
    res = []
    above = bool(set(recipe['outer']) & set(CHAINING))
    for layer in reversed(recipe['layers']):
        here = above or (layer['chain'] != 'none' and len(layer['lead']) > 0) or bool(set(layer['between']) & set(CHAINING))
        res.append(here)
        above = here
    return res[::-1]


# (few draws per recipe: the choices that go together are drawn as one element of a small enumerated table)
EXT_LEADLISTS = [[]] * 5 + [[a] for a in EXT_LEADS] * 3 + [[a, b] for a in EXT_LEADS for b in EXT_LEADS]
EXT_SHAPES = [('none', [], 0)] * 16 + [(c, lead, trail) for c in ('tuple', 'tuple', 'pipe') for lead in EXT_LEADLISTS
                                       for trail in (0, 0, 1)]
EXT_HOW = [(via, holder) for via in EXT_VIAS_DRAWN for holder in ('glomit', 'glomit', 'invoke-S', 'call-S')]
EXT_KW = list(itertools.product(DEFAULTS, SKIPS, [False, False, True]))


def gen_extension(draw):
    names = ALL_NAMES
    name = draw(st.sampled_from(names))
    wr = [[w] for w in WRAPPERS[1:] if not pep479(name, [w])]
    some = [[]] * (2 * len(wr)) + wr            # no wrapper in two of three draws
    layers = []
    for _ in range(draw(st.sampled_from([1, 1, 2]))):
        via, holder = draw(st.sampled_from(EXT_HOW))
        chain, lead, trail = draw(st.sampled_from(EXT_SHAPES))
        layers.append({'via': via, 'holder': holder, 'chain': chain, 'lead': list(lead), 'trail': trail,
                       'between': list(draw(st.sampled_from(some)))})
    default, skip, debug = draw(st.sampled_from(EXT_KW))
    return {'name': name, 'inner': list(draw(st.sampled_from(some))), 'layers': layers,
            'outer': list(draw(st.sampled_from(some))), 'default': default, 'skip': skip, 'debug': debug}


def check_extension(recipe, ctx):
    name = recipe['name']
    res = run_case(name, None, recipe['default'], recipe['skip'], recipe['debug'],
                   build=lambda spec, leaving: build_extension(recipe, spec, leaving))
    later = ext_later(recipe)
    ctx.label('outcome-' + res, 'detected' if name in DETECTED or name in TSTEP else 'injected', 'layers-%d' % len(recipe['layers']))
    ctx.label('ext-later' if any(later) else 'ext-first-or-alone')
    for layer, lat in zip(recipe['layers'], later):
        ctx.label('via-' + layer['via'], 'holder-' + layer['holder'])
    if any(lat and layer['via'] in EXT_VIAS_FLAT for layer, lat in zip(recipe['layers'], later)):
        ctx.label('flat-later')
    if any(lat and layer['via'] not in EXT_VIAS_FLAT for layer, lat in zip(recipe['layers'], later)):
        ctx.label('chained-later')
    ctx.label(*class_labels(name))
    depth = len(recipe['inner']) + len(recipe['outer']) + sum(1 + (l['chain'] != 'none') + len(l['between'])
                                                              for l in recipe['layers'])
    builtin = name in CATALOGUE and type(CATALOGUE[name]()).__module__ == 'builtins'
    ctx.nontrivial(depth >= 2 or not builtin or recipe['default'] != 'absent' or recipe['skip'] != 'absent')
    ctx.outcome([name, [(l['holder'], l['via']) for l in recipe['layers']], res])


# ---------------------------------------------------------------------------
# fault sites inside the user's containers: __delitem__ / __delattr__ / __setitem__ / __setattr__ reached through
# Delete / Assign with a T-style final step (plain Python statement, no registered handler in between)

class FaultyBox(object):
    """every mutating method raises the planted error.  `readable` decides whether the element that the mutation
    addresses is PRESENT: box.attr / box['k'] can be read, or reading fails the ordinary way (AttributeError / KeyError)"""
    def __init__(self, name, readable=True):
        object.__setattr__(self, '_name', name)
        object.__setattr__(self, '_readable', readable)
        object.__setattr__(self, 'raised', [])
        if readable:
            object.__setattr__(self, 'attr', 1)

    def _boom(self):
        e = CATALOGUE[self._name]()
        self.raised.append(e)
        raise e

    def __delitem__(self, k):
        self._boom()

    def __setitem__(self, k, v):
        self._boom()

    def __getitem__(self, k):
        if not self._readable:
            raise KeyError(k)
        return 1

    def __delattr__(self, k):
        self._boom()

    def __setattr__(self, k, v):
        self._boom()


def enum_mutsite(tier):
    for name in sorted(CATALOGUE):
        for how in ('delitem', 'delattr', 'setitem', 'setattr'):
            for default, skip, debug in itertools.product(['absent', 'object'], ['absent', 'class', 'unrelated'], [False, True]):
                for ign in (False, True):
                    for readable in ((True, False) if how.startswith('del') else (True,)):
                        yield {'name': name, 'how': how, 'default': default, 'skip': skip, 'debug': debug,
                               'ignore_missing': ign, 'readable': readable}


def judge_translated(where, kw, orig, outcome, marker, dest_name):
    """the deletion failed in the way the Delete docs translate ("If a target path is missing, a PathDeleteError will be
    raised"; PathDeleteError: "deleting a read-only @property or exception being raised inside a __delattr__()"): the
    failure is detected by glom itself, so the error at its origin is the documented PathDeleteError carrying the
    container's exception; default / skip_exc are decided on it"""
    if 'skip_exc' in kw:
        eff = kw['skip_exc']
    elif 'default' in kw:
        eff = GlomError
    else:
        eff = ()
    if eff != () and issubclass(PathDeleteError, eff):
        if outcome[0] != 'ok':
            raise Mismatch('default-not-returned', '%s: PathDeleteError matches skip_exc=%r, expected the default, got %r'
                           % (where, eff, outcome[1]))
        if outcome[1] is not kw.get('default', None):
            raise Mismatch('default-not-identical', '%s: expected the default object itself, got %r' % (where, outcome[1]))
        return 'swallowed'
    if outcome[0] == 'ok':
        raise Mismatch('error-swallowed', '%s: the deletion failed with %r (PathDeleteError does not match the effective '
                       'skip_exc %r) but glom returned %r' % (where, orig, eff, outcome[1]))
    e = outcome[1]
    if type(e) is not PathDeleteError:
        raise Mismatch('wrong-documented-class', '%s: expected PathDeleteError wrapping %r, got %r (%s)'
                       % (where, orig, e, type(e).__name__))
    if len(e.args) != 3 or e.args[0] is not orig or e.args[2] != dest_name:
        raise Mismatch('args-changed', '%s: expected PathDeleteError(<the %s raised by the container>, <path>, %r), got args %r'
                       % (where, type(orig).__name__, dest_name, e.args))
    try:
        str(e)
    except Exception as e2:
        raise Mismatch('str-raises', '%s: str() of the raised error raises %r' % (where, e2))
    return 'raised'


def check_mutsite(recipe, ctx):
    name, how = recipe['name'], recipe['how']
    readable = recipe.get('readable', True)
    box = FaultyBox(name, readable)
    target = {'box': box}
    if how == 'delitem':
        spec = Delete(T['box']['k'], ignore_missing=recipe['ignore_missing'])
    elif how == 'delattr':
        spec = Delete(T['box'].attr, ignore_missing=recipe['ignore_missing'])
    elif how == 'setitem':
        spec = Assign(T['box']['k'], 1)
    else:
        spec = Assign(T['box'].attr, 2)
    marker = ['default-marker']
    exc_type = type(CATALOGUE[name]())
    kw = make_kwargs(exc_type, recipe['default'], recipe['skip'], recipe['debug'], marker)
    where = 'glom({box: <container whose %s raises %s, element %s>}, %r%s, %s)' % (
        how, name, 'readable' if readable else 'not readable', spec,
        ' with ignore_missing=True' if how.startswith('del') and recipe['ignore_missing'] else '',
        ', '.join('%s=%r' % kv for kv in sorted(kw.items())))
    try:
        outcome = ('ok', glom.glom(target, spec, **kw))
    except BaseException as e:
        outcome = ('err', e)
    if len(box.raised) != 1:
        raise Mismatch('site-calls', '%s: the faulty method ran %d times' % (where, len(box.raised)))
    orig = box.raised[0]
    ctx.nontrivial(True)
    ctx.label(*class_labels(name))
    # the documented translations.  del box['k'] failing with IndexError / KeyError says "no such index / key";
    # del box.attr failing with AttributeError says "no such attribute" OR "this attribute cannot be deleted" (read-only
    # property, frozen instance, namedtuple field).  Both become PathDeleteError.  ignore_missing=True ("To ignore missing
    # targets") forgives the failure only for an element that IS missing: a LookupError is taken at face value (also one
    # that is an AttributeError as well, like a PathAccessError), any other AttributeError counts as "missing" only if the
    # attribute cannot be read either; a present element whose deletion is refused stays an error.
    translated = (how == 'delitem' and isinstance(orig, (IndexError, KeyError))) or \
                 (how == 'delattr' and isinstance(orig, AttributeError))
    if translated:
        missing = isinstance(orig, LookupError) or not readable
        if recipe['ignore_missing'] and missing:
            ctx.label('translated', 'missing-ignored')
            if outcome[0] != 'ok':
                raise Mismatch('ignore-missing', '%s: %r counts as a missing element, expected it to be ignored; got %r'
                               % (where, orig, outcome[1]))
            if outcome[1] is not target:
                raise Mismatch('ignore-missing', '%s: nothing to delete, expected the target back, got %r' % (where, outcome[1]))
            ctx.outcome([name, how, 'ignored'])
            return
        ctx.label('translated', 'refused-present' if recipe['ignore_missing'] else 'translated-strict')
        res = judge_translated(where, kw, orig, outcome, marker, 'k' if how == 'delitem' else 'attr')
        ctx.outcome([name, how, 'translated-' + res])
        return
    res = judge(where, kw, orig, outcome, marker)
    ctx.label('outcome-' + res, 'how-' + how)
    ctx.outcome([name, how, res])


# ---------------------------------------------------------------------------
# histories: distinct exception classes sharing a __name__, raised one after the other in one process

def gen_samename(draw):
    bases = ['Exception', 'ValueError', 'LookupError', 'KeyError', 'OSError', 'RuntimeError']
    return {'name': draw(st.sampled_from(['NotFound', 'TimeoutError', 'Error', 'ValueError'])),
            'bases': [draw(st.sampled_from(bases)) for _ in range(draw(st.integers(2, 4)))],
            'order': draw(st.permutations([0, 1, 2, 3]))}


def check_samename(recipe, ctx):
    import builtins
    classes = [type(recipe['name'], (getattr(builtins, b),), {}) for b in recipe['bases']]
    order = [i for i in recipe['order'] if i < len(classes)]
    ctx.nontrivial(True)
    ctx.label('classes-%d' % len(classes))
    for rnd in range(2):
        for i in order:
            cls = classes[i]

            def site(t, cls=cls):
                raise cls('from class #%d' % i)
            try:
                glom.glom({'a': 1}, {'k': site})
            except Exception as e:
                if not isinstance(e, cls):
                    raise Mismatch('class-lost', 'classes %r all named %s raised in order %r: the error of class #%d (%s) came out as %s'
                                   % (recipe['bases'], recipe['name'], order, i, cls.__mro__[1].__name__,
                                      [c.__name__ for c in type(e).__mro__]))
                if e.args != ('from class #%d' % i,):
                    raise Mismatch('args-changed', 'class #%d: args %r' % (i, e.args))
                try:
                    raise e
                except cls:
                    pass
                except Exception:
                    raise Mismatch('class-lost', "the caller's except clause for class #%d does not catch the error" % i)
            else:
                raise Mismatch('error-swallowed', 'class #%d: no error' % i)
    ctx.outcome([recipe['name'], recipe['bases']])


# ---------------------------------------------------------------------------
# histories: instances of ONE class that differ in whether they can be rebuilt from their args

class Quota(Exception):
    """Quota('m') has args ('m',) and can be rebuilt; Quota('m', retry=5) has args ('m', 5) and cannot"""
    def __init__(self, msg, *, retry=None):
        if retry is None:
            Exception.__init__(self, msg)
        else:
            Exception.__init__(self, msg, retry)
        self.retry = retry


class Pair(ValueError):
    """Pair(1) -> args (1,): rebuilt as Pair(1) fine.  Pair(1, 2) -> args (3,): rebuilding changes nothing visible,
    but Pair('a', 'b') -> args ('ab',) is rebuilt as Pair('ab') with the same args: always rebuildable"""
    def __init__(self, a, b=None):
        ValueError.__init__(self, a if b is None else a + b)


class Strict(KeyError):
    """Strict(k) stores (k, 'strict') as args: Strict(*args) raises TypeError -> never rebuildable"""
    def __init__(self, k):
        KeyError.__init__(self, k, 'strict')


def gen_rebuild(draw):
    kinds = ['quota-plain', 'quota-kw', 'pair', 'strict', 'valueerror', 'quota-kw', 'quota-plain']
    return {'raises': [draw(st.sampled_from(kinds)) for _ in range(draw(st.integers(2, 6)))],
            'wrap': draw(st.sampled_from(['dict', 'tuple', 'bare', 'coalesce']))}


def check_rebuild(recipe, ctx):
    made = {'quota-plain': lambda i: Quota('m%d' % i), 'quota-kw': lambda i: Quota('m%d' % i, retry=i),
            'pair': lambda i: Pair('a', 'b%d' % i), 'strict': lambda i: Strict('k%d' % i), 'valueerror': lambda i: ValueError('v%d' % i)}
    seq = recipe['raises']
    ctx.nontrivial(len(set(seq)) >= 2)
    if 'quota-kw' in seq and 'quota-plain' in seq[seq.index('quota-kw'):]:
        ctx.label('rebuildable-after-unrebuildable')
    for i, kind in enumerate(seq):
        exc = made[kind](i)
        try:
            again = type(exc)(*exc.args)
            rebuildable = again.args == exc.args
        except Exception:
            rebuildable = False

        def site(t, exc=exc):
            raise exc
        spec = {'dict': {'k': site}, 'tuple': (T, site), 'bare': site, 'coalesce': Coalesce(T['nope'], site)}[recipe['wrap']]
        try:
            glom.glom({'a': 1}, spec)
        except Exception as e:
            where = 'raise #%d of %r (%s, args %r)' % (i + 1, seq, type(exc).__name__, exc.args)
            if not isinstance(e, type(exc)):
                raise Mismatch('class-lost', '%s came out as %s' % (where, [c.__name__ for c in type(e).__mro__]))
            if e.args != exc.args:
                raise Mismatch('args-changed', '%s came out with args %r' % (where, e.args))
            if rebuildable and not isinstance(e, GlomError):
                raise Mismatch('not-a-glomerror', '%s: this instance can be rebuilt from its args, the raised object must also be a '
                               'GlomError; it is %s' % (where, [c.__name__ for c in type(e).__mro__]))
        else:
            raise Mismatch('error-swallowed', 'raise #%d: no error' % (i + 1))
    ctx.outcome([seq, recipe['wrap']])


CLS_FLOORS = {'cls-glom-subclass': 0.12, 'cls-setattr-refusing': 0.045}
# the enumerated matrix holds every class the same number of times: exact shares (7 step sites of 71 names; 1 class of 71)
MATRIX_FLOORS = dict(CLS_FLOORS, **{'tstep-carried': 0.045, 'tstep-ValueError': 0.008, 'tstep-OverflowError': 0.008,
                                    'tstep-InvalidOperation': 0.008, 'tstep-KeyError': 0.008, 'tstep-TypeError': 0.008,
                                    'tstep-ZeroDivisionError': 0.008, 'cls-args-derived-attr': 0.008})

SUBS = [
    Sub('matrix', check_case, enum=enum_matrix, floors=MATRIX_FLOORS),
    Sub('deep', check_case, gen=gen_deep, quick=3000, thorough=15000,
        floors=dict(CLS_FLOORS, **{'outcome-swallowed': 0.1, 'outcome-raised': 0.1, 'detected': 0.09, 'tstep-carried': 0.04})),
    Sub('reentrant', check_reentrant, gen=gen_reentrant, quick=1500, thorough=6000, floors=dict(CLS_FLOORS)),
    Sub('extension', check_extension, gen=gen_extension, quick=1600, thorough=6000,
        floors={'flat-later': 0.2, 'chained-later': 0.12, 'ext-first-or-alone': 0.17, 'detected': 0.08, 'layers-2': 0.15,
                'outcome-raised': 0.12, 'outcome-swallowed': 0.25, 'via-scope-glom': 0.1, 'via-spec-glom-scope': 0.25,
                'via-spec-glom-scope-own': 0.12, 'via-spec-glomit': 0.12, 'holder-glomit': 0.3, 'holder-invoke-S': 0.14,
                'holder-call-S': 0.14, 'cls-glom-subclass': 0.09, 'cls-setattr-refusing': 0.035, 'tstep-carried': 0.04}),
    Sub('samename', check_samename, gen=gen_samename, quick=400, thorough=2000),
    Sub('rebuild', check_rebuild, gen=gen_rebuild, quick=600, thorough=3000, floors={'rebuildable-after-unrebuildable': 0.1}),
    Sub('mutsite', check_mutsite, enum=enum_mutsite,
        floors=dict(CLS_FLOORS, **{'missing-ignored': 0.01, 'refused-present': 0.0015})),
]
