"""C11 — assign obeys the lens laws and fails atomically.

Generator: tree-shaped targets (plain and recording dict/list/object containers, OrderedDict, tuples,
strings, frozensets, containers whose __setitem__/__setattr__ raise, objects with a read-only
property); destination paths obtained by walking the target so that the prefix exists up to a drawn
position and stops existing there; every spelling the path admits (dotted string, Path with T chunks,
pure T, S-rooted); values: literals, T / Spec(T) copied from elsewhere in the target, the target
itself, a self-referential list; missing in {None, dict, list, object factory, counting factory,
factory raising on its first / second call}; assign() and Assign inside a tuple spec.

Oracle: ref_assign() - the corresponding plain Python assignment on an independently built copy.
"""
from hypothesis import strategies as st

import glom
from glom import Path, T, S, Spec, Assign, GlomError, PathAccessError

from ..runner import Sub, Mismatch
from .. import targets as tg
from .. import mutcommon as mc

PROPERTY = 'C11'
RULE = ('targets: tree-shaped recipes (depth <= 3) incl. immutable and fault-injecting containers; destination paths of '
        '1-4 steps whose prefix stops existing at every possible position, in every admissible spelling; values '
        'literal / T / Spec / self-referential; missing factories incl. counting and raising ones. '
        'Non-trivial = path length >= 2 and (missing used, or a fault / failure, or a T-valued source).')
ASSUMPTIONS = [
    'reference = plain Python item/attribute assignment on an independently built copy of the same recipe',
    'wildcard destinations are covered by C14; atomicity is claimed for wildcard-free paths only',
    'targets are tree-shaped so that a position identifies an object (frame condition by position -> id)',
]


class Factory(object):
    def __init__(self, kind):
        self.kind = kind
        self.calls = 0

    def __call__(self):
        self.calls += 1
        if self.kind == 'raise' or (self.kind == 'raise2' and self.calls >= 2):
            raise RuntimeError('factory refused (call %d)' % self.calls)
        if self.kind == 'list':
            return []
        if self.kind == 'obj':
            return tg.Obj()
        return {}

    def __repr__(self):
        return '<factory %s>' % self.kind


def make_missing(name):
    if name is None:
        return None
    if name == 'dict':
        return dict
    if name == 'list':
        return list
    return Factory(name)


def ref_missing(name):
    if name is None:
        return None
    return Factory({'dict': 'count', 'list': 'list'}.get(name, name))


class RefErr(Exception):
    def __init__(self, kind, k=None, exc=None):
        Exception.__init__(self, kind, k, exc)
        self.kind, self.k, self.exc = kind, k, exc


def do_assign(cur, op, seg, val):
    """plain Python assignment for one step"""
    if op == 'P':
        if isinstance(cur, (tuple, str, bytes, frozenset, int, float, type(None), bool)):
            raise TypeError('immutable')
        if isinstance(cur, dict):
            cur[seg] = val
        elif isinstance(cur, list):
            cur[int(seg)] = val
        else:
            setattr(cur, seg, val)
    elif op == '[':
        cur[seg] = val
    else:
        setattr(cur, seg, val)


def ref_assign(target, steps, val, missing):
    cur = target
    for k in range(len(steps) - 1):
        op, seg = steps[k]
        try:
            cur = mc.access(cur, op, seg)
        except mc.ACCESS_ERRORS as e:
            if op == '[' and isinstance(e, ValueError):
                raise RefErr('other', k, e)
            if op == '.' and not isinstance(e, AttributeError):
                raise RefErr('other', k, e)
            if missing is None:
                raise RefErr('access', k, e)
            try:
                new = missing()
            except Exception as e2:
                raise RefErr('factory', k, e2)
            ref_assign(new, steps[k + 1:], val, missing)      # build the absent tail first ...
            try:
                do_assign(cur, op, seg, new)                  # ... attach it last
            except Exception as e3:
                raise RefErr('attach', k, e3)
            return
    op, seg = steps[-1]
    try:
        do_assign(cur, op, seg, val)
    except Exception as e:
        raise RefErr('assign', len(steps) - 1, e)


def gen_val(draw, target):
    k = draw(st.integers(0, 9))
    if k <= 4:
        return ['lit', draw(st.sampled_from([['i', 42], ['s', 'val'], ['none'], ['list', [['i', 1]]],
                                             ['dict', [['q', ['i', 1]]]], ['tuple', [['i', 1]]],
                                             # an instance of a dict SUBCLASS is a value like any other object
                                             ['odict', [['q', ['i', 1]]]], ['odict', []]]))]
    if k == 5:
        return ['T', []]
    if k == 6:
        return ['selfref']
    # a source elsewhere in the target: valid walk of 1-2 steps
    steps = []
    cur = target
    for _ in range(draw(st.integers(1, 2))):
        kind = mc.kind_of(cur)
        if kind == 'map' and len(cur):
            seg = draw(st.sampled_from(sorted(dict.keys(cur), key=repr)))
            steps.append(['[', seg])
        elif kind == 'seq' and len(cur):
            seg = draw(st.integers(0, len(cur) - 1))
            steps.append(['[', seg])
        else:
            names = sorted(a for a in getattr(cur, '__dict__', {}) if not a.startswith('_'))
            if not names:
                break
            seg = draw(st.sampled_from(names))
            steps.append(['.', seg])
        cur = mc.access(cur, steps[-1][0], seg)
    return ['Spec' if k == 7 else 'T', steps]


def gen(draw):
    trec = mc.gen_target(draw)
    target = mc.build(trec).obj
    steps = mc.gen_steps(draw, target)
    missing = draw(st.sampled_from([None, None, None, 'dict', 'dict', 'list', 'obj', 'count', 'raise', 'raise2']))
    return {'target': trec, 'steps': steps, 'val': gen_val(draw, target), 'missing': missing,
            'api': draw(st.sampled_from(['func', 'spec']))}


def build_val(v, target):
    if v[0] == 'lit':
        return tg.build(v[1]).obj
    if v[0] == 'selfref':
        l = ['loop']
        l.append(l)
        return l
    t = T
    for op, seg in v[1]:
        t = t[seg] if op == '[' else getattr(t, seg)
    return Spec(t) if v[0] == 'Spec' else t


def ref_val(v, target):
    if v[0] == 'lit':
        return tg.build(v[1]).obj
    if v[0] == 'selfref':
        l = ['loop']
        l.append(l)
        return l
    cur = target
    for op, seg in v[1]:
        cur = mc.access(cur, op, seg)
    return cur


def under(pos, prefix):
    return pos[:len(prefix)] == prefix


def check(recipe, ctx):
    steps = [(op, seg) for op, seg in recipe['steps']]
    vrec = recipe['val']
    # ---- reference world
    rb = mc.build(recipe['target'])
    rfac = ref_missing(recipe['missing'])
    rpos_before = mc.positions(rb.obj)
    try:
        try:
            rval = ref_val(vrec, rb.obj)
        except Exception as e:
            raise RefErr('val', None, e)      # the value spec itself cannot be evaluated
        ref_assign(rb.obj, steps, rval, rfac)
        exp = ('ok',)
    except RefErr as e:
        exp = ('err', e.kind, e.k, e.exc)
    ctx.label('exp-' + exp[0], 'len-%d' % len(steps), 'missing-' + str(recipe['missing']), 'val-' + vrec[0])
    if exp[0] == 'err':
        ctx.label('err-' + exp[1])
    ctx.nontrivial(len(steps) >= 2 and (recipe['missing'] is not None or exp[0] == 'err' or vrec[0] in ('T', 'Spec')))
    for sp in mc.spellings(steps):
        gb = mc.build(recipe['target'])
        g = gb.obj
        gfac = make_missing(recipe['missing'])
        path = mc.make_path(steps, sp)
        val = build_val(vrec, g)
        before = tg.snapshot(g)
        pos_before = mc.positions(g)
        src = None
        if vrec[0] in ('T', 'Spec') and exp[0] == 'ok':
            src = ref_val(vrec, g)             # the source object, located BEFORE the mutation
        where = 'spelling=%s assign(%r, %r, %r, missing=%r)' % (sp, g, path, val, gfac)
        scope = {'tgt': g} if sp == 's-rooted' else {}
        ctx.label('spelling-' + sp)
        try:
            if sp == 's-rooted' or recipe['api'] == 'spec':
                res = glom.glom(g, (Assign(path, val, missing=gfac),), scope=scope)
            else:
                res = glom.assign(g, path, val, missing=gfac)
            err = None
        except Exception as e:
            err = e
        if exp[0] == 'ok':
            if err is not None:
                raise Mismatch('spurious-error', '%s: the plain assignment succeeds; glom raised %s: %r'
                               % (where, type(err).__name__, getattr(err, 'args', err)))
            if res is not g:
                raise Mismatch('wrong-return', '%s: must return the same object, got %r' % (where, res))
            if tg.structure(g) != tg.structure(rb.obj):
                raise Mismatch('wrong-effect', '%s: expected %r, got %r' % (where, rb.obj, g))
            # read-back: the path now yields the value
            try:
                back = g
                for op, seg in steps:
                    back = mc.access(back, op, seg)
            except Exception as e:
                raise Mismatch('read-back', '%s: path not readable afterwards: %r' % (where, e))
            if vrec[0] in ('T', 'Spec'):
                if back is not src and not (isinstance(src, tg._ATOM) and back == src):
                    raise Mismatch('read-back', '%s: expected the source object itself, got %r' % (where, back))
            if vrec[0] == 'lit' and vrec[1][0] == 'odict':
                # only plain dict / list / tuple / set literals are templates that are rebuilt; any other object is
                # assigned as it is
                ctx.label('value-of-a-dict-subclass')
                if back is not val:
                    raise Mismatch('read-back', '%s: the assigned value is an OrderedDict instance; the path now holds a copy of it'
                                   % where)
            # frame: every position whose object keeps its identity under the plain Python assignment
            # (everything except the assigned slot and what hangs below it) keeps it under glom, too
            pos_after = mc.positions(g)
            rpos_after = mc.positions(rb.obj)
            for pos, oid in rpos_before.items():
                if rpos_after.get(pos) == oid:
                    if pos not in pos_after or pos_after[pos] != pos_before.get(pos):
                        raise Mismatch('frame', '%s: object at position %r was replaced or lost' % (where, pos))
            if isinstance(gfac, Factory) and gfac.calls != rfac.calls:
                raise Mismatch('factory-calls', '%s: %d absent segments to create, factory called %d times'
                               % (where, rfac.calls, gfac.calls))
        else:
            if err is None:
                raise Mismatch('missing-error', '%s: the plain assignment fails (%s at step %s: %r); glom returned %r'
                               % (where, exp[1], exp[2], exp[3], res))
            d = tg.snapshot_diff(before, tg.snapshot(g))
            if d:
                raise Mismatch('not-atomic', '%s: failed (%s) but the target changed: %s' % (where, type(err).__name__, d))
            if exp[1] == 'access':
                if not isinstance(err, PathAccessError):
                    raise Mismatch('wrong-error-class', '%s: parent segment %d is absent; expected PathAccessError, got %s'
                                   % (where, exp[2], type(err).__name__))
                off = 1 if sp == 's-rooted' else 0
                if err.part_idx != exp[2] + off:
                    raise Mismatch('wrong-part-idx', '%s: absent segment %d, error says %r' % (where, exp[2] + off, err.part_idx))
    ctx.outcome([exp[0], exp[1] if exp[0] == 'err' else None, repr(recipe['steps'])])


# ---------------------------------------------------------------------------
# S-rooted destinations: put-get through the scope

def gen_sassign(draw):
    return {'wrap': draw(st.sampled_from(['bare', 'spec', 'auto', 'coalesce', 'tuple1', 'pipe', 'or', 'dictval'])),
            'pre': draw(st.sampled_from([None, 'old-value'])),
            'dest': draw(st.sampled_from(['name', 'name', 'box.k', 'box.new'])),
            'val': draw(st.sampled_from([['lit', ['i', 42]], ['T', []], ['lit', ['list', [['i', 1]]]]]))}


def check_sassign(recipe, ctx):
    from glom import Auto, Coalesce, Pipe, Or
    target = {'t': 1}
    box = {'k': 'box-old'}
    scope = {'box': box}
    if recipe['pre'] is not None:
        scope['name'] = recipe['pre']
    val = build_val(recipe['val'], target)
    expected_val = target if recipe['val'][0] == 'T' else tg.build(recipe['val'][1]).obj
    dest = recipe['dest']
    if dest == 'name':
        path, reader = S['name'], S['name']
    else:
        key = dest.split('.')[1]
        path, reader = S['box'][key], S['box'][key]
    a = Assign(path, val)
    wrap = recipe['wrap']
    step = {'bare': a, 'spec': Spec(a), 'auto': Auto(a), 'coalesce': Coalesce(a), 'tuple1': (a,), 'pipe': Pipe(a),
            'or': Or(a), 'dictval': a}[wrap]
    ctx.nontrivial(wrap != 'bare')
    ctx.label('wrap-' + wrap, 'dest-' + dest)
    where = 'glom(%r, (%r, %r), scope=%r)' % (target, step, reader, scope)
    if wrap == 'dictval':
        # a dict value is a sibling position: what it binds in the scope is invisible afterwards (C07);
        # only check that the call works and the caller's mapping is left alone
        try:
            glom.glom(target, {'x': a}, scope=scope)
        except Exception as e:
            raise Mismatch('spurious-error', '%s: %r' % (where, e))
    else:
        try:
            got = glom.glom(target, (step, reader), scope=scope)
        except Exception as e:
            raise Mismatch('put-get', '%s: reading the assigned scope name back raised %s: %s'
                           % (where, type(e).__name__, str(e).splitlines()[-1][:200]))
        same = (got is expected_val) if recipe['val'][0] == 'T' else (got == expected_val)
        if not same:
            raise Mismatch('put-get', '%s: read back %r, expected %r' % (where, got, expected_val))
    # the caller's scope mapping itself is never modified (its values may be: box is caller-owned and mutable)
    if set(scope) != ({'box', 'name'} if recipe['pre'] is not None else {'box'}) or scope.get('name') != recipe['pre']:
        raise Mismatch('caller-scope-modified', '%s: caller mapping is now %r' % (where, scope))
    ctx.outcome([wrap, dest])


def gen_wild(draw):
    """Assign through 1-3 wildcards (generator and oracle shared with C14's mutate sub-check)"""
    from . import c14
    r = c14.gen_mutate(draw)
    r['op'] = 'assign'
    return r


def check_wild(recipe, ctx):
    from . import c14
    return c14.check_mutate(recipe, ctx)


SUBS = [
    Sub('assign', check, gen=gen, quick=4000, thorough=15000,
        floors={'exp-ok': 0.2, 'exp-err': 0.2, 'spelling-str': 0.1, 'spelling-t': 0.02}),
    Sub('wild', check_wild, gen=gen_wild, quick=1500, thorough=5000, floors={'wild-2': 0.1, 'wild-3': 0.1}),
    Sub('sassign', check_sassign, gen=gen_sassign, quick=400, thorough=1500),
]
