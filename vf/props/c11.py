"""C11 — assign obeys the lens laws and fails atomically.

Generator: tree-shaped targets (plain and recording dict/list/object containers, OrderedDict, tuples,
strings, frozensets, containers whose __setitem__/__setattr__ raise, objects with a read-only
property); destination paths obtained by walking the target so that the prefix exists up to a drawn
position and stops existing there; every spelling the path admits (dotted string, Path with T chunks,
pure T, S-rooted); values: literals, T / Spec(T) copied from elsewhere in the target, the target
itself, a self-referential list; missing in {None, dict, list, object factory, counting factory,
factory raising on its first / second call}; assign() and Assign inside a tuple spec.
Sub `argpath`: destination paths whose step ARGUMENTS are computed (T[...][T['K']['k1']], Path('a', Spec('K.k1')),
T['a'][Val('b')]): the argument of the last step, of a middle step, of the step at which missing= attaches, of a
step inside the tail missing= builds, and an argument that cannot be evaluated (an error, never "an absent segment").
Sub `reuse`: ONE Assign spec object applied 2-4 times (glom() calls one after the other, Spec(a).glom, [a] / [{'r': a}]
over a list of targets, an S-rooted destination in one caller-owned object filled from several items); the targets differ
in what the computed step arguments denote (below the break point, at it, above it) and in where the path stops existing.
Every application equals the plain Python assignment on its own target.

Oracle: ref_assign() - the corresponding plain Python assignment on an independently built copy; a computed step
argument denotes the value it has on the target before the assignment (that is what reading the path does).
"""
from hypothesis import strategies as st

import glom
from glom import Path, T, S, Spec, Val, Assign, GlomError, PathAccessError

from ..runner import Sub, Mismatch, HarnessBug
from .. import targets as tg
from .. import mutcommon as mc

PROPERTY = 'C11'
RULE = ('targets: tree-shaped recipes (depth <= 3) incl. immutable and fault-injecting containers; destination paths of '
        '1-4 steps whose prefix stops existing at every possible position, in every admissible spelling; values '
        'literal / T / Spec / self-referential; missing factories incl. counting and raising ones. '
        'argpath: the same with step arguments computed from the target (T / Spec / Val) at the last, a middle, the '
        'attaching and a missing-built step, and arguments that fail. '
        'reuse: one Assign object applied to 2-4 targets (successive calls, [spec] over a list, one S-rooted destination '
        'object) on which its computed arguments denote different keys and the path breaks at the same / another segment. '
        'Non-trivial = path length >= 2 and (missing used, or a fault / failure, or a T-valued source, or a computed '
        'step argument).')
ASSUMPTIONS = [
    'reference = plain Python item/attribute assignment on an independently built copy of the same recipe',
    'wildcard destinations are covered by C14; atomicity is claimed for wildcard-free paths only',
    'targets are tree-shaped so that a position identifies an object (frame condition by position -> id)',
    'a T / Spec step argument of a destination denotes its value on the target as it is before the assignment',
    'reuse: a spec object has no memory - applying it to a target means what a fresh, equal spec would mean there; '
    'an error inside [spec] ends the evaluation of the list (the items before it were assigned, the failing one is untouched)',
]


class Factory(object):
    def __init__(self, kind):
        self.kind = kind
        self.calls = 0

    def __call__(self):
        self.calls += 1
        if self.kind == 'raise' or (self.kind == 'raise2' and self.calls >= 2):
            raise RuntimeError('factory refused (call %d)' % self.calls)
        if self.kind == 'list':
            return []
        if self.kind == 'obj':
            return tg.Obj()
        return {}

    def __repr__(self):
        return '<factory %s>' % self.kind


def make_missing(name):
    if name is None:
        return None
    if name == 'dict':
        return dict
    if name == 'list':
        return list
    return Factory(name)


def ref_missing(name):
    if name is None:
        return None
    return Factory({'dict': 'count', 'list': 'list'}.get(name, name))


class RefErr(Exception):
    def __init__(self, kind, k=None, exc=None):
        Exception.__init__(self, kind, k, exc)
        self.kind, self.k, self.exc = kind, k, exc


def do_assign(cur, op, seg, val):
    """plain Python assignment for one step"""
    if op == 'P':
        if isinstance(cur, (tuple, str, bytes, frozenset, int, float, type(None), bool)):
            raise TypeError('immutable')
        if isinstance(cur, dict):
            cur[seg] = val
        elif isinstance(cur, list):
            cur[int(seg)] = val
        else:
            setattr(cur, seg, val)
    elif op == '[':
        cur[seg] = val
    else:
        setattr(cur, seg, val)


def ref_assign(target, steps, val, missing):
    cur = target
    for k in range(len(steps) - 1):
        op, seg = steps[k]
        try:
            cur = mc.access(cur, op, seg)
        except mc.ACCESS_ERRORS as e:
            if op == '[' and isinstance(e, ValueError):
                raise RefErr('other', k, e)
            if op == '.' and not isinstance(e, AttributeError):
                raise RefErr('other', k, e)
            if missing is None:
                raise RefErr('access', k, e)
            try:
                new = missing()
            except Exception as e2:
                raise RefErr('factory', k, e2)
            ref_assign(new, steps[k + 1:], val, missing)      # build the absent tail first ...
            try:
                do_assign(cur, op, seg, new)                  # ... attach it last
            except Exception as e3:
                raise RefErr('attach', k, e3)
            return
    op, seg = steps[-1]
    try:
        do_assign(cur, op, seg, val)
    except Exception as e:
        raise RefErr('assign', len(steps) - 1, e)


def gen_val(draw, target):
    k = draw(st.integers(0, 9))
    if k <= 4:
        return ['lit', draw(st.sampled_from([['i', 42], ['s', 'val'], ['none'], ['list', [['i', 1]]],
                                             ['dict', [['q', ['i', 1]]]], ['tuple', [['i', 1]]],
                                             # an instance of a dict SUBCLASS is a value like any other object
                                             ['odict', [['q', ['i', 1]]]], ['odict', []]]))]
    if k == 5:
        return ['T', []]
    if k == 6:
        return ['selfref']
    # a source elsewhere in the target: valid walk of 1-2 steps
    steps = []
    cur = target
    for _ in range(draw(st.integers(1, 2))):
        kind = mc.kind_of(cur)
        if kind == 'map' and len(cur):
            seg = draw(st.sampled_from(sorted(dict.keys(cur), key=repr)))
            steps.append(['[', seg])
        elif kind == 'seq' and len(cur):
            seg = draw(st.integers(0, len(cur) - 1))
            steps.append(['[', seg])
        else:
            names = sorted(a for a in getattr(cur, '__dict__', {}) if not a.startswith('_'))
            if not names:
                break
            seg = draw(st.sampled_from(names))
            steps.append(['.', seg])
        cur = mc.access(cur, steps[-1][0], seg)
    return ['Spec' if k == 7 else 'T', steps]


def gen(draw):
    trec = mc.gen_target(draw)
    target = mc.build(trec).obj
    steps = mc.gen_steps(draw, target)
    missing = draw(st.sampled_from([None, None, None, 'dict', 'dict', 'list', 'obj', 'count', 'raise', 'raise2']))
    return {'target': trec, 'steps': steps, 'val': gen_val(draw, target), 'missing': missing,
            'api': draw(st.sampled_from(['func', 'spec']))}


# ---------------------------------------------------------------------------
# computed step arguments (sub `argpath`)
#
# recipe['args'] = [[k, kind, name], ...]: step k of the destination is spelled with an argument that glom has to
# evaluate; the value it denotes sits in a holder mapping added to the root of the target under HOLDER
# (target[HOLDER][name], or target.K[name] when the root is an attribute object), so the oracle reads it from there.

HOLDER = 'K'
ARG_KINDS = ['T', 'T', 'Spec', 'SpecStr', 'Val']
FAIL_KINDS = ['failT0', 'failT1', 'failSpec']       # arguments that cannot be evaluated
_MUTABLE = (dict, list, tg.Obj)


def _attr_names(cur):
    return sorted(a for a in getattr(cur, '__dict__', {}) if isinstance(a, str) and not a.startswith('_'))


def gen_args(draw, classes=('last', 'mid', 'attach', 'tail')):
    trec = mc.gen_target(draw)
    if trec[0] in ('list', 'rlist', 'lsub'):
        # the holder is an entry of the root: a sequence root is put below a mapping / object
        trec = [draw(st.sampled_from(['dict', 'rdict', 'obj'])), [['a', trec]]]
    target = mc.build(trec).obj
    cls = draw(st.sampled_from(classes))
    if cls in ('last', 'mid'):
        missing = draw(st.sampled_from([None, None, 'dict', 'count', 'list', 'obj']))
    elif cls == 'fail':
        missing = draw(st.sampled_from(['dict', 'dict', 'count', 'obj', 'list', None]))
    else:
        missing = draw(st.sampled_from(['dict', 'dict', 'count', 'count', 'obj', 'list', 'raise2']))
    n = draw(st.sampled_from([1, 2, 2, 3, 3, 4] if cls == 'last' else [2, 3, 3, 4] if cls == 'tail' else [2, 2, 3, 3, 4]))
    # b: index of the first absent parent segment (None: the prefix exists as far as the target reaches)
    if cls == 'tail':
        b = draw(st.sampled_from([0, 0] + list(range(n - 1))))
    elif cls == 'attach':
        b = draw(st.sampled_from(range(n - 1)))
    elif cls == 'fail':
        b = draw(st.sampled_from([None, None, None] + list(range(n - 1))))
    else:
        b = None
    # where the computed arguments go
    if cls == 'last':
        prim = n - 1
    elif cls == 'mid':
        prim = draw(st.sampled_from(range(n - 1)))
    elif cls == 'attach':
        prim = b
    elif cls == 'tail':
        # (inside the tail that missing= builds: mostly not its last step)
        prim = draw(st.sampled_from(list(range(b + 1, n - 1)) * 2 + [n - 1]))
    else:
        prim = draw(st.sampled_from(list(range(n - 1)) * 3 + [n - 1]))
    argpos = set([prim])
    for k in range(n):
        if draw(st.integers(0, 3)) == 0:
            argpos.add(k)
    steps = []
    cur, broken = target, False
    i = 0
    while i < n:
        last = (i == n - 1)
        seg = None
        if not broken and i != b:
            kind = mc.kind_of(cur)
            if kind == 'map':
                cands = sorted(dict.keys(cur), key=repr)
                get = lambda s_: dict.__getitem__(cur, s_)
            elif kind == 'seq':
                cands = list(range(len(cur)))
                get = lambda s_: (list if isinstance(cur, list) else tuple).__getitem__(cur, s_)
            else:
                cands = _attr_names(cur)
                get = lambda s_: mc._getattr(cur, s_)
            if not last:
                good = [c for c in cands if isinstance(get(c), _MUTABLE)]
                if good and draw(st.integers(0, 3)) < 3:
                    cands = good
            if cands and (not last or kind == 'seq' or draw(st.integers(0, 9)) < 6):
                seg = draw(st.sampled_from(cands))
                if kind == 'seq' and draw(st.booleans()):
                    seg -= len(cur)
            elif not last and b is None:
                # nowhere to walk to: this step is the (absent) destination
                n, last = i + 1, True
        if seg is None:
            # a segment that is not there
            kind = mc.kind_of(cur) if not broken else 'built'
            if kind == 'map':
                seg = draw(st.sampled_from(['zz', 'new', 5]))
            elif kind == 'seq':
                seg = len(cur)              # out of range
            elif kind == 'attr':
                seg = draw(st.sampled_from(['zz', 'new']))
            else:
                seg = draw(st.sampled_from(['zz', 'new', 'a', 5, 0]))
        kind = mc.kind_of(cur) if not broken else 'built'
        if kind == 'attr':
            op = 'P' if i in argpos else draw(st.sampled_from(['.', 'P']))
        elif kind == 'built' and i not in argpos and isinstance(seg, str) and draw(st.integers(0, 4)) == 0:
            op = '.'
        else:
            op = draw(st.sampled_from(['[', '[', 'P']))
            if op == 'P' and kind == 'seq' and draw(st.booleans()):
                seg = str(seg)
        steps.append([op, seg])
        if not broken:
            try:
                cur = mc.access(cur, op, seg)
            except Exception:
                broken = True
        i += 1
    argpos = sorted(k for k in argpos if k < n)
    if not argpos or (prim >= n and n - 1 not in argpos):
        argpos = sorted(set(argpos + [n - 1]))
    for k in argpos:
        if steps[k][0] == '.':
            steps[k][0] = 'P'       # (an attribute step takes no argument expression; same access on an object)
    args = []
    for k in argpos:
        fails = (cls == 'fail' and k == min(prim, n - 1))
        args.append([k, draw(st.sampled_from(FAIL_KINDS if fails else ARG_KINDS)), 'k%d' % k])
    holder = ['dict', [[name, ['i' if isinstance(steps[k][1], int) else 's', steps[k][1]]] for k, _, name in args]]
    trec = [trec[0], list(trec[1]) + [[HOLDER, holder]]]
    target = mc.build(trec).obj
    return {'target': trec, 'steps': steps, 'args': args, 'val': gen_val(draw, target), 'missing': missing,
            'api': draw(st.sampled_from(['func', 'spec'])), 'sp': ['path', 't']}


def gen_args_s(draw):
    """the same cases, spelled S-rooted (Path(S['tgt'], ...)): T in an argument still means the target"""
    r = gen_args(draw, ('last', 'mid', 'attach', 'tail', 'fail', 'fail'))
    r['sp'] = ['s-rooted']
    return r


def gen_argfail(draw):
    """an argument that cannot be evaluated: the path denotes no place, whatever missing= is"""
    return gen_args(draw, ('fail',))


def _holder(root):
    if isinstance(root, dict):
        return dict.__getitem__(root, HOLDER)
    return object.__getattribute__(root, '__dict__')[HOLDER]


def ref_args(target, steps, args):
    """the steps with every computed argument replaced by the value it denotes on the target as it is now
    (plain Python: target['K'][name] / target.K[name]); an argument that cannot be evaluated is an error"""
    out = list(steps)
    for k in sorted(args):
        kind, name = args[k]
        if kind in FAIL_KINDS:
            raise RefErr('arg', k, KeyError('nokey'))
        v = steps[k][1] if kind == 'Val' else _holder(target)[name]
        if type(v) is not type(steps[k][1]) or v != steps[k][1]:
            raise HarnessBug('argpath recipe is inconsistent: step %d is %r, its argument denotes %r' % (k, steps[k], v))
        out[k] = (steps[k][0], v)
    return out


def build_arg(kind, name, seg, root):
    base = T[HOLDER] if isinstance(root, dict) else getattr(T, HOLDER)
    if kind == 'T':
        return base[name]
    if kind == 'Spec':
        return Spec(base[name])
    if kind == 'SpecStr':
        return Spec('%s.%s' % (HOLDER, name))
    if kind == 'Val':
        return Val(seg)
    if kind == 'failT0':
        return T['nokey'] if isinstance(root, dict) else T.nokey
    if kind == 'failT1':
        return base['nokey']
    if kind == 'failSpec':
        return Spec('%s.nokey' % HOLDER)
    raise HarnessBug('unknown argument kind %r' % (kind,))


def make_path_args(steps, spelling, argobjs):
    """mc.make_path with the steps in `argobjs` spelled with their argument expression"""
    if spelling == 't':
        t = T
        for k, (op, seg) in enumerate(steps):
            if op == '.' and k in argobjs:
                raise HarnessBug('an attribute step cannot carry a computed argument')
            t = t[argobjs.get(k, seg)] if op == '[' else getattr(t, seg)
        return t
    parts = [S['tgt']] if spelling == 's-rooted' else []
    for k, (op, seg) in enumerate(steps):
        if k in argobjs:
            a = argobjs[k]
            if op == '.':
                raise HarnessBug('an attribute step cannot carry a computed argument')
            if op == 'P':
                # (a bare T among the parts of a Path is a run of steps, not an argument)
                parts.append(Spec(a) if isinstance(a, type(T)) else a)
            else:
                parts.append(T[a])
        elif op == 'P':
            parts.append(seg)
        elif op == '[':
            parts.append(T[seg])
        else:
            parts.append(getattr(T, seg))
    return Path(*parts)


def build_val(v, target):
    if v[0] == 'lit':
        return tg.build(v[1]).obj
    if v[0] == 'selfref':
        l = ['loop']
        l.append(l)
        return l
    t = T
    for op, seg in v[1]:
        t = t[seg] if op == '[' else getattr(t, seg)
    return Spec(t) if v[0] == 'Spec' else t


def ref_val(v, target):
    if v[0] == 'lit':
        return tg.build(v[1]).obj
    if v[0] == 'selfref':
        l = ['loop']
        l.append(l)
        return l
    cur = target
    for op, seg in v[1]:
        cur = mc.access(cur, op, seg)
    return cur


def label_args(ctx, target, steps, args, missing):
    """classes of computed arguments by their place relative to the first absent parent segment"""
    n = len(steps)
    if any(kind in FAIL_KINDS for kind, _ in args.values()):
        ctx.label('arg-fail')
        if missing is not None and min(k for k, (kind, _) in args.items() if kind in FAIL_KINDS) < n - 1:
            ctx.label('arg-fail-mid-missing')
        return []
    b, cur = None, target
    for k in range(n - 1):
        try:
            cur = mc.access(cur, steps[k][0], steps[k][1])
        except Exception:
            b = k
            break
    labs = set()
    for k, (kind, _) in args.items():
        labs.add('argkind-' + kind)
        if b is None or k < b:
            labs.add('arg-last' if k == n - 1 else 'arg-mid')
        elif missing is None:
            labs.add('arg-beyond-break')
        else:
            labs.add('arg-attach' if k == b else 'arg-tail')
            if k > b and k < n - 1:
                labs.add('arg-tail-inner')
    ctx.label(*sorted(labs))
    return sorted(labs)


def under(pos, prefix):
    return pos[:len(prefix)] == prefix


def check(recipe, ctx):
    steps = [(op, seg) for op, seg in recipe['steps']]
    args = dict((k, (kind, name)) for k, kind, name in recipe.get('args', []))
    vrec = recipe['val']
    # ---- reference world
    rb = mc.build(recipe['target'])
    rfac = ref_missing(recipe['missing'])
    rpos_before = mc.positions(rb.obj)
    arglabs = []
    try:
        try:
            rval = ref_val(vrec, rb.obj)
        except Exception as e:
            raise RefErr('val', None, e)      # the value spec itself cannot be evaluated
        if args:
            arglabs = label_args(ctx, rb.obj, steps, args, recipe['missing'])
            # every computed argument denotes its value on the target as it is BEFORE the assignment
            steps = ref_args(rb.obj, steps, args)
        ref_assign(rb.obj, steps, rval, rfac)
        exp = ('ok',)
    except RefErr as e:
        exp = ('err', e.kind, e.k, e.exc)
    ctx.label('exp-' + exp[0], 'len-%d' % len(steps), 'missing-' + str(recipe['missing']), 'val-' + vrec[0])
    if exp[0] == 'err':
        ctx.label('err-' + exp[1])
    else:
        ctx.label(*[l + '-ok' for l in arglabs if not l.startswith('argkind-')])
    ctx.nontrivial(len(steps) >= 2 and (recipe['missing'] is not None or exp[0] == 'err' or vrec[0] in ('T', 'Spec')
                                        or bool(args)))
    for sp in mc.spellings(steps):
        if (args and sp == 'str') or ('sp' in recipe and sp not in recipe['sp']):
            continue
        gb = mc.build(recipe['target'])
        g = gb.obj
        gfac = make_missing(recipe['missing'])
        if args:
            path = make_path_args(steps, sp, dict((k, build_arg(kind, name, steps[k][1], g))
                                                  for k, (kind, name) in args.items()))
        else:
            path = mc.make_path(steps, sp)
        val = build_val(vrec, g)
        before = tg.snapshot(g)
        pos_before = mc.positions(g)
        src = None
        if vrec[0] in ('T', 'Spec') and exp[0] == 'ok':
            src = ref_val(vrec, g)             # the source object, located BEFORE the mutation
        where = 'spelling=%s assign(%r, %r, %r, missing=%r)' % (sp, g, path, val, gfac)
        scope = {'tgt': g} if sp == 's-rooted' else {}
        ctx.label('spelling-' + sp)
        try:
            if sp == 's-rooted' or recipe['api'] == 'spec':
                res = glom.glom(g, (Assign(path, val, missing=gfac),), scope=scope)
            else:
                res = glom.assign(g, path, val, missing=gfac)
            err = None
        except Exception as e:
            err = e
        if exp[0] == 'ok':
            if err is not None:
                raise Mismatch('spurious-error', '%s: the plain assignment succeeds; glom raised %s: %r'
                               % (where, type(err).__name__, getattr(err, 'args', err)))
            if res is not g:
                raise Mismatch('wrong-return', '%s: must return the same object, got %r' % (where, res))
            if tg.structure(g) != tg.structure(rb.obj):
                raise Mismatch('wrong-effect', '%s: expected %r, got %r' % (where, rb.obj, g))
            # read-back: the path now yields the value
            try:
                back = g
                for op, seg in steps:
                    back = mc.access(back, op, seg)
            except Exception as e:
                raise Mismatch('read-back', '%s: path not readable afterwards: %r' % (where, e))
            if vrec[0] in ('T', 'Spec'):
                if back is not src and not (isinstance(src, tg._ATOM) and back == src):
                    raise Mismatch('read-back', '%s: expected the source object itself, got %r' % (where, back))
            if args:
                # "reading the path yields val": the same path object, read by glom
                try:
                    gback = glom.glom(g, path, scope=scope)
                except Exception as e:
                    raise Mismatch('read-back', '%s: glom(target, path) afterwards raised %s: %r'
                                   % (where, type(e).__name__, getattr(e, 'args', e)))
                if not tg.same(gback, back):
                    raise Mismatch('read-back', '%s: glom(target, path) afterwards gives %r, the assigned slot holds %r'
                                   % (where, gback, back))
            if vrec[0] == 'lit' and vrec[1][0] == 'odict':
                # only plain dict / list / tuple / set literals are templates that are rebuilt; any other object is
                # assigned as it is
                ctx.label('value-of-a-dict-subclass')
                if back is not val:
                    raise Mismatch('read-back', '%s: the assigned value is an OrderedDict instance; the path now holds a copy of it'
                                   % where)
            # frame: every position whose object keeps its identity under the plain Python assignment
            # (everything except the assigned slot and what hangs below it) keeps it under glom, too
            pos_after = mc.positions(g)
            rpos_after = mc.positions(rb.obj)
            for pos, oid in rpos_before.items():
                if rpos_after.get(pos) == oid:
                    if pos not in pos_after or pos_after[pos] != pos_before.get(pos):
                        raise Mismatch('frame', '%s: object at position %r was replaced or lost' % (where, pos))
            if isinstance(gfac, Factory) and gfac.calls != rfac.calls:
                raise Mismatch('factory-calls', '%s: %d absent segments to create, factory called %d times'
                               % (where, rfac.calls, gfac.calls))
        else:
            if err is None:
                if exp[1] == 'arg':
                    raise Mismatch('failed-argument-ignored' + ('-last' if exp[2] == len(steps) - 1 else '-mid'), '%s: the argument of step %s cannot be evaluated (%r): the path '
                                   'denotes no place; glom returned %r, target now %r' % (where, exp[2], exp[3], res, g))
                raise Mismatch('missing-error', '%s: the plain assignment fails (%s at step %s: %r); glom returned %r'
                               % (where, exp[1], exp[2], exp[3], res))
            d = tg.snapshot_diff(before, tg.snapshot(g))
            if d:
                raise Mismatch('not-atomic', '%s: failed (%s) but the target changed: %s' % (where, type(err).__name__, d))
            if exp[1] == 'access':
                if not isinstance(err, PathAccessError):
                    raise Mismatch('wrong-error-class', '%s: parent segment %d is absent; expected PathAccessError, got %s'
                                   % (where, exp[2], type(err).__name__))
                off = 1 if sp == 's-rooted' else 0
                if err.part_idx != exp[2] + off:
                    raise Mismatch('wrong-part-idx', '%s: absent segment %d, error says %r' % (where, exp[2] + off, err.part_idx))
    ctx.outcome([exp[0], exp[1] if exp[0] == 'err' else None, repr(recipe['steps'])])


# ---------------------------------------------------------------------------
# ONE Assign spec object evaluated several times (sub `reuse`)
#
# The statement speaks of "a successful assign(obj, path, val) or Assign spec": a spec is a value that may be applied
# to any number of targets (glom(t1, a); glom(t2, a) / [a] over a list / Spec(a).glom(t) ...), and EACH application has
# to equal the plain Python assignment on ITS target.  recipe['evals'] lists the applications: every one gets its own
# copy of the target recipe in which the holder entries named in 'hold' have other values (so the computed step
# arguments of the one destination path denote other keys there), and, with 'pre' = m, in which the first m absent
# parent segments were created beforehand in plain Python (so the path stops existing later, or not at all).
# Modes `shared-*`: the destination is rooted at ONE caller-owned object in the scope (S['tgt']) and the evaluations
# run on the items, which only supply the arguments and the value (a log / index filled from many items).

REUSE_MODES = ['list', 'seq', 'seq-tuple', 'specobj', 'shared-list', 'list', 'seq', 'listdict', 'shared-seq', 'list']
REUSE_HOW = ['tail', 'tail', 'tail', 'tail', 'tail+later', 'mixed']
TAIL_KEYS = ['zz', 'new', 'a', 'b', 'k', 5, 0]
PRE_KIND = {'dict': 'count', 'list': 'list', 'obj': 'obj', 'count': 'count', 'raise2': 'count', 'raise': 'count', None: 'count'}


def break_index(root, steps):
    """index of the first parent segment that is absent (None: every parent exists)"""
    cur = root
    for k in range(len(steps) - 1):
        try:
            cur = mc.access(cur, steps[k][0], steps[k][1])
        except Exception:
            return k
    return None


def variant_trec(trec, hold):
    """the target recipe with other values in the holder"""
    if not hold:
        return trec
    h = dict((name, v) for name, v in hold)
    entries = list(trec[1])
    key, holder = entries[-1]
    if key != HOLDER or set(h) - set(name for name, _ in holder[1]):
        raise HarnessBug('reuse recipe is inconsistent: %r overrides %r' % (holder, hold))
    new = ['dict', [[name, ['i' if isinstance(h[name], int) else 's', h[name]] if name in h else v]
                    for name, v in holder[1]]]
    return [trec[0], entries[:-1] + [[HOLDER, new]]]


def resolve_args(target, steps, args):
    """the steps with every computed argument replaced by the value it denotes on THIS target
    (plain Python: target['K'][name] / target.K[name]); a Val argument is the constant it wraps"""
    out = list(steps)
    for k in sorted(args):
        kind, name = args[k]
        if kind in FAIL_KINDS:
            raise HarnessBug('reuse recipes have no failing arguments')
        if kind != 'Val':
            out[k] = (steps[k][0], _holder(target)[name])
    return out


def gen_val_reuse(draw, target):
    """values whose identity across several evaluations the statement settles: atoms, and T / Spec sources in the
    target of the evaluation (whether a container literal is shared between evaluations is not C11's business)"""
    v = gen_val(draw, target)
    if v[0] == 'selfref' or (v[0] == 'lit' and v[1][0] not in ('i', 's', 'none')):
        v = ['lit', draw(st.sampled_from([['i', 42], ['s', 'val'], ['none']]))]
    return v


def gen_reuse(draw):
    mode = draw(st.sampled_from(REUSE_MODES))
    shared = mode.startswith('shared')
    r = gen_args(draw, ('tail', 'tail', 'tail', 'tail', 'tail', 'attach') if shared else
                 ('tail', 'tail', 'tail', 'tail', 'attach', 'mid', 'last'))
    trec, steps = r['target'], r['steps']
    # (a constant argument cannot differ between the evaluations: fewer of those here)
    args = [[k, 'T' if kind == 'Val' and draw(st.integers(0, 2)) else kind, name] for k, kind, name in r['args']]
    target = mc.build(trec).obj
    n = len(steps)
    b = break_index(target, steps)
    if shared and b is not None and any(k > b for k, _, _ in args) and all(k != b for k, _, _ in args):
        # one destination object for all evaluations: the path stops existing at the same segment again only where
        # the attaching segment is another one, too - it is computed as well
        if steps[b][0] == '.':
            steps[b][0] = 'P'
        name = 'k%d' % b
        args = sorted(args + [[b, draw(st.sampled_from(['T', 'Spec', 'SpecStr'])), name]])
        holder = trec[1][-1][1]
        trec = [trec[0], trec[1][:-1] + [[HOLDER, ['dict', holder[1] + [[name, ['i' if isinstance(steps[b][1], int) else 's',
                                                                           steps[b][1]]]]]]]]
        target = mc.build(trec).obj
    moving = [[k, name] for k, kind, name in args if kind != 'Val']
    below = [[k, name] for k, name in moving if b is not None and k > b]
    upto = [[k, name] for k, name in moving if b is None or k <= b]

    def others(k):
        """other values for the argument of step k (k <= b): another child of the same container / another absent key"""
        cur = target
        for op, seg in steps[:k]:
            cur = mc.access(cur, op, seg)
        seg = steps[k][1]
        kind = mc.kind_of(cur)
        if k == b:
            if kind == 'seq':
                return [str(int(seg) + 1) if isinstance(seg, str) else seg + 1]
            return [v for v in ['zz', 'new', 'qq', 'rr'] if v != seg]
        if kind == 'map':
            return [c for c in sorted(dict.keys(cur), key=repr) if c != seg and c != HOLDER and isinstance(c, (int, str))]
        if kind == 'seq':
            return [c for c in [str(c) if isinstance(seg, str) else c for c in range(len(cur))] if c != seg]
        return [c for c in _attr_names(cur) if c != seg and c != HOLDER]

    evals = [{'hold': [], 'pre': 0}]
    for _ in range(draw(st.sampled_from([1, 1, 2, 2, 3]))):
        how = draw(st.sampled_from((REUSE_HOW if below else []) + (['later', 'later'] if b is not None and not shared else [])
                                   + (['prefix', 'prefix'] if upto else []) + ['same']))
        hold, pre = [], 0
        if how in ('tail', 'tail+later', 'mixed'):
            must = draw(st.sampled_from(range(len(below))))
            for j, (k, name) in enumerate(below):
                if j == must or draw(st.booleans()):
                    hold.append([name, draw(st.sampled_from([v for v in TAIL_KEYS if v != steps[k][1]]))])
            if shared and how != 'mixed':
                hold.extend([name, draw(st.sampled_from(others(k)))] for k, name in upto if k == b)
        if how in ('later', 'tail+later') and not shared:
            pre = draw(st.sampled_from(range(1, n - b)))
        if how in ('prefix', 'mixed'):
            for k, name in upto:
                cands = others(k)
                if cands and draw(st.integers(0, 3)) > 0:
                    hold.append([name, draw(st.sampled_from(cands))])
        evals.append({'hold': hold, 'pre': pre})
    sps = ['s-rooted'] if mode.startswith('shared') else ['path', 't'] if mode in ('list', 'listdict') else \
        draw(st.sampled_from([['path', 't'], ['path', 't'], ['s-rooted']]))
    return {'target': trec, 'steps': steps, 'args': args, 'val': gen_val_reuse(draw, target), 'missing': r['missing'],
            'mode': mode, 'evals': evals, 'sp': sps}


def check_reuse(recipe, ctx):
    base = [(op, seg) for op, seg in recipe['steps']]
    args = dict((k, (kind, name)) for k, kind, name in recipe['args'])
    vrec, mode, mname, evals = recipe['val'], recipe['mode'], recipe['missing'], recipe['evals']
    shared, bulk = mode.startswith('shared'), mode in ('list', 'listdict', 'shared-list')
    n, ne = len(base), len(evals)

    def world():
        """the targets of the evaluations (+ the shared destination root), independently built"""
        objs = [mc.build(variant_trec(recipe['target'], ev['hold'])).obj for ev in evals]
        for o, ev in zip(objs, evals):
            if ev['pre'] and not shared:
                st_ = resolve_args(o, base, args)
                b = break_index(o, st_)
                if b is not None:
                    fac = Factory(PRE_KIND[mname])
                    try:
                        ref_assign(o, st_[:min(b + ev['pre'], n - 1)], fac(), fac)     # plain Python, both worlds alike
                    except RefErr:
                        pass
        return objs + ([mc.build(recipe['target']).obj] if shared else [])

    def dest(w, i):
        return w[-1] if shared else w[i]

    # ---- reference world: the plain Python assignment, evaluation after evaluation, each on its own target
    rw = world()
    rfac = ref_missing(mname)
    facts, rstruct, rcalls, rpos = [], [tg.structure(rw)], [0], [mc.positions(rw)]
    for i in range(ne):
        st_ = resolve_args(rw[i], base, args)
        b = break_index(dest(rw, i), st_)
        try:
            try:
                rval = ref_val(vrec, rw[i])
            except Exception as e:
                raise RefErr('val', None, e)
            ref_assign(dest(rw, i), st_, rval, rfac)
            facts.append(('ok', st_, b))
        except RefErr as e:
            facts.append(('err', st_, b, e.kind, e.k, e.exc))
        rstruct.append(tg.structure(rw))
        rcalls.append(rfac.calls if rfac is not None else 0)
        rpos.append(mc.positions(rw))
        if bulk and facts[-1][0] == 'err':
            break           # (an error ends the evaluation of the enclosing [spec])
    nrun = len(facts)
    first_err = nrun - 1 if facts[-1][0] == 'err' else None

    # ---- classes, from the facts
    labs = set(['evals-%d' % ne, 'mode-' + mode, 'missing-' + str(mname), 'val-' + vrec[0]])
    moving = [k for k, (kind, _) in args.items() if kind != 'Val']
    for j in range(nrun):
        labs.add('eval-' + facts[j][0])
        for i in range(j):
            (ei, si, bi), (ej, sj, bj) = facts[i][:3], facts[j][:3]
            ok = '-ok' if ei == ej == 'ok' else ''
            diff = [k for k in moving if si[k] != sj[k]]
            if not diff and bi == bj and evals[i] == evals[j]:
                labs.add('reuse-identical' + ok)
            if mname is None or bi is None or bj is None:
                if diff:
                    labs.add('reuse-arg-differs' + ok)
                continue
            if bi != bj:
                labs.add('reuse-other-break' + ok)
                continue
            labs.add('reuse-same-break' + ok)
            if any(k > bi for k in diff):
                labs.add('reuse-same-break-tail-arg-differs' + ok)
                labs.add('reuse-same-break-tail-arg-differs' + ok + '-in-' + ('shared' if shared else 'bulk' if bulk else 'seq'))
                if any(bi < k < n - 1 for k in diff):
                    labs.add('reuse-same-break-inner-arg-differs' + ok)
            if any(k == bi for k in diff):
                labs.add('reuse-same-break-attach-arg-differs' + ok)
            if any(k < bi for k in diff):
                labs.add('reuse-same-break-prefix-arg-differs' + ok)
    ctx.label(*sorted(labs))
    ctx.nontrivial(n >= 2 and nrun >= 2)

    for sp in mc.spellings(base):
        if sp == 'str' or sp not in recipe['sp']:
            continue
        ctx.label('spelling-' + sp)
        gw = world()
        gfac = make_missing(mname)
        path = make_path_args(base, sp, dict((k, build_arg(kind, name, base[k][1], gw[0]))
                                             for k, (kind, name) in args.items()))
        a = Assign(path, build_val(vrec, gw[0]), missing=gfac)      # THE spec object: built once
        holder_spec = Spec(a)
        srcs = [ref_val(vrec, gw[i]) if vrec[0] in ('T', 'Spec') and facts[i][0] == 'ok' else None for i in range(nrun)]

        def scope_of(i):
            return {'tgt': dest(gw, i)} if sp == 's-rooted' else {}

        def where(i):
            return 'spelling=%s mode=%s a = %r; evaluation %d of %d (targets %r%s)' % (
                sp, mode, a, i, ne, gw[:ne], ', scope tgt=%r' % (gw[-1],) if shared else '')

        def read_back(i):
            # reading the path (as it resolves on the target of evaluation i) yields the value
            try:
                back = dest(gw, i)
                for op, seg in facts[i][1]:
                    back = mc.access(back, op, seg)
            except Exception as e:
                raise Mismatch('read-back', '%s: path not readable afterwards: %r' % (where(i), e))
            if vrec[0] in ('T', 'Spec'):
                if back is not srcs[i] and not (isinstance(srcs[i], tg._ATOM) and back == srcs[i]):
                    raise Mismatch('read-back', '%s: expected the source object itself, got %r' % (where(i), back))
            try:
                gback = glom.glom(gw[i], path, scope=scope_of(i))
            except Exception as e:
                raise Mismatch('read-back', '%s: glom(target, path) afterwards raised %s: %r'
                               % (where(i), type(e).__name__, getattr(e, 'args', e)))
            if not tg.same(gback, back):
                raise Mismatch('read-back', '%s: glom(target, path) afterwards gives %r, the assigned slot holds %r'
                               % (where(i), gback, back))

        def effect(i):
            # the world after evaluations 0..i
            if tg.structure(gw) != rstruct[i + 1]:
                raise Mismatch('wrong-effect', '%s: the plain assignments give %r, got %r' % (where(i), rw_repr(i), gw))
            if isinstance(gfac, Factory) and gfac.calls != rcalls[i + 1]:
                raise Mismatch('factory-calls', '%s: %d absent segments to create so far, factory called %d times'
                               % (where(i), rcalls[i + 1], gfac.calls))

        def rw_repr(i):
            # (the reference world is past evaluation i by now: rebuild it up to there for the message)
            w = world()
            fac = ref_missing(mname)
            for j in range(i + 1):
                if facts[j][0] == 'ok':
                    ref_assign(dest(w, j), facts[j][1], ref_val(vrec, w[j]), fac)
            return w

        def frame(i0, i1, pos0, i):
            # every position whose object keeps its identity under the plain Python assignments keeps it under glom
            pos1 = mc.positions(gw)
            for pos, oid in rpos[i0].items():
                if rpos[i1].get(pos) == oid and (pos not in pos1 or pos1[pos] != pos0.get(pos)):
                    raise Mismatch('frame', '%s: object at position %r was replaced or lost' % (where(i), pos))

        if not bulk:
            for i in range(nrun):
                g = gw[i]
                before, pos0 = tg.snapshot(gw), mc.positions(gw)
                try:
                    if mode == 'seq-tuple':
                        res = glom.glom(g, (a,), scope=scope_of(i))
                    elif mode == 'specobj':
                        res = holder_spec.glom(g, scope=scope_of(i))
                    else:
                        res = glom.glom(g, a, scope=scope_of(i))
                    err = None
                except Exception as e:
                    err = e
                if facts[i][0] == 'ok':
                    if err is not None:
                        raise Mismatch('spurious-error', '%s: the plain assignment succeeds; glom raised %s: %r'
                                       % (where(i), type(err).__name__, getattr(err, 'args', err)))
                    if res is not g:
                        raise Mismatch('wrong-return', '%s: must return the same object, got %r' % (where(i), res))
                    effect(i)
                    read_back(i)
                    frame(i, i + 1, pos0, i)
                else:
                    if err is None:
                        raise Mismatch('missing-error', '%s: the plain assignment fails (%s at step %s: %r); glom returned %r'
                                       % ((where(i),) + facts[i][3:] + (res,)))
                    d = tg.snapshot_diff(before, tg.snapshot(gw))
                    if d:
                        raise Mismatch('not-atomic', '%s: failed (%s) but the targets changed: %s'
                                       % (where(i), type(err).__name__, d))
        else:
            items = gw[:ne]
            pos0 = mc.positions(gw)
            scope = {'tgt': gw[-1]} if shared else {}
            try:
                res = glom.glom(items, [{'r': a}] if mode == 'listdict' else [a], scope=scope)
                err = None
            except Exception as e:
                err = e
            last = nrun - 1
            if first_err is None:
                if err is not None:
                    raise Mismatch('spurious-error', '%s: every plain assignment succeeds; glom raised %s: %r'
                                   % (where(last), type(err).__name__, getattr(err, 'args', err)))
                got = [x.get('r') if isinstance(x, dict) and mode == 'listdict' else x for x in res] \
                    if isinstance(res, list) else None
                if got is None or len(got) != ne or any(x is not y for x, y in zip(got, items)):
                    raise Mismatch('wrong-return', '%s: every evaluation must return its target, got %r' % (where(last), res))
                effect(last)
                for i in range(nrun):
                    # (with a shared destination a later evaluation may overwrite the slot of an earlier one)
                    if i == last or not shared:
                        read_back(i)
                frame(0, nrun, pos0, last)
            else:
                if err is None:
                    raise Mismatch('missing-error', '%s: the plain assignment fails (%s at step %s: %r); glom returned %r'
                                   % ((where(first_err),) + facts[first_err][3:] + (res,)))
                # the evaluations before the failing one took effect, the failing one left its target as it was
                if tg.structure(gw) != rstruct[nrun]:
                    raise Mismatch('not-atomic', '%s: failed (%s); the plain assignments before it give %r, got %r'
                                   % (where(first_err), type(err).__name__, rw_repr(first_err), gw))
                frame(0, nrun, pos0, first_err)
    ctx.outcome([mode, [f[0] for f in facts], repr(recipe['steps'])])


# ---------------------------------------------------------------------------
# S-rooted destinations: put-get through the scope

class NS(object):
    """a caller-owned attribute object bound in the scope (like S.globals)"""
    def __init__(self, **kw):
        self.__dict__.update(kw)

    def __repr__(self):
        return 'NS(%s)' % ', '.join('%s=%r' % kv for kv in sorted(self.__dict__.items()))


SDESTS = ['name', 'name', 'box.k', 'box.new', 'ns.last', 'ns.cur', 'q.x', 'q.x.y', 'box.m.x']


def gen_sassign(draw):
    return {'wrap': draw(st.sampled_from(['bare', 'spec', 'auto', 'coalesce', 'tuple1', 'pipe', 'or', 'dictval'])),
            'pre': draw(st.sampled_from([None, 'old-value', 'S-bound'])),
            'dest': draw(st.sampled_from(SDESTS)),
            'val': draw(st.sampled_from([['lit', ['i', 42]], ['T', []], ['lit', ['list', [['i', 1]]]]])),
            # how the destination / the later read spell the path: S['name']..., S.name..., Path(S, 'name', ...)
            'spell': draw(st.sampled_from(['item', 'attr', 'path'])),
            'reader': draw(st.sampled_from(['item', 'attr', 'path'])),
            'missing': draw(st.sampled_from([None, 'dict', 'dict']))}


def _sget(cur, seg):
    return dict.__getitem__(cur, seg) if isinstance(cur, dict) else getattr(cur, seg)


def _sset(cur, seg, val):
    if isinstance(cur, dict):
        cur[seg] = val
    else:
        setattr(cur, seg, val)


def ref_sassign(cur, segs, val, missing):
    """plain Python: the scope is a mapping (S.name means S['name']), what hangs below it is item / attribute
    assignment; with missing only the absent segments are created and attached last"""
    for i, seg in enumerate(segs[:-1]):
        try:
            cur = _sget(cur, seg)
        except (KeyError, AttributeError) as e:
            if missing is None:
                raise RefErr('access', i, e)
            new = {}
            ref_sassign(new, segs[i + 1:], val, missing)
            _sset(cur, seg, new)
            return
    _sset(cur, segs[-1], val)


def spath(segs, spelling, model):
    """the S-rooted path over `segs` in one spelling; below the first segment the step is the one that fits the
    container the model has there (item for mappings and for what missing= builds, attribute for NS)"""
    if spelling == 'path':
        return Path(S, *segs)
    t = S[segs[0]] if spelling == 'item' else getattr(S, segs[0])
    cur = model.get(segs[0])
    for seg in segs[1:]:
        if isinstance(cur, NS):
            t = getattr(t, seg)
            cur = getattr(cur, seg, None)
        else:
            t = t[seg]
            cur = cur.get(seg) if isinstance(cur, dict) else None
    return t


def check_sassign(recipe, ctx):
    from glom import Auto, Coalesce, Pipe, Or
    target = {'t': 1}
    pre = recipe['pre']
    spell, rspell, missing = recipe.get('spell', 'item'), recipe.get('reader', 'item'), recipe.get('missing')

    def world():
        sc = {'box': {'k': 'box-old'}, 'ns': NS(cur='ns-old')}
        if pre == 'old-value':
            sc['name'] = pre
        return sc
    scope, model = world(), world()
    if pre == 'S-bound':
        model['name'] = 'old-value'
    val = build_val(recipe['val'], target)
    expected_val = target if recipe['val'][0] == 'T' else tg.build(recipe['val'][1]).obj
    dest = recipe['dest']
    segs = dest.split('.')
    path, reader = spath(segs, spell, model), spath(segs, rspell, model)
    try:
        ref_sassign(model, segs, expected_val, missing)
        exp = 'ok'
    except RefErr:
        exp = 'err'
    a = Assign(path, val, missing=dict if missing == 'dict' else None)
    wrap = recipe['wrap']
    step = {'bare': a, 'spec': Spec(a), 'auto': Auto(a), 'coalesce': Coalesce(a), 'tuple1': (a,), 'pipe': Pipe(a),
            'or': Or(a), 'dictval': a}[wrap]
    ctx.nontrivial(wrap != 'bare')
    ctx.label('wrap-' + wrap, 'dest-' + dest, 'spell-' + spell, 'reader-' + rspell, 'exp-' + exp, 'pre-' + str(pre))
    if spell != 'item':
        ctx.label('sfirst-attr-single' if len(segs) == 1 else 'sfirst-attr-multi')
        if exp == 'ok':
            ctx.label('sfirst-attr-single-ok' if len(segs) == 1 else 'sfirst-attr-multi-ok')
    if segs[0] == 'q' and missing is not None:
        ctx.label('missing-first-absent')
    if dest == 'box.m.x' and missing is not None:
        ctx.label('missing-later-absent')
    binder = (S(name='old-value'),) if pre == 'S-bound' else ()
    where = 'glom(%r, %r, scope=%r)' % (target, binder + (step, reader), scope)
    if exp == 'err':
        # a parent segment is absent and there is no missing=: an error, nothing changes
        try:
            res = glom.glom(target, binder + (({'x': a},) if wrap == 'dictval' else (step,)), scope=scope)
        except Exception:
            pass
        else:
            raise Mismatch('missing-error', '%s: segment %r of the destination is absent and no missing= is given; the '
                           'Assign returned %r' % (where, segs[0] if segs[0] == 'q' else segs[1], res))
    elif wrap == 'dictval':
        # a dict value is a sibling position: what it binds in the scope is invisible afterwards (C07);
        # only check that the call works and the caller's mapping is left alone
        try:
            glom.glom(target, binder + ({'x': a},), scope=scope)
        except Exception as e:
            raise Mismatch('spurious-error', '%s: %r' % (where, e))
    else:
        try:
            got = glom.glom(target, binder + (step, reader), scope=scope)
        except Exception as e:
            raise Mismatch('put-get', '%s: reading the assigned scope name back raised %s: %s'
                           % (where, type(e).__name__, str(e).splitlines()[-1][:200]))
        same = (got is expected_val) if recipe['val'][0] == 'T' else (got == expected_val)
        if not same:
            raise Mismatch('put-get', '%s: read back %r, expected %r' % (where, got, expected_val))
    # the caller's scope mapping itself is never modified (its values may be: box and ns are caller-owned and mutable)
    if set(scope) != ({'box', 'ns', 'name'} if pre == 'old-value' else {'box', 'ns'}) or \
            scope.get('name') != (pre if pre == 'old-value' else None):
        raise Mismatch('caller-scope-modified', '%s: caller mapping is now %r' % (where, scope))
    # ... and those caller-owned objects are edited exactly like the plain Python assignment edits them
    if scope['box'] != model['box'] or scope['ns'].__dict__ != model['ns'].__dict__:
        raise Mismatch('wrong-effect', '%s: the caller-owned objects in the scope are now box=%r ns=%r, the plain assignment '
                       'gives box=%r ns=%r' % (where, scope['box'], scope['ns'], model['box'], model['ns']))
    ctx.outcome([wrap, dest, spell, exp])


def gen_wild(draw):
    """Assign through 1-3 wildcards (generator and oracle shared with C14's mutate sub-check)"""
    from . import c14
    r = c14.gen_mutate(draw)
    r['op'] = 'assign'
    return r


def check_wild(recipe, ctx):
    from . import c14
    return c14.check_mutate(recipe, ctx)


SUBS = [
    Sub('assign', check, gen=gen, quick=4000, thorough=15000,
        floors={'exp-ok': 0.2, 'exp-err': 0.2, 'spelling-str': 0.1, 'spelling-t': 0.02}),
    Sub('argpath', check, gen=gen_args, quick=1000, thorough=6000,
        floors={'arg-last-ok': 0.15, 'arg-mid-ok': 0.045, 'arg-attach-ok': 0.06, 'arg-tail-ok': 0.08,
                'arg-tail-inner-ok': 0.02, 'spelling-t': 0.18, 'argkind-T': 0.3, 'argkind-Spec': 0.1,
                'argkind-SpecStr': 0.07, 'argkind-Val': 0.06}),
    Sub('argfail', check, gen=gen_argfail, quick=320, thorough=2000,
        floors={'arg-fail-mid-missing': 0.3, 'spelling-t': 0.12}),
    Sub('argpath-s', check, gen=gen_args_s, quick=400, thorough=2500,
        floors={'arg-last-ok': 0.1, 'arg-mid-ok': 0.03, 'arg-attach-ok': 0.03, 'arg-tail-ok': 0.05, 'arg-fail': 0.04}),
    Sub('reuse', check_reuse, gen=gen_reuse, quick=640, thorough=5000,
        floors={'reuse-same-break-tail-arg-differs-ok': 0.18, 'reuse-same-break-tail-arg-differs-ok-in-bulk': 0.055,
                'reuse-same-break-tail-arg-differs-ok-in-seq': 0.06, 'reuse-same-break-tail-arg-differs-ok-in-shared': 0.035,
                'reuse-same-break-inner-arg-differs-ok': 0.04, 'reuse-arg-differs-ok': 0.04, 'reuse-other-break-ok': 0.012,
                'reuse-identical-ok': 0.075, 'spelling-s-rooted': 0.12, 'spelling-t': 0.12}),
    Sub('wild', check_wild, gen=gen_wild, quick=1500, thorough=5000, floors={'wild-2': 0.1, 'wild-3': 0.1}),
    Sub('sassign', check_sassign, gen=gen_sassign, quick=1000, thorough=5000,
        floors={'spell-attr': 0.13, 'spell-path': 0.13, 'reader-attr': 0.13, 'reader-path': 0.13,
                'sfirst-attr-single-ok': 0.05, 'sfirst-attr-multi-ok': 0.2, 'missing-first-absent': 0.06,
                'missing-later-absent': 0.02, 'exp-err': 0.05, 'pre-S-bound': 0.15}),
]
