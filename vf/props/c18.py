"""C18 — T and Path are faithful values: repr, pickle and slicing round-trip.

Sub-checks
  roundtrip   generated T expressions / Paths: eval(repr(x)) and pickle (all protocols) rebuild an
              object with the same repr, the same operation tuple, and the same outcome on a battery
              of targets
  seq         generated Paths as immutable sequences of steps: len, values, items, ==, !=, startswith,
              Path(p, q) concatenation, composition glom(t, Path(p, q)) == glom(glom(t, p), q)
  index       EXHAUSTIVE: every int index in [-n-2, n+2] and every (start, stop, step) triple with
              in-range bounds and step in {None, +-1, +-2, +-3} for paths of n steps (n <= 4 quick, 6 thorough)
"""
import pickle
import itertools

import os

from hypothesis import strategies as st

import glom
from glom import T, S, A, Path, Spec, GlomError, PathAccessError
from glom.core import TType

from .. import fuzzrun
from ..runner import Sub, Mismatch
from .. import runner as runner_mod
from .. import targets as tg
from .. import texpr as tx

PROPERTY = 'C18'
RULE = ('T expressions / Paths of 0-6 steps over attribute (incl. dunder via T.__()), item, slice, call and wildcard '
        'steps with literal arguments (ints, negative ints, floats, strings with quotes/dots/non-ASCII, bytes, None, '
        'bool, Ellipsis, tuples incl. empty and one-element, frozensets, builtins, nested T), rooted at T, S and A. '
        'Non-trivial = >= 3 steps of >= 2 kinds, or a non-trivial literal (tuple, slice, quote, nested T, dunder). '
        'index sub-check: the finite domain of index/slice triples is enumerated completely.')
ASSUMPTIONS = [
    'eval environment = {T, S, A, Path, Spec} + builtins',
    'arithmetic steps, lambdas and non-finite floats are outside the statement and not generated',
    'out-of-range slicing is not claimed (out-of-range indexing is)',
]

import re
ADDR = re.compile(r' at 0x[0-9a-f]+')

EVAL_ENV = {'T': T, 'S': S, 'A': A, 'Path': Path, 'Spec': Spec}

STRS = ['a', 'b', 'k', 'x y', "it's", 'say "hi"', 'a.b', 'hé', '', '0', '*', 'a\\b', "q'\"z"]
NAMES = ['a', 'b', 'k', 'real', 'upper', 'items']
DUNDERS = ['__class__', '__len__', '__dict__', '__x']


def gen_lit(draw, depth=2):
    if depth == 2 and draw(st.sampled_from(range(25))) == 0:
        # a literal nested deeper than reprlib's default level limit
        r = ['i', draw(st.integers(0, 9))]
        for _ in range(draw(st.integers(6, 9))):
            r = [draw(st.sampled_from(['list', 'tuple', 'list'])), [r]]
        return r
    k = draw(st.integers(0, 13))
    if k <= 1:
        return ['i', draw(st.integers(-5, 12))]
    if k <= 3:
        return ['s', draw(st.sampled_from(STRS))]
    if k == 4:
        return ['f', draw(st.sampled_from([0.5, -1.25, 1e20, 3.0]))]
    if k == 5:
        return ['none']
    if k == 6:
        return ['b', draw(st.booleans())]
    if k == 7:
        return ['ell']
    if k == 8:
        return ['bytes', draw(st.sampled_from(['', 'ab', '\xff']))]
    if k == 9:
        return ['builtin', draw(st.sampled_from(['len', 'int', 'str', 'sorted']))]
    if depth <= 0:
        return ['i', draw(st.integers(0, 3))]
    if k == 10:
        return ['tuple', [gen_lit(draw, depth - 1) for _ in range(draw(st.integers(0, 3)))]]
    if k == 11:
        return ['fset', [['i', x] for x in draw(st.lists(st.integers(0, 3), max_size=1))]]
    if k == 12:
        return ['T', 'T', gen_steps(draw, draw(st.integers(0, 2)), 'T', depth - 1)]
    return ['list', [gen_lit(draw, depth - 1) for _ in range(draw(st.integers(0, 2)))]]


def gen_slice(draw):
    part = st.sampled_from([None, None, 0, 1, 2, -1, -2, 5])
    return ['slice', [draw(part), draw(part), draw(st.sampled_from([None, None, 1, 2, -1, -2]))]]


def gen_item_arg(draw, depth):
    k = draw(st.integers(0, 9))
    if k <= 4:
        return gen_lit(draw, depth)
    if k <= 6:
        return gen_slice(draw)
    if k == 7:   # tuple of slices / mixed
        return ['tuple', [gen_slice(draw) if draw(st.booleans()) else ['i', draw(st.integers(0, 3))]
                          for _ in range(draw(st.integers(0, 3)))]]
    if k == 8:
        return ['s', draw(st.sampled_from(STRS))]
    return ['i', draw(st.integers(-3, 3))]


def gen_steps(draw, n, root, depth=2):
    steps = []
    for _ in range(n):
        kinds = ['.', '.', '[', '[', '[']
        if root != 'A':
            kinds += ['(', 'x', 'X', 'dunder']
        k = draw(st.sampled_from(kinds))
        if k in ('x', 'X') and (sum(1 for s_ in steps if s_[0] in 'xX') >= 2 or depth < 2 or (root == 'S' and not steps)):
            # at most two wildcard steps per expression (each multiplies the work on the battery);
            # a wildcard applied to the scope ITSELF (first step of an S-rooted expression) would traverse glom's
            # own registries and is not generated; below a scope value it is (DESIGN.md F20, repaired)
            k = '.'
        if k == '.':
            steps.append(['.', draw(st.sampled_from(NAMES))])
        elif k == 'dunder':
            steps.append(['.', draw(st.sampled_from(DUNDERS))])
        elif k == '[':
            steps.append(['[', gen_item_arg(draw, depth)])
        elif k == '(':
            if root == 'S' and not steps:
                steps.append(['.', 'k'])
            args = [gen_lit(draw, depth) for _ in range(draw(st.integers(0, 2)))]
            kws = [[kw, gen_lit(draw, depth)] for kw in draw(st.lists(st.sampled_from(['p', 'q', 'key']), max_size=2, unique=True))]
            steps.append(['(', args, kws])
        else:
            steps.append([k])
    return steps


def gen_t(draw):
    root = draw(st.sampled_from(['T', 'T', 'T', 'S', 'A']))
    n = draw(st.integers(0, 8 if runner_mod.thorough() else 6))
    return {'kind': 't', 'root': root, 'steps': gen_steps(draw, n, root)}


def gen_path_parts(draw, maxparts=5):
    """Path recipe: list of parts; part = ["P", lit] | ["T", steps] | ["Path", parts]"""
    parts = []
    for _ in range(draw(st.integers(0, maxparts))):
        k = draw(st.integers(0, 5))
        if k <= 2:
            parts.append(['P', draw(st.sampled_from([['s', s] for s in STRS] + [['i', 0], ['i', 1], ['i', -1], ['none'], ['f', 0.5], ['tuple', [['i', 1]]],
                                                    ['builtin', 'int'], ['builtin', 'len'], ['tuple', [['builtin', 'str'], ['i', 1]]]]))])
        elif k <= 4:
            parts.append(['T', gen_steps(draw, draw(st.integers(1, 2)), 'T', 1)])
        else:
            parts.append(['Path', [['P', ['s', draw(st.sampled_from(STRS))]] for _ in range(draw(st.integers(0, 2)))]])
    return parts


def build_path(parts, root='T'):
    args = []
    if root != 'T':
        args.append(tx.ROOTS[root])
    for p in parts:
        if p[0] == 'P':
            args.append(tx.build_lit(p[1]))
        elif p[0] == 'T':
            args.append(tx.build_t('T', p[1]))
        else:
            args.append(build_path(p[1]))
    return Path(*args)


def path_items(parts):
    """reference: the flat tuple of (op, arg-recipe) steps a Path recipe denotes"""
    out = []
    for p in parts:
        if p[0] == 'P':
            out.append(('P', p[1]))
        elif p[0] == 'T':
            for s in p[1]:
                out.append(step_item(s))
        else:
            out.extend(path_items(p[1]))
    return out


def step_item(s):
    if s[0] == '.':
        return ('.', ['s', s[1]])
    if s[0] == '[':
        return ('[', s[1])
    if s[0] == '(':
        return ('(', ['call', s[1], s[2]])
    if s[0] == 'x':
        return ('x', ['none'])
    if s[0] == 'X':
        return ('X', ['none'])
    raise ValueError(s)


def item_value(arg):
    if arg[0] == 'call':
        return (tuple(tx.build_lit(a) for a in arg[1]), dict((k, tx.build_lit(v)) for k, v in arg[2]))
    return tx.build_lit(arg)


def _fix_s_call(root, parts):
    """S(...) directly on the root is the scope-assignment form (keyword-only); keep calls off it"""
    if root == 'S':
        items = path_items(parts)
        if items and items[0][0] == '(':
            parts.insert(0, ['P', ['s', 'k']])
    return parts


def gen_roundtrip(draw):
    if draw(st.integers(0, 3)) == 0:
        root = draw(st.sampled_from(['T', 'T', 'S']))
        return {'kind': 'path', 'root': root, 'parts': _fix_s_call(root, gen_path_parts(draw))}
    return gen_t(draw)


# -- structural equality of operation tuples ---------------------------------

def ops_equal(a, b):
    if isinstance(a, Path):
        a = a.path_t
    if isinstance(b, Path):
        b = b.path_t
    if isinstance(a, TType) or isinstance(b, TType):
        if not (isinstance(a, TType) and isinstance(b, TType)):
            return False
        oa, ob = a.__ops__, b.__ops__
        return oa[0] is ob[0] and ops_equal(oa[1:], ob[1:])
    if isinstance(a, Path):
        a = a.path_t
    if isinstance(b, Path):
        b = b.path_t
    if isinstance(a, Spec) or isinstance(b, Spec):
        return isinstance(a, Spec) and isinstance(b, Spec) and ops_equal(a.spec, b.spec)
    if type(a) is not type(b):
        return False
    if isinstance(a, (tuple, list)):
        return len(a) == len(b) and all(ops_equal(x, y) for x, y in zip(a, b))
    if isinstance(a, dict):
        return sorted(a, key=repr) == sorted(b, key=repr) and all(ops_equal(a[k], b[k]) for k in a)
    if isinstance(a, slice):
        return ops_equal((a.start, a.stop, a.step), (b.start, b.stop, b.step))
    if isinstance(a, float):
        return a == b or (a != a and b != b)
    return a == b


BATTERY = [
    ['dict', [['a', ['dict', [['b', ['i', 1]], ['k', ['list', [['i', 1], ['i', 2], ['i', 3]]]]]]],
              ['b', ['list', [['i', 5], ['i', 6], ['i', 7]]]], ['k', ['s', 'abc']], [0, ['s', 'zero']], ['', ['i', 9]]]],
    ['list', [['dict', [['a', ['i', 1]]]], ['list', [['i', 1], ['i', 2]]], ['s', 'xyz'], ['i', 4]]],
    ['obj', [['a', ['obj', [['b', ['i', 2]], ['k', ['tuple', [['i', 1], ['i', 2]]]]]]], ['b', ['i', 3]], ['k', ['dict', [['a', ['i', 1]]]]]]],
    ['s', 'hello'],
    ['i', 7],
]


def canon_repr(v):
    """repr of a result, containers spelled out recursively"""
    if type(v) is dict:
        # (items in their own order: a mapping built from the keyword arguments of a call step shows the order in which
        # the callee received them, which eval(repr(x)) must preserve -- finding F42)
        return '{' + ', '.join('%s: %s' % (canon_repr(k), canon_repr(x)) for k, x in v.items()) + '}'
    if type(v) in (list, tuple):
        return type(v).__name__ + '(' + ', '.join(canon_repr(x) for x in v) + ')'
    return repr(v)


def outcome(target, spec, scope):
    try:
        v = glom.glom(target, spec, scope=dict(scope))
        return ('ok', ADDR.sub('', canon_repr(v)))
    except PathAccessError as e:
        return ('pae', e.part_idx, type(e.exc).__name__)
    except Exception as e:
        return ('err', type(e).__name__, tuple(c.__name__ for c in type(e).__mro__[1:4]))


def outcomes(spec):
    outs = []
    for tr in BATTERY:
        t = tg.build(tr).obj
        scope = {'a': t, 'k': {'a': 1, 'b': [1, 2]}, 'b': [3, 4, 5]}
        outs.append(outcome(t, spec, scope))
    return outs


def _nontrivial(recipe):
    s = repr(recipe)
    if recipe['kind'] == 't':
        kinds = set(x[0] for x in recipe['steps'])
        if len(recipe['steps']) >= 3 and len(kinds) >= 2:
            return True
    else:
        if len(recipe['parts']) >= 3:
            return True
    return any(tok in s for tok in ("'tuple'", "'slice'", "'T'", '"', "\\'", '__'))


def check_roundtrip(recipe, ctx):
    if recipe['kind'] == 't':
        x = tx.build_t(recipe['root'], recipe['steps'])
    else:
        x = build_path(recipe['parts'], recipe['root'])
    ctx.label('kind-' + recipe['kind'], 'root-' + recipe['root'])
    ctx.nontrivial(_nontrivial(recipe))
    try:
        r = repr(x)
    except Exception as e:
        raise Mismatch('repr-raises', '%r: %s: %s' % (recipe, type(e).__name__, e))
    base = outcomes(x) if recipe['root'] != 'A' else None
    # --- eval(repr(x))
    try:
        y = eval(r, dict(EVAL_ENV))
    except Exception as e:
        raise Mismatch('repr-not-evaluable', 'repr %s does not evaluate: %s: %s' % (r, type(e).__name__, e))
    if not isinstance(y, (TType, Path)):
        # (a Path made only of T steps prints as that T expression: same steps, same evaluation;
        # the statement asks for the same repr and the same evaluation, not the same class)
        raise Mismatch('repr-wrong-type', 'repr %s evaluates to a %s' % (r, type(y).__name__))
    if repr(y) != r:
        raise Mismatch('repr-unstable', 'repr %s re-evaluates to repr %s' % (r, repr(y)))
    if not ops_equal(x, y):
        raise Mismatch('repr-different-object', 'repr %s denotes ops %r, original has %r'
                       % (r, _ops(y), _ops(x)))
    if base is not None and outcomes(y) != base:
        raise Mismatch('repr-different-outcome', 'repr %s evaluates differently: %r vs %r' % (r, outcomes(y), base))
    # --- pickle at every protocol
    for proto in range(0, pickle.HIGHEST_PROTOCOL + 1):
        try:
            z = pickle.loads(pickle.dumps(x, proto))
        except Exception as e:
            raise Mismatch('pickle-raises', '%s protocol %d: %s: %s' % (r, proto, type(e).__name__, e))
        if type(z) is not type(x) or repr(z) != r or not ops_equal(x, z):
            raise Mismatch('pickle-different-object', '%s protocol %d -> %r (ops %r vs %r)' % (r, proto, z, _ops(z), _ops(x)))
        if base is not None and proto in (2, pickle.HIGHEST_PROTOCOL) and outcomes(z) != base:
            raise Mismatch('pickle-different-outcome', '%s protocol %d' % (r, proto))
    ctx.outcome(r)


def _ops(v):
    if isinstance(v, Path):
        v = v.path_t
    return getattr(v, '__ops__', v)


# ---------------------------------------------------------------------------
# seq: Path as an immutable sequence

def gen_seq(draw):
    root = draw(st.sampled_from(['T', 'T', 'S']))
    return {'root': root, 'p': _fix_s_call(root, gen_path_parts(draw, 4)), 'q': gen_path_parts(draw, 3)}


def values_equal(got, exp_items):
    return ops_equal(tuple(got), tuple(item_value(a) for _, a in exp_items))


def items_equal(got, exp_items):
    return ops_equal(tuple(got), tuple((op, item_value(a)) for op, a in exp_items))


def check_seq(recipe, ctx):
    root = recipe['root']
    p = build_path(recipe['p'], root)
    q = build_path(recipe['q'])
    ip, iq = path_items(recipe['p']), path_items(recipe['q'])
    ctx.nontrivial(len(ip) >= 2 and len(iq) >= 1)
    ctx.label('len-%d' % min(len(ip), 4))
    if len(p) != len(ip):
        raise Mismatch('len', '%r: len %d, steps %d' % (p, len(p), len(ip)))
    if not values_equal(p.values(), ip):
        raise Mismatch('values', '%r: values() %r' % (p, p.values()))
    if not items_equal(p.items(), ip):
        raise Mismatch('items', '%r: items() %r' % (p, p.items()))
    p2 = build_path(recipe['p'], root)
    # equality agrees with equality of the tuples of steps (plus the root).  NB: the tuple of steps
    # uses Python equality, under which two separately built nested T arguments differ - so does Path.
    for other in (p2, q):
        same_steps = (tuple(p.items()) == tuple(other.items())
                      and p.path_t.__ops__[0] is other.path_t.__ops__[0])
        if (p == other) != same_steps or (p != other) == same_steps:
            raise Mismatch('eq', '%r == %r gives %r, steps equal: %r' % (p, other, p == other, same_steps))
    if not tx.has_nested(recipe['p']) and not (p == p2):
        raise Mismatch('eq', '%r != independently built equal path' % (p,))
    # concatenation (an S-rooted Path is accepted as first part only as its T expression)
    pq = Path(p if root == 'T' else p.path_t, q)
    if len(pq) != len(ip) + len(iq) or not items_equal(pq.items(), ip + iq):
        raise Mismatch('concat', 'Path(%r, %r) = %r' % (p, q, pq))
    if pq.path_t.__ops__[0] is not tx.ROOTS[root]:
        raise Mismatch('concat-root', 'Path(%r, %r) lost its root' % (p, q))
    # startswith: every prefix, and a non-prefix
    for n in range(len(ip) + 1):
        pre = p[:n] if n else Path(tx.ROOTS[root]) if root != 'T' else Path()
        if not p.startswith(pre):
            raise Mismatch('startswith', '%r.startswith(%r) is False' % (p, pre))
    if not pq.startswith(p):
        raise Mismatch('startswith', '%r.startswith(%r) is False' % (pq, p))
    if len(iq) and root == 'T':
        exp = len(ip) >= len(iq) and ops_equal(tuple((o, item_value(a)) for o, a in ip[:len(iq)]),
                                               tuple((o, item_value(a)) for o, a in iq))
        if bool(p.startswith(q)) != exp:
            raise Mismatch('startswith', '%r.startswith(%r) is %r, expected %r' % (p, q, p.startswith(q), exp))
    # immutability: none of the above changed p
    if not items_equal(p.items(), ip):
        raise Mismatch('mutated', '%r changed by sequence operations' % (p,))
    # composition (wildcard-free, T-rooted)
    flat = repr(recipe)
    # (a nested T / Spec argument inside q denotes the target of the CALL - t on the left, glom(t, p) on the right -
    # so the law cannot hold for it by design; such q are left out)
    if root == 'T' and "'x'" not in flat and "'X'" not in flat and not tx.has_nested(recipe['q']):
        for tr in BATTERY[:3]:
            t = tg.build(tr).obj
            try:
                mid = glom.glom(t, p)
            except GlomError:
                try:
                    glom.glom(t, pq)
                except GlomError:
                    ctx.label('compose-both-fail')
                    continue
                raise Mismatch('compose', 'glom(t, %r) fails but glom(t, %r) succeeds' % (p, pq))
            except Exception:
                continue
            try:
                two = ('ok', glom.glom(mid, q))
            except GlomError as e:
                two = ('err', type(e).__name__)
            except Exception as e:
                two = ('exc', type(e).__name__)
            try:
                one = ('ok', glom.glom(t, pq))
            except GlomError as e:
                one = ('err', type(e).__name__)
            except Exception as e:
                one = ('exc', type(e).__name__)
            if one[0] != two[0] or (one[0] == 'ok' and not tg.same(one[1], two[1]) and one[1] != two[1]
                                    and ADDR.sub('', repr(one[1])) != ADDR.sub('', repr(two[1]))) \
                    or (one[0] != 'ok' and one != two):
                raise Mismatch('compose', 'glom(t, Path(p, q)) = %r but glom(glom(t, p), q) = %r for p=%r q=%r'
                               % (one, two, p, q))
            ctx.label('compose-' + one[0])
    ctx.outcome([repr(p), repr(q)])


# ---------------------------------------------------------------------------
# index: exhaustive enumeration

STEP_POOL = [['P', ['s', 'a']], ['T', [['.', 'b']]], ['P', ['i', 1]], ['T', [['[', ['s', 'k']]]], ['P', ['s', 'c']],
             ['T', [['(', [], [['test', ['s', 'yes']]]]]]]


def enum_index(tier):
    maxn = 4 if tier == 'quick' else 6
    for root in ('T', 'S'):
        for n in range(0, maxn + 1):
            for i in range(-n - 2, n + 3):
                yield {'root': root, 'n': n, 'index': i}
            bounds = [None] + list(range(-n, n + 1))
            for start, stop, step in itertools.product(bounds, bounds, [None, 1, 2, 3, -1, -2, -3]):
                yield {'root': root, 'n': n, 'slice': [start, stop, step]}


def check_index(recipe, ctx):
    n = recipe['n']
    parts = STEP_POOL[:n]
    p = build_path(parts, recipe['root'])
    items = path_items(parts)
    tup = tuple(items)
    if 'index' in recipe:
        i = recipe['index']
        ctx.label('index')
        ctx.nontrivial(n >= 2)
        try:
            exp = ('ok', (tup[i],))
        except IndexError:
            exp = ('IndexError',)
        try:
            got = ('ok', p[i])
        except IndexError:
            got = ('IndexError',)
        except Exception as e:
            raise Mismatch('index-wrong-exception', '%r[%d] raised %s' % (p, i, type(e).__name__))
        if exp[0] != got[0]:
            raise Mismatch('index-range', '%r[%d]: tuple of steps gives %s, Path gives %r' % (p, i, exp[0], got))
        if exp[0] == 'ok':
            _same_path(got[1], exp[1], recipe, '%r[%d]' % (p, i))
    else:
        sl = slice(*recipe['slice'])
        ctx.label('slice', 'step-%s' % ('neg' if (sl.step or 1) < 0 else 'pos'))
        ctx.nontrivial(n >= 2)
        exp = tup[sl]
        try:
            got = p[sl]
        except Exception as e:
            raise Mismatch('slice-raises', '%r[%r] raised %s: %s' % (p, sl, type(e).__name__, e))
        _same_path(got, exp, recipe, '%r[%s:%s:%s]' % (p, sl.start, sl.stop, sl.step))
    ctx.outcome('ok')


def _same_path(got, exp_items, recipe, what):
    if not isinstance(got, Path):
        raise Mismatch('not-a-path', '%s is %r' % (what, got))
    if not items_equal(got.items(), list(exp_items)):
        raise Mismatch('index-slice', '%s = %r, the tuple of steps gives %r'
                       % (what, got, [(o, item_value(a)) for o, a in exp_items]))
    if got.path_t.__ops__[0] is not tx.ROOTS[recipe['root']]:
        raise Mismatch('root-lost', '%s lost its root' % what)


def is_f13(recipe, mm):
    sl = recipe.get('slice')
    return bool(sl and sl[2] is not None and sl[2] < 0 and (sl[0] is not None or sl[1] is not None)
                and mm.kind == 'index-slice')


def is_f12(recipe, mm):
    return recipe.get('kind') == 'path' and recipe.get('root') in ('S', 'A') and mm.kind.startswith('repr-')


CLASSIFIERS = {'F13-negative-step-slice': is_f13, 'F12-path-repr-root': is_f12}

SUBS = [
    Sub('roundtrip', check_roundtrip, gen=gen_roundtrip, quick=6000, thorough=20000,
        floors={'kind-path': 0.1, 'root-S': 0.1, 'root-A': 0.05}),
    Sub('seq', check_seq, gen=gen_seq, quick=3000, thorough=10000, floors={'compose-ok': 0.02}),
    Sub('index', check_index, enum=enum_index),
    fuzzrun.fuzz_sub('fuzz-roundtrip', 'hyp:c18:roundtrip', runs=30000, campaigns=4, replay_sub='roundtrip'),
]
