"""C18 — T and Path are faithful values: repr, pickle and slicing round-trip.

Sub-checks
  roundtrip   generated T expressions / Paths: eval(repr(x)) and pickle (all protocols) rebuild an
              object with the same repr, the same operation tuple, and the same outcome on a battery
              of targets
  seq         generated Paths as immutable sequences of steps: len, values, items, ==, !=, startswith,
              Path(p, q) concatenation, composition glom(t, Path(p, q)) == glom(glom(t, p), q)
  index       EXHAUSTIVE: every int index in [-n-2, n+2] and every (start, stop, step) triple with
              in-range bounds and step in {None, +-1, +-2, +-3} for paths of n steps (n <= 4 quick, 6 thorough)
"""
import math
import pickle
import itertools

import os

from hypothesis import strategies as st

import glom
from glom import T, S, A, Path, Spec, GlomError, PathAccessError
from glom.core import TType

from .. import fuzzrun
from ..runner import Sub, Mismatch
from .. import runner as runner_mod
from .. import targets as tg
from .. import texpr as tx

PROPERTY = 'C18'
RULE = ('T expressions / Paths of 0-6 steps over attribute (incl. dunder via T.__()), item, slice, call and wildcard '
        'steps with literal arguments (ints, negative ints, floats, strings with quotes/dots/non-ASCII, bytes, None, '
        'bool, Ellipsis, tuples incl. empty and one-element, frozensets, builtins, nested T), rooted at T, S and A. '
        'Constructed classes with floors: a slice carrying a builtin in a nested position (call argument, Path segment, '
        'member of a one-element / nested tuple or list, part of another slice); non-finite floats; literals beyond 1024 '
        'characters / digits / items (str, bytes, int, tuple, list, dict, nested T); a plain list as a Path segment; '
        'a dict literal whose insertion order is not the sorted order of its keys (call argument, keyword value, index, '
        'Path segment, member of a tuple / list / slice / another dict), compared ORDER-sensitively and evaluated on a '
        'target whose callee / __getitem__ reports what it received; complex literals, with floors on those with a '
        'non-finite part and on those Python itself spells with another sign of zero ((-0+1j), (1-0j), -1.5j). '
        'Non-trivial = >= 3 steps of >= 2 kinds, or a non-trivial literal (tuple, slice, quote, nested T, dunder, any '
        'constructed class). '
        'index sub-check: the finite domain of index/slice triples is enumerated completely.')
ASSUMPTIONS = [
    'eval environment = {T, S, A, Path, Spec} + builtins',
    'arithmetic steps and lambdas are outside the statement and not generated',
    'complex literals are generated with parts from {0.0, -0.0, 1.0, -1.5, 2.5, 1e20, inf, -inf, nan}; floats and complex parts '
    'are compared with the sign of a zero (0.0 and -0.0 are different literals)',
    'dict literals: two dicts are the same literal iff they hold the same (key, value) pairs IN THE SAME ORDER (type-exact, '
    'nan-aware); the order is observable by the callee that receives the dict',
    'non-finite floats and complex parts are compared nan-aware (same repr, structurally equal operations, same outcome on the battery; a nan '
    'key is found by identity only, so T[nan] misses on every battery target for the original and the rebuilt object alike)',
    'literal sizes stay below 4300 digits (int -> str conversion limit of CPython)',
    'out-of-range slicing is not claimed (out-of-range indexing is)',
]

import re
ADDR = re.compile(r' at 0x[0-9a-f]+')

EVAL_ENV = {'T': T, 'S': S, 'A': A, 'Path': Path, 'Spec': Spec}

STRS = ['a', 'b', 'k', 'x y', "it's", 'say "hi"', 'a.b', 'hé', '', '0', '*', 'a\\b', "q'\"z"]
NAMES = ['a', 'b', 'k', 'real', 'upper', 'items']
DUNDERS = ['__class__', '__len__', '__dict__', '__x']


# -- compact literal recipes (this module only; expand_lit() rewrites them into tx's literal grammar before building)
#   ["fnf", "inf" | "-inf" | "nan"]      a non-finite float
#   ["srep", unit, n]                    the str unit * n            ["brep", latin1-unit, n]   the bytes unit * n
#   ["pow10", n, k]                      the int 10 ** n + k         ["pow10", n, k, -1]        its negative
#   ["rep", "tuple" | "list", [L..], n]  the container of the items, repeated n times
#   ["drange", n]                        the dict {0: 0, 1: 1, .. n-1: n-1}
#   ["Trep", root, steps, n]             the nested expression of the steps, repeated n times
#   ["cx", re, im]                       the complex number complex(re, im); a part is a finite float or "inf" | "-inf" | "nan"
# They keep recipes (and replay files) of the big-literal class small.
NAN, INF = float('nan'), float('inf')      # one nan object per process: equality of steps holds for it by identity only
NONFINITE = {'inf': INF, '-inf': -INF, 'nan': NAN}
_CX = {}              # likewise one complex object per (re, im) and process (a nan part makes it unequal to its own copy)


def _complex(state):
    key = (repr(state[0]), repr(state[1]))       # (by spelling: 0.0 and -0.0 are equal, and the same dict key)
    if key not in _CX:
        _CX[key] = complex(*[NONFINITE[p] if isinstance(p, str) else float(p) for p in state[:2]])
    return _CX[key]


# (texpr's literal grammar has no complex: it goes through the grammar's extension point for property-specific literals)
tx.LIT_CLASSES['c18-complex'] = (False, lambda items, state: _complex(state))
LIMIT = 1024          # the size beyond which a shortened repr was observed (F80); classes 'long-*' lie beyond it


def expand_lit(r):
    tag = r[0]
    if tag == 'fnf':
        return ['f', NONFINITE[r[1]]]
    if tag == 'cx':
        return ['inst', 'c18-complex', [], [r[1], r[2]]]
    if tag == 'srep':
        return ['s', r[1] * r[2]]
    if tag == 'brep':
        return ['bytes', r[1] * r[2]]
    if tag == 'pow10':
        return ['i', (10 ** r[1] + r[2]) * (r[3] if len(r) > 3 else 1)]
    if tag == 'rep':
        return [r[1], [expand_lit(x) for x in r[2]] * r[3]]
    if tag == 'drange':
        return ['dict', [[['i', k], ['i', k]] for k in range(r[1])]]
    if tag == 'Trep':
        return ['T', r[1], expand_steps(r[2]) * r[3]]
    if tag in ('tuple', 'list', 'fset'):
        return [tag, [expand_lit(x) for x in r[1]]]
    if tag == 'dict':
        return ['dict', [[expand_lit(k), expand_lit(v)] for k, v in r[1]]]
    if tag == 'slice':
        return ['slice', [expand_lit(x) if isinstance(x, list) else x for x in r[1]]]
    if tag == 'T':
        return ['T', r[1], expand_steps(r[2])]
    if tag == 'Spec':
        return ['Spec', expand_lit(r[1])]
    return r


def expand_steps(steps):
    out = []
    for s in steps:
        if s[0] == '[':
            out.append(['[', expand_lit(s[1])])
        elif s[0] == '(':
            out.append(['(', [expand_lit(a) for a in s[1]], [[kw, expand_lit(v)] for kw, v in s[2]]])
        else:
            out.append(s)
    return out


def expand_parts(parts):
    out = []
    for p in parts:
        if p[0] == 'P':
            out.append(['P', expand_lit(p[1])])
        elif p[0] == 'T':
            out.append(['T', expand_steps(p[1])])
        else:
            out.append(['Path', expand_parts(p[1])])
    return out


# -- which constructed classes a recipe belongs to (labels; measured against the floors) -----------------------------

def _has_builtin(r):
    return isinstance(r, list) and (r[0] == 'builtin' or (r[0] == 'slice' and any(_has_builtin(x) for x in r[1])))


def _step_len(s):
    """characters a step takes in the text of an expression (a lower bound for the kinds not spelled out here)"""
    if s[0] == '.' and not s[1].startswith('__'):
        return 1 + len(s[1])
    if s[0] == '[' and s[1][0] in ('i', 's'):
        return 2 + len(repr(s[1][1]))
    return 2


def lit_classes(r, out, direct=False):
    """direct: the literal is the index of an item step, or a member of an index tuple of two or more (T[a:b, c]) -
    the two places where a slice is written with colons; everywhere else a slice is NESTED and spelled slice(..)"""
    tag = r[0]
    if tag == 'fnf':
        out.add('float-nonfinite')
    elif tag == 'cx':
        out.add('complex')
        if isinstance(r[1], str) or isinstance(r[2], str):
            out.add('complex-nonfinite')
        if cx_signed_zero(r[1], r[2]):
            out.add('complex-signed-zero')
    elif tag in ('srep', 'brep', 'pow10'):
        if len(repr(tx.build_lit(expand_lit(r)))) > LIMIT:
            out.add('long-int' if tag == 'pow10' else 'long-str')
    elif tag == 'rep':
        if len(r[2]) * r[3] > LIMIT:
            out.add('long-seq')
        for x in r[2]:
            lit_classes(x, out)
    elif tag == 'drange':
        if r[1] > LIMIT:
            out.add('long-seq')
    elif tag == 'Trep':
        if 1 + r[3] * sum(_step_len(s) for s in r[2]) > LIMIT:          # len('T.abcd.abcd...')
            out.add('long-nested-T')
        steps_classes(r[2], out)
    elif tag == 'slice':
        if not direct and any(_has_builtin(x) for x in r[1]):
            out.add('slice-nested-builtin')
        for x in r[1]:
            if isinstance(x, list):
                lit_classes(x, out)
    elif tag in ('tuple', 'list', 'fset'):
        for x in r[1]:
            lit_classes(x, out, direct and tag == 'tuple' and len(r[1]) > 1)
    elif tag == 'dict':
        out.add('dict')
        if dict_unsorted(r):
            out.add('dict-unsorted')
        for k, v in r[1]:
            lit_classes(k, out)
            lit_classes(v, out)
    elif tag == 'T':
        steps_classes(r[2], out)
    elif tag == 'Spec':
        lit_classes(r[1], out)


def _negzero(p):
    return not isinstance(p, str) and p == 0 and math.copysign(1.0, p) < 0


def cx_signed_zero(re, im):
    """complex(re, im) has a negative-zero part, or a zero real part and a negative imaginary part: the numbers Python writes
    as (-0+1j), (1-0j), -1.5j - expressions that evaluate to a complex number with another sign of zero"""
    return _negzero(re) or _negzero(im) or (not isinstance(re, str) and re == 0
                                            and (im == '-inf' or (not isinstance(im, str) and im < 0)))


def dict_unsorted(r):
    """the keys of the dict literal can be sorted, and the order in which the literal holds them is another one"""
    keys = list(tx.build_lit(expand_lit(r)))
    try:
        return sorted(keys) != keys
    except TypeError:
        return False


def steps_classes(steps, out):
    for s in steps:
        if s[0] == '[':
            lit_classes(s[1], out, True)
        elif s[0] == '(':
            for a in s[1]:
                lit_classes(a, out)
            for _, v in s[2]:
                lit_classes(v, out)


def parts_classes(parts, out):
    for p in parts:
        if p[0] == 'P':
            if p[1][0] == 'list':
                out.add('path-list-segment')
            lit_classes(p[1], out)
        elif p[0] == 'T':
            steps_classes(p[1], out)
        else:
            parts_classes(p[1], out)
    return out


SPECIALS = ['slice-nested-builtin', 'float-nonfinite', 'long-str', 'long-int', 'long-seq', 'long-nested-T',
            'path-list-segment', 'dict-unsorted', 'complex-nonfinite', 'complex-signed-zero']
# (the two classes that cost most per case - 1000-item containers, 200-step nested expressions - at half the weight)
SPECIAL_POOL = [None] * 20 + SPECIALS + [c for c in SPECIALS if c not in ('long-seq', 'long-nested-T')]
# classes whose literal is, in half of the T expressions / Paths that carry it, handed to the Observer target first
OBSERVED = ('dict-unsorted', 'complex-nonfinite', 'complex-signed-zero')
BUILTINS = ['len', 'int', 'str', 'sorted']
# sizes around the limit (both sides: an off-by-one in a limit shows there) and well beyond it
LONG_SIZES = st.one_of(st.integers(LIMIT - 6, LIMIT + 12), st.sampled_from([1100, 1500, 2048, 3000]))
SEQ_SIZES = st.one_of(st.integers(LIMIT - 2, LIMIT + 10), st.sampled_from([1030, 1100]))     # (items; each costs time)
# lists that look like the (op, arg, op, arg..) run of T steps glom keeps internally, and lists that do not
SEGMENT_LISTS = [[['s', '.'], ['s', 'a']], [['i', 1]], [['s', 'a'], ['s', 'b']], [], [['s', '['], ['i', 0]],
                 [['s', 'P'], ['s', 'x']], [['s', '.'], ['s', 'a'], ['s', '['], ['i', 0]], [['s', 'x'], ['none']],
                 [['s', '('], ['tuple', [['tuple', []], ['dict', []]]]], [['none']], [['s', '.']]]


def gen_builtin_slice(draw):
    """a slice with a builtin among its parts (possibly through a further slice)"""
    part = st.sampled_from([None, None, 0, 1, -1, ['builtin', 'int'], ['builtin', 'len']])
    parts = [draw(part), draw(part), draw(part)]
    if not any(isinstance(x, list) for x in parts):
        parts[draw(st.integers(0, 2))] = ['builtin', draw(st.sampled_from(BUILTINS))]
    if draw(st.integers(0, 5)) == 0:
        outer = [None, None, None]
        outer[draw(st.integers(0, 2))] = ['slice', parts]
        return ['slice', outer]
    return ['slice', parts]


# dict keys by family: the keys of one family can be sorted (so "not in sorted order" is defined for them)
KEY_FAMILIES = [
    [['s', x] for x in STRS],
    [['i', n] for n in range(-5, 13)],
    [['i', n] for n in range(-2, 6)] + [['f', 0.5], ['f', -1.25], ['f', 1e20], ['f', 2.5]],
    [['tuple', [['i', a] for a in t]] for t in [(), (0,), (1,), (1, 2), (2, 1), (0, 5, 1), (2,)]],
    [['bytes', b] for b in ['', 'a', 'ab', 'b', '\xff']],
    [['b', False], ['b', True]],
]
MIXED_KEYS = [k for fam in KEY_FAMILIES[:2] + KEY_FAMILIES[3:5] for k in fam] + [['none'], ['f', 0.5], ['ell'], ['cx', 1.0, 2.5], ['fset', []]]
CX_FINITE = [0.0, 1.0, -1.5, 2.5, 1e20]
CX_NONFINITE = ['inf', '-inf', 'nan']


def gen_complex(draw, cls=None):
    pool = CX_FINITE + [-0.0] + CX_NONFINITE
    parts = [draw(st.sampled_from(pool)), draw(st.sampled_from(pool))]
    if cls == 'complex-nonfinite' and not any(isinstance(x, str) for x in parts):
        parts[draw(st.integers(0, 1))] = draw(st.sampled_from(CX_NONFINITE))
    if cls == 'complex-signed-zero' and not cx_signed_zero(parts[0], parts[1]):
        # the three shapes Python itself spells as an expression with another value: (-0+1j), (1-0j), -1.5j
        k = draw(st.integers(0, 2))
        if k == 0:
            parts[0] = -0.0
        elif k == 1:
            parts[1] = -0.0
        else:
            parts = [0.0, draw(st.sampled_from([-1.5, -1.5, '-inf']))]
    return ['cx'] + parts


def gen_unsorted_dict(draw, depth=1):
    """a dict literal of 2-4 sortable keys held in another order than the sorted one; a value may be such a dict again"""
    fam = draw(st.sampled_from(KEY_FAMILIES))
    keys = draw(st.lists(st.sampled_from(fam), min_size=2, max_size=4, unique_by=repr))
    built = [tx.build_lit(k) for k in keys]
    if built == sorted(built):
        keys = keys[::-1]
    return ['dict', [[k, gen_unsorted_dict(draw, depth - 1) if depth > 0 and draw(st.integers(0, 3)) == 0 else gen_lit(draw, 0)]
                     for k in keys]]


def gen_special_lit(draw, cls):
    if cls == 'dict-unsorted':
        return gen_unsorted_dict(draw)
    if cls in ('complex-nonfinite', 'complex-signed-zero'):
        return gen_complex(draw, cls)
    if cls == 'slice-nested-builtin':
        return gen_builtin_slice(draw)
    if cls == 'float-nonfinite':
        return ['fnf', draw(st.sampled_from(['inf', '-inf', 'nan']))]
    if cls == 'long-str':
        unit = draw(st.sampled_from(['k', 'ab', "'", 'h\xe9', '\\', '\xff', '.']))
        n = -(-draw(LONG_SIZES) // len(unit))
        if ord(max(unit)) < 256 and draw(st.integers(0, 3)) == 0:
            return ['brep', unit, n]
        return ['srep', unit, n]
    if cls == 'long-int':
        r = ['pow10', draw(LONG_SIZES), draw(st.integers(0, 9))]
        return r + [-1] if draw(st.integers(0, 3)) == 0 else r
    if cls == 'long-seq':
        k = draw(st.integers(0, 4))
        if k == 0:
            return ['drange', draw(SEQ_SIZES)]
        items = [[['i', 0]], [['i', 0]], [['s', 'a'], ['none']], [['i', 1], ['tuple', []], ['f', 0.5]]][draw(st.integers(0, 3))]
        return ['rep', 'tuple' if k <= 2 else 'list', items, -(-draw(SEQ_SIZES) // len(items))]
    if cls == 'long-nested-T':
        steps = draw(st.sampled_from([[['.', 'abcd']], [['.', 'a'], ['[', ['i', 0]]], [['.', 'k'], ['[', ['s', 'x y']], ['.', 'b']]]))
        per = sum(_step_len(s_) for s_ in steps)
        return ['Trep', draw(st.sampled_from(['T', 'T', 'S'])), steps, -(-draw(LONG_SIZES) // per)]
    if cls == 'path-list-segment':
        if draw(st.integers(0, 3)) == 0:
            return ['list', [gen_lit(draw, 0) for _ in range(draw(st.integers(0, 3)))]]
        return ['list', draw(st.sampled_from(SEGMENT_LISTS))]
    raise ValueError(cls)


def gen_carrier_step(draw, lit, root, direct_ok):
    """a T step that carries the literal at a drawn position"""
    kinds = ['tuple1', 'nested-tuple', 'slice-part', 'list-item']
    if direct_ok:
        kinds += ['index', 'index', 'tuple-member']
    if root != 'A':
        kinds += ['arg', 'arg', 'kw', 'list-arg']
    k = draw(st.sampled_from(kinds))
    if k == 'index':
        return ['[', lit]
    if k == 'tuple1':
        return ['[', ['tuple', [lit]]]
    if k == 'tuple-member':
        return ['[', ['tuple', [['i', 1], lit]]]
    if k == 'nested-tuple':
        return ['[', ['tuple', [['tuple', [['i', 1], lit]], ['i', 3]]]]
    if k == 'slice-part':
        parts = [draw(st.sampled_from([None, 1])), draw(st.sampled_from([None, 2])), None]
        parts[draw(st.integers(0, 2))] = lit
        return ['[', ['slice', parts]]
    if k == 'list-item':
        return ['[', ['list', [lit]]]
    if k == 'arg':
        return ['(', [lit], []]
    if k == 'kw':
        return ['(', [], [['p', lit]]]
    return ['(', [['list', [['i', 0], lit]]], []]


def gen_special(draw):
    """None (most cases), or one of the constructed classes to be planted into the case"""
    return draw(st.sampled_from(SPECIAL_POOL))


def observed_steps(draw, carrier, root):
    """the carrier step applied to the Observer target of the battery (T.k(..) / T[..], below S: S.a.k(..) / S.a[..]), which
    answers with what it received; optionally followed by a step that picks the arguments out of the answer"""
    steps = ([['.', 'a']] if root == 'S' else []) + ([['.', 'k']] if carrier[0] == '(' else []) + [carrier]
    if draw(st.integers(0, 2)) == 0:
        steps.append(['[', ['i', draw(st.integers(1, 2 if carrier[0] == '(' else 1))]])
    return steps


def plant_in_steps(draw, steps, root, cls):
    lit = gen_special_lit(draw, cls)
    # (a slice that IS the index, or a direct member of an index tuple, is written with colons: not the nested class)
    carrier = gen_carrier_step(draw, lit, root, cls != 'slice-nested-builtin')
    if cls in OBSERVED and root != 'A' and draw(st.booleans()):
        return observed_steps(draw, carrier, root)
    steps.insert(draw(st.integers(0, len(steps))), carrier)
    if root == 'S' and steps[0][0] == '(':
        steps.insert(0, ['.', 'k'])       # S(...) on the bare root is the scope-assignment form
    return steps


def plant_in_parts(draw, parts, cls, root=None):
    """root: given by the roundtrip generator (whose Paths are evaluated), so that the literal can be shown to the Observer"""
    lit = gen_special_lit(draw, cls)
    if cls == 'path-list-segment' or (cls != 'long-nested-T' and draw(st.booleans())):
        part = ['P', lit]                 # (a T expression given to Path is a run of steps, never a plain segment)
    else:
        carrier = gen_carrier_step(draw, lit, 'T', cls != 'slice-nested-builtin')
        if cls in OBSERVED and root is not None and draw(st.booleans()):
            # Path('k', T(..)) / Path(T[..]); below S: Path(S, 'a', 'k', T(..))
            steps = observed_steps(draw, carrier, root)
            return [['P', ['s', s_[1]]] if s_[0] == '.' else ['T', [s_]] for s_ in steps]
        part = ['T', [carrier]]
    parts.insert(draw(st.integers(0, len(parts))), part)
    return parts


def gen_lit(draw, depth=2):
    if depth == 2 and draw(st.sampled_from(range(25))) == 0:
        # a literal nested deeper than reprlib's default level limit
        r = ['i', draw(st.integers(0, 9))]
        for _ in range(draw(st.integers(6, 9))):
            r = [draw(st.sampled_from(['list', 'tuple', 'list'])), [r]]
        return r
    k = draw(st.integers(0, 16))
    if k == 15:
        return gen_complex(draw)
    if k <= 1:
        return ['i', draw(st.integers(-5, 12))]
    if k <= 3:
        return ['s', draw(st.sampled_from(STRS))]
    if k == 4:
        x = draw(st.sampled_from([0.5, -1.25, 1e20, 3.0, 'inf', '-inf', 'nan']))
        return ['fnf', x] if isinstance(x, str) else ['f', x]
    if k == 14:
        return gen_slice(draw)       # a slice as a plain value (call argument, tuple / list member, ..)
    if k == 5:
        return ['none']
    if k == 6:
        return ['b', draw(st.booleans())]
    if k == 7:
        return ['ell']
    if k == 8:
        return ['bytes', draw(st.sampled_from(['', 'ab', '\xff']))]
    if k == 9:
        return ['builtin', draw(st.sampled_from(['len', 'int', 'str', 'sorted']))]
    if depth <= 0:
        return ['i', draw(st.integers(0, 3))]
    if k == 10:
        return ['tuple', [gen_lit(draw, depth - 1) for _ in range(draw(st.integers(0, 3)))]]
    if k == 11:
        return ['fset', [['i', x] for x in draw(st.lists(st.integers(0, 3), max_size=1))]]
    if k == 12:
        return ['T', 'T', gen_steps(draw, draw(st.integers(0, 2)), 'T', depth - 1)]
    if k == 16:
        # a dict as a plain value, keys of one family or mixed, in the order drawn (sorted or not)
        fam = draw(st.sampled_from(KEY_FAMILIES + [MIXED_KEYS, MIXED_KEYS]))
        return ['dict', [[key, gen_lit(draw, depth - 1)] for key in draw(st.lists(st.sampled_from(fam), max_size=3, unique_by=repr))]]
    return ['list', [gen_lit(draw, depth - 1) for _ in range(draw(st.integers(0, 2)))]]


RICH_PARTS = [['builtin', 'int'], ['builtin', 'len'], ['fnf', 'inf'], ['fnf', '-inf'], ['fnf', 'nan'], ['f', 0.5],
              ['s', 'a'], ['slice', [None, ['builtin', 'str'], None]], ['slice', [0, 1, None]]]


def gen_slice(draw):
    part = st.sampled_from([None, None, 0, 1, 2, -1, -2, 5])
    parts = [draw(part), draw(part), draw(st.sampled_from([None, None, 1, 2, -1, -2]))]
    if draw(st.integers(0, 7)) == 0:
        # a part that is no int: a builtin, a float (finite or not), a string, a further slice
        parts[draw(st.integers(0, 2))] = draw(st.sampled_from(RICH_PARTS))
    return ['slice', parts]


def gen_item_arg(draw, depth):
    k = draw(st.integers(0, 9))
    if k <= 4:
        return gen_lit(draw, depth)
    if k <= 6:
        return gen_slice(draw)
    if k == 7:   # tuple of slices / mixed
        return ['tuple', [gen_slice(draw) if draw(st.booleans()) else ['i', draw(st.integers(0, 3))]
                          for _ in range(draw(st.integers(0, 3)))]]
    if k == 8:
        return ['s', draw(st.sampled_from(STRS))]
    return ['i', draw(st.integers(-3, 3))]


def gen_steps(draw, n, root, depth=2):
    steps = []
    for _ in range(n):
        kinds = ['.', '.', '[', '[', '[']
        if root != 'A':
            kinds += ['(', 'x', 'X', 'dunder']
        k = draw(st.sampled_from(kinds))
        if k in ('x', 'X') and (sum(1 for s_ in steps if s_[0] in 'xX') >= 2 or depth < 2 or (root == 'S' and not steps)):
            # at most two wildcard steps per expression (each multiplies the work on the battery);
            # a wildcard applied to the scope ITSELF (first step of an S-rooted expression) would traverse glom's
            # own registries and is not generated; below a scope value it is (DESIGN.md F20, repaired)
            k = '.'
        if k == '.':
            steps.append(['.', draw(st.sampled_from(NAMES))])
        elif k == 'dunder':
            steps.append(['.', draw(st.sampled_from(DUNDERS))])
        elif k == '[':
            steps.append(['[', gen_item_arg(draw, depth)])
        elif k == '(':
            if root == 'S' and not steps:
                steps.append(['.', 'k'])
            args = [gen_lit(draw, depth) for _ in range(draw(st.integers(0, 2)))]
            kws = [[kw, gen_lit(draw, depth)] for kw in draw(st.lists(st.sampled_from(['p', 'q', 'key']), max_size=2, unique=True))]
            steps.append(['(', args, kws])
        else:
            steps.append([k])
    return steps


def gen_t(draw, special=None):
    root = draw(st.sampled_from(['T', 'T', 'T', 'S', 'A']))
    n = draw(st.integers(0, 8 if runner_mod.thorough() else 6))
    steps = gen_steps(draw, n, root)
    if special is not None:
        steps = plant_in_steps(draw, steps, root, special)
    return {'kind': 't', 'root': root, 'steps': steps}


def gen_path_parts(draw, maxparts=5):
    """Path recipe: list of parts; part = ["P", lit] | ["T", steps] | ["Path", parts]"""
    parts = []
    for _ in range(draw(st.integers(0, maxparts))):
        k = draw(st.integers(0, 5))
        if k <= 2:
            parts.append(['P', draw(st.sampled_from([['s', s] for s in STRS] + [['i', 0], ['i', 1], ['i', -1], ['none'], ['f', 0.5], ['tuple', [['i', 1]]],
                                                    ['builtin', 'int'], ['builtin', 'len'], ['tuple', [['builtin', 'str'], ['i', 1]]]]))])
        elif k <= 4:
            parts.append(['T', gen_steps(draw, draw(st.integers(1, 2)), 'T', 1)])
        else:
            parts.append(['Path', [['P', ['s', draw(st.sampled_from(STRS))]] for _ in range(draw(st.integers(0, 2)))]])
    return parts


def build_path(parts, root='T'):
    args = []
    if root != 'T':
        args.append(tx.ROOTS[root])
    for p in parts:
        if p[0] == 'P':
            args.append(tx.build_lit(p[1]))
        elif p[0] == 'T':
            args.append(tx.build_t('T', p[1]))
        else:
            args.append(build_path(p[1]))
    return Path(*args)


def path_items(parts):
    """reference: the flat tuple of (op, arg-recipe) steps a Path recipe denotes"""
    out = []
    for p in parts:
        if p[0] == 'P':
            out.append(('P', p[1]))
        elif p[0] == 'T':
            for s in p[1]:
                out.append(step_item(s))
        else:
            out.extend(path_items(p[1]))
    return out


def step_item(s):
    if s[0] == '.':
        return ('.', ['s', s[1]])
    if s[0] == '[':
        return ('[', s[1])
    if s[0] == '(':
        return ('(', ['call', s[1], s[2]])
    if s[0] == 'x':
        return ('x', ['none'])
    if s[0] == 'X':
        return ('X', ['none'])
    raise ValueError(s)


def item_value(arg):
    if arg[0] == 'call':
        return (tuple(tx.build_lit(a) for a in arg[1]), dict((k, tx.build_lit(v)) for k, v in arg[2]))
    return tx.build_lit(arg)


def _fix_s_call(root, parts):
    """S(...) directly on the root is the scope-assignment form (keyword-only); keep calls off it"""
    if root == 'S':
        items = path_items(parts)
        if items and items[0][0] == '(':
            parts.insert(0, ['P', ['s', 'k']])
    return parts


def gen_roundtrip(draw):
    special = gen_special(draw)
    if special == 'path-list-segment' or draw(st.integers(0, 3)) == 0:
        root = draw(st.sampled_from(['T', 'T', 'S']))
        parts = gen_path_parts(draw)
        if special is not None:
            parts = plant_in_parts(draw, parts, special, root)
        return {'kind': 'path', 'root': root, 'parts': _fix_s_call(root, parts)}
    return gen_t(draw, special)


# -- structural equality of operation tuples ---------------------------------

def ops_equal(a, b, literal=True):
    """literal=True: the two denote the same literal text (dict order, sign of zero).  literal=False: structural version of
    Python's == (what Path.__eq__ / startswith go by): dicts as mappings, 0.0 == -0.0"""
    if isinstance(a, Path):
        a = a.path_t
    if isinstance(b, Path):
        b = b.path_t
    if isinstance(a, TType) or isinstance(b, TType):
        if not (isinstance(a, TType) and isinstance(b, TType)):
            return False
        oa, ob = a.__ops__, b.__ops__
        return oa[0] is ob[0] and ops_equal(oa[1:], ob[1:], literal)
    if isinstance(a, Path):
        a = a.path_t
    if isinstance(b, Path):
        b = b.path_t
    if isinstance(a, Spec) or isinstance(b, Spec):
        return isinstance(a, Spec) and isinstance(b, Spec) and ops_equal(a.spec, b.spec, literal)
    if type(a) is not type(b):
        if literal or isinstance(a, (tuple, list, dict, slice)) or isinstance(b, (tuple, list, dict, slice)):
            return False
        # (Python's ==, which the tuple of steps goes by, looks through the type of numbers: 0 == 0.0 == complex(-0.0, 0.0))
        try:
            return bool(a == b)
        except Exception:
            return False
    if isinstance(a, (tuple, list)):
        return len(a) == len(b) and all(ops_equal(x, y, literal) for x, y in zip(a, b))
    if isinstance(a, dict):
        # the same (key, value) pairs in the same order: a dict argument is handed to the callee as it is, and the callee
        # sees the order (finding F106: the keys were rendered sorted)
        if not literal:
            return sorted(a, key=repr) == sorted(b, key=repr) and all(ops_equal(a[k], b[k], literal) for k in a)
        return len(a) == len(b) and all(ops_equal(ka, kb) and ops_equal(va, vb)
                                        for (ka, va), (kb, vb) in zip(a.items(), b.items()))
    if isinstance(a, complex):
        return ops_equal(a.real, b.real, literal) and ops_equal(a.imag, b.imag, literal)
    if isinstance(a, slice):
        return ops_equal((a.start, a.stop, a.step), (b.start, b.stop, b.step), literal)
    if isinstance(a, float):
        return (a == b and (not literal or math.copysign(1.0, a) == math.copysign(1.0, b))) or (a != a and b != b)
    return a == b


BATTERY = [
    ['dict', [['a', ['dict', [['b', ['i', 1]], ['k', ['list', [['i', 1], ['i', 2], ['i', 3]]]]]]],
              ['b', ['list', [['i', 5], ['i', 6], ['i', 7]]]], ['k', ['s', 'abc']], [0, ['s', 'zero']], ['', ['i', 9]]]],
    ['list', [['dict', [['a', ['i', 1]]]], ['list', [['i', 1], ['i', 2]]], ['s', 'xyz'], ['i', 4]]],
    ['obj', [['a', ['obj', [['b', ['i', 2]], ['k', ['tuple', [['i', 1], ['i', 2]]]]]]], ['b', ['i', 3]], ['k', ['dict', [['a', ['i', 1]]]]]]],
    ['s', 'hello'],
    ['i', 7],
    ['observer'],
]


class Observer(object):
    """battery target whose callee `k` and whose item access answer with exactly what they received: the order of a dict
    argument, of the keywords, the type of every literal shows in the outcome (canon_repr spells dicts in their own order)"""
    __iter__ = None        # (not iterable: without this, iter() would fall back to __getitem__ and never stop)

    def k(self, *args, **kwargs):
        return ('k', args, kwargs)

    def __getitem__(self, key):
        return ('item', key)

    def __repr__(self):
        return 'Observer()'


def canon_repr(v):
    """repr of a result, containers spelled out recursively"""
    if type(v) is dict:
        # (items in their own order: a mapping built from the keyword arguments of a call step shows the order in which
        # the callee received them, which eval(repr(x)) must preserve -- finding F42)
        return '{' + ', '.join('%s: %s' % (canon_repr(k), canon_repr(x)) for k, x in v.items()) + '}'
    if type(v) in (list, tuple):
        return type(v).__name__ + '(' + ', '.join(canon_repr(x) for x in v) + ')'
    return repr(v)


def outcome(target, spec, scope):
    try:
        v = glom.glom(target, spec, scope=dict(scope))
        return ('ok', ADDR.sub('', canon_repr(v)))
    except PathAccessError as e:
        return ('pae', e.part_idx, type(e.exc).__name__)
    except Exception as e:
        return ('err', type(e).__name__, tuple(c.__name__ for c in type(e).__mro__[1:4]))


def outcomes(spec, observer=True):
    """observer=False leaves the Observer target out (expressions without a dict / complex literal: the five data targets
    decide; the sixth costs a seventh of the run)"""
    outs = []
    for tr in BATTERY if observer else BATTERY[:-1]:
        t = Observer() if tr == ['observer'] else tg.build(tr).obj
        scope = {'a': t, 'k': {'a': 1, 'b': [1, 2]}, 'b': [3, 4, 5]}
        outs.append(outcome(t, spec, scope))
    return outs


def _nontrivial(recipe):
    s = repr(recipe)
    if recipe['kind'] == 't':
        kinds = set(x[0] for x in recipe['steps'])
        if len(recipe['steps']) >= 3 and len(kinds) >= 2:
            return True
    else:
        if len(recipe['parts']) >= 3:
            return True
    return any(tok in s for tok in ("'tuple'", "'slice'", "'T'", '"', "\\'", '__'))


def check_roundtrip(recipe, ctx):
    if recipe['kind'] == 't':
        classes = set()
        steps_classes(recipe['steps'], classes)
        x = tx.build_t(recipe['root'], expand_steps(recipe['steps']))
    else:
        classes = parts_classes(recipe['parts'], set())
        x = build_path(expand_parts(recipe['parts']), recipe['root'])
    ctx.label('kind-' + recipe['kind'], 'root-' + recipe['root'], *sorted(classes))
    ctx.nontrivial(_nontrivial(recipe) or bool(classes))
    try:
        r = repr(x)
    except Exception as e:
        raise Mismatch('repr-raises', '%r: %s: %s' % (recipe, type(e).__name__, e))
    obs = bool(classes & {'dict', 'complex'})
    base = outcomes(x, obs) if recipe['root'] != 'A' else None
    if base is not None and obs and base[-1][0] == 'ok':
        # (distribution only: the Observer target was reached by every step, so its answer shows the literals)
        ctx.label(*[c + '-observed' for c in sorted(classes) if c in OBSERVED])
    # --- eval(repr(x))
    try:
        y = eval(r, dict(EVAL_ENV))
    except Exception as e:
        raise Mismatch('repr-not-evaluable', 'repr %s does not evaluate: %s: %s' % (r, type(e).__name__, e))
    if not isinstance(y, (TType, Path)):
        # (a Path made only of T steps prints as that T expression: same steps, same evaluation;
        # the statement asks for the same repr and the same evaluation, not the same class)
        raise Mismatch('repr-wrong-type', 'repr %s evaluates to a %s' % (r, type(y).__name__))
    if repr(y) != r:
        raise Mismatch('repr-unstable', 'repr %s re-evaluates to repr %s' % (r, repr(y)))
    if not ops_equal(x, y):
        raise Mismatch('repr-different-object', 'repr %s denotes ops %r, original has %r'
                       % (r, _ops(y), _ops(x)))
    if base is not None and outcomes(y, obs) != base:
        raise Mismatch('repr-different-outcome', 'repr %s evaluates differently: %r vs %r' % (r, outcomes(y, obs), base))
    # --- pickle at every protocol
    for proto in range(0, pickle.HIGHEST_PROTOCOL + 1):
        try:
            z = pickle.loads(pickle.dumps(x, proto))
        except Exception as e:
            raise Mismatch('pickle-raises', '%s protocol %d: %s: %s' % (r, proto, type(e).__name__, e))
        if type(z) is not type(x) or repr(z) != r or not ops_equal(x, z):
            raise Mismatch('pickle-different-object', '%s protocol %d -> %r (ops %r vs %r)' % (r, proto, z, _ops(z), _ops(x)))
        if base is not None and proto in (2, pickle.HIGHEST_PROTOCOL) and outcomes(z, obs) != base:
            raise Mismatch('pickle-different-outcome', '%s protocol %d' % (r, proto))
    ctx.outcome(r)


def _ops(v):
    if isinstance(v, Path):
        v = v.path_t
    return getattr(v, '__ops__', v)


# ---------------------------------------------------------------------------
# seq: Path as an immutable sequence

def gen_seq(draw):
    root = draw(st.sampled_from(['T', 'T', 'S']))
    special = gen_special(draw)
    p, q = gen_path_parts(draw, 4), gen_path_parts(draw, 3)
    if special is not None:
        if draw(st.booleans()):
            p = plant_in_parts(draw, p, special)
        else:
            q = plant_in_parts(draw, q, special)
    return {'root': root, 'p': _fix_s_call(root, p), 'q': q}


def values_equal(got, exp_items):
    return ops_equal(tuple(got), tuple(item_value(a) for _, a in exp_items))


def items_equal(got, exp_items):
    return ops_equal(tuple(got), tuple((op, item_value(a)) for op, a in exp_items))


def check_seq(recipe, ctx):
    root = recipe['root']
    classes = parts_classes(recipe['p'], parts_classes(recipe['q'], set()))
    recipe = {'root': root, 'p': expand_parts(recipe['p']), 'q': expand_parts(recipe['q'])}
    p = build_path(recipe['p'], root)
    q = build_path(recipe['q'])
    ip, iq = path_items(recipe['p']), path_items(recipe['q'])
    ctx.nontrivial(len(ip) >= 2 and len(iq) >= 1)
    ctx.label('len-%d' % min(len(ip), 4), *sorted(classes))
    # a Path is a value: its text can be asked for whatever its segments are (finding F77: repr(Path([1])) raised)
    for what in (p, q):
        try:
            repr(what)
        except Exception as e:
            raise Mismatch('repr-raises', 'repr of the Path with items %r: %s: %s'
                           % (ip if what is p else iq, type(e).__name__, e))
    if len(p) != len(ip):
        raise Mismatch('len', '%r: len %d, steps %d' % (p, len(p), len(ip)))
    if not values_equal(p.values(), ip):
        raise Mismatch('values', '%r: values() %r' % (p, p.values()))
    if not items_equal(p.items(), ip):
        raise Mismatch('items', '%r: items() %r' % (p, p.items()))
    p2 = build_path(recipe['p'], root)
    # equality agrees with equality of the tuples of steps (plus the root).  NB: the tuple of steps
    # uses Python equality, under which two separately built nested T arguments differ - so does Path.
    for other in (p2, q):
        same_steps = (tuple(p.items()) == tuple(other.items())
                      and p.path_t.__ops__[0] is other.path_t.__ops__[0])
        if (p == other) != same_steps or (p != other) == same_steps:
            raise Mismatch('eq', '%r == %r gives %r, steps equal: %r' % (p, other, p == other, same_steps))
    if not tx.has_nested(recipe['p']) and not (p == p2):
        raise Mismatch('eq', '%r != independently built equal path' % (p,))
    # concatenation (an S-rooted Path is accepted as first part only as its T expression)
    pq = Path(p if root == 'T' else p.path_t, q)
    if len(pq) != len(ip) + len(iq) or not items_equal(pq.items(), ip + iq):
        raise Mismatch('concat', 'Path(%r, %r) = %r' % (p, q, pq))
    if pq.path_t.__ops__[0] is not tx.ROOTS[root]:
        raise Mismatch('concat-root', 'Path(%r, %r) lost its root' % (p, q))
    # startswith: every prefix, and a non-prefix
    for n in range(len(ip) + 1):
        pre = p[:n] if n else Path(tx.ROOTS[root]) if root != 'T' else Path()
        if not p.startswith(pre):
            raise Mismatch('startswith', '%r.startswith(%r) is False' % (p, pre))
    if not pq.startswith(p):
        raise Mismatch('startswith', '%r.startswith(%r) is False' % (pq, p))
    if len(iq) and root == 'T':
        exp = len(ip) >= len(iq) and ops_equal(tuple((o, item_value(a)) for o, a in ip[:len(iq)]),
                                               tuple((o, item_value(a)) for o, a in iq), literal=False)
        if bool(p.startswith(q)) != exp:
            raise Mismatch('startswith', '%r.startswith(%r) is %r, expected %r' % (p, q, p.startswith(q), exp))
    # immutability: none of the above changed p
    if not items_equal(p.items(), ip):
        raise Mismatch('mutated', '%r changed by sequence operations' % (p,))
    # composition (wildcard-free, T-rooted)
    flat = repr(recipe)
    # (a nested T / Spec argument inside q denotes the target of the CALL - t on the left, glom(t, p) on the right -
    # so the law cannot hold for it by design; such q are left out)
    if root == 'T' and "'x'" not in flat and "'X'" not in flat and not tx.has_nested(recipe['q']):
        for tr in BATTERY[:3]:
            t = tg.build(tr).obj
            try:
                mid = glom.glom(t, p)
            except GlomError:
                try:
                    glom.glom(t, pq)
                except GlomError:
                    ctx.label('compose-both-fail')
                    continue
                raise Mismatch('compose', 'glom(t, %r) fails but glom(t, %r) succeeds' % (p, pq))
            except Exception:
                continue
            try:
                two = ('ok', glom.glom(mid, q))
            except GlomError as e:
                two = ('err', type(e).__name__)
            except Exception as e:
                two = ('exc', type(e).__name__)
            try:
                one = ('ok', glom.glom(t, pq))
            except GlomError as e:
                one = ('err', type(e).__name__)
            except Exception as e:
                one = ('exc', type(e).__name__)
            if one[0] != two[0] or (one[0] == 'ok' and not tg.same(one[1], two[1]) and one[1] != two[1]
                                    and ADDR.sub('', repr(one[1])) != ADDR.sub('', repr(two[1]))) \
                    or (one[0] != 'ok' and one != two):
                raise Mismatch('compose', 'glom(t, Path(p, q)) = %r but glom(glom(t, p), q) = %r for p=%r q=%r'
                               % (one, two, p, q))
            ctx.label('compose-' + one[0])
    ctx.outcome([repr(p), repr(q)])


# ---------------------------------------------------------------------------
# index: exhaustive enumeration

STEP_POOL = [['P', ['s', 'a']], ['T', [['.', 'b']]], ['P', ['i', 1]], ['T', [['[', ['s', 'k']]]], ['P', ['s', 'c']],
             ['T', [['(', [], [['test', ['s', 'yes']]]]]]]


def enum_index(tier):
    maxn = 4 if tier == 'quick' else 6
    for root in ('T', 'S'):
        for n in range(0, maxn + 1):
            for i in range(-n - 2, n + 3):
                yield {'root': root, 'n': n, 'index': i}
            bounds = [None] + list(range(-n, n + 1))
            for start, stop, step in itertools.product(bounds, bounds, [None, 1, 2, 3, -1, -2, -3]):
                yield {'root': root, 'n': n, 'slice': [start, stop, step]}


def check_index(recipe, ctx):
    n = recipe['n']
    parts = STEP_POOL[:n]
    p = build_path(parts, recipe['root'])
    items = path_items(parts)
    tup = tuple(items)
    if 'index' in recipe:
        i = recipe['index']
        ctx.label('index')
        ctx.nontrivial(n >= 2)
        try:
            exp = ('ok', (tup[i],))
        except IndexError:
            exp = ('IndexError',)
        try:
            got = ('ok', p[i])
        except IndexError:
            got = ('IndexError',)
        except Exception as e:
            raise Mismatch('index-wrong-exception', '%r[%d] raised %s' % (p, i, type(e).__name__))
        if exp[0] != got[0]:
            raise Mismatch('index-range', '%r[%d]: tuple of steps gives %s, Path gives %r' % (p, i, exp[0], got))
        if exp[0] == 'ok':
            _same_path(got[1], exp[1], recipe, '%r[%d]' % (p, i))
    else:
        sl = slice(*recipe['slice'])
        ctx.label('slice', 'step-%s' % ('neg' if (sl.step or 1) < 0 else 'pos'))
        ctx.nontrivial(n >= 2)
        exp = tup[sl]
        try:
            got = p[sl]
        except Exception as e:
            raise Mismatch('slice-raises', '%r[%r] raised %s: %s' % (p, sl, type(e).__name__, e))
        _same_path(got, exp, recipe, '%r[%s:%s:%s]' % (p, sl.start, sl.stop, sl.step))
    ctx.outcome('ok')


def _same_path(got, exp_items, recipe, what):
    if not isinstance(got, Path):
        raise Mismatch('not-a-path', '%s is %r' % (what, got))
    if not items_equal(got.items(), list(exp_items)):
        raise Mismatch('index-slice', '%s = %r, the tuple of steps gives %r'
                       % (what, got, [(o, item_value(a)) for o, a in exp_items]))
    if got.path_t.__ops__[0] is not tx.ROOTS[recipe['root']]:
        raise Mismatch('root-lost', '%s lost its root' % what)


def is_f13(recipe, mm):
    sl = recipe.get('slice')
    return bool(sl and sl[2] is not None and sl[2] < 0 and (sl[0] is not None or sl[1] is not None)
                and mm.kind == 'index-slice')


def is_f12(recipe, mm):
    return recipe.get('kind') == 'path' and recipe.get('root') in ('S', 'A') and mm.kind.startswith('repr-')


CLASSIFIERS = {'F13-negative-step-slice': is_f13, 'F12-path-repr-root': is_f12}

SUBS = [
    Sub('roundtrip', check_roundtrip, gen=gen_roundtrip, quick=6000, thorough=20000,
        floors={'kind-path': 0.1, 'root-S': 0.1, 'root-A': 0.05,
                # constructed classes (findings F77-F80); lowest share observed at seeds 1-3:
                # .051 / .075 / .029 / .027 / .0118 / .0178 / .053
                'slice-nested-builtin': 0.028, 'float-nonfinite': 0.04, 'long-str': 0.015, 'long-int': 0.012,
                'long-seq': 0.006, 'long-nested-T': 0.008, 'path-list-segment': 0.025,
                # (finding F106) lowest share observed at seeds 1-3: .055 / .019 / .101 / .035 / .063 / .0225;
                # -observed: the expression carrying the literal evaluated to the end on the Observer target
                'dict-unsorted': 0.03, 'dict-unsorted-observed': 0.011,
                'complex-nonfinite': 0.05, 'complex-nonfinite-observed': 0.01,
                'complex-signed-zero': 0.035, 'complex-signed-zero-observed': 0.012}),
    Sub('seq', check_seq, gen=gen_seq, quick=3000, thorough=10000,
        floors={'compose-ok': 0.02,
                # lowest share observed at seeds 1-3: .055 / .075 / .026 / .029 / .0073 / .018 / .040
                'slice-nested-builtin': 0.02, 'float-nonfinite': 0.035, 'long-str': 0.015, 'long-int': 0.012,
                'long-seq': 0.004, 'long-nested-T': 0.004, 'path-list-segment': 0.02,
                # (finding F106) .051 / .069 / .070
                'dict-unsorted': 0.025, 'complex-nonfinite': 0.035, 'complex-signed-zero': 0.04}),
    Sub('index', check_index, enum=enum_index),
    fuzzrun.fuzz_sub('fuzz-roundtrip', 'hyp:c18:roundtrip', runs=30000, campaigns=4, replay_sub='roundtrip'),
]
