"""C09 — Match succeeds exactly on conforming targets and returns them unchanged.

Generator: pattern recipes (depth <= 3) over literals, types, lists/sets/frozensets of
alternatives, tuples, dicts with literal / type / Optional(+default) / Required / predicate /
compound keys, Regex, predicates, And/Or/Not and M comparisons; targets in three families:
derived from the pattern (conforming by construction), one-edit mutations of those (near
misses), unrelated values.

Oracle: refmatch() - the documented rules only.
"""
import re
import functools

from hypothesis import strategies as st

import glom
from glom import Match, MatchError, TypeMatchError, GlomError, M, And, Or, Not, Optional, Required, Regex, T

from ..runner import Sub, Mismatch
from .. import targets as tg

PROPERTY = 'C09'
RULE = ('patterns: recursive recipes (depth <= 3) over the documented Match constructs; targets: 40% derived from the '
        'pattern (conforming), 40% one-edit mutations of a conforming target, 20% unrelated. '
        'Non-trivial = pattern depth >= 2 or a dict pattern with >= 2 kinds of key. Distribution floors: '
        'accepted >= 20%, rejected >= 20%, near-miss >= 25%.')
ASSUMPTIONS = [
    'reference matcher refmatch() implements only the documented rules (types by isinstance, list/set element-wise '
    'against any alternative, tuples positionally, dict keys in spec order, == otherwise)',
    'TypeError-ness of a rejection is asserted only when no alternative/Or/Not lies between the failing type rule and the root',
    'patterns with two Optional keys for the same key are not generated',
]

TYPES = {'int': int, 'str': str, 'float': float, 'bool': bool, 'object': object, 'NoneType': type(None),
         'list': list, 'dict': dict, 'tuple': tuple}


class Pred(object):
    def __init__(self, name, f):
        self.__name__ = name
        self.f = f

    def __call__(self, t):
        return self.f(t)

    def __repr__(self):
        return self.__name__

    def __hash__(self):
        return hash(self.__name__)

    def __eq__(self, other):
        return type(other) is Pred and other.__name__ == self.__name__


PREDS = {
    'isint': Pred('isint', lambda t: isinstance(t, int)),
    'pos': Pred('pos', lambda t: isinstance(t, (int, float)) and t > 0),
    'shortstr': Pred('shortstr', lambda t: isinstance(t, str) and len(t) < 2),
    'never': Pred('never', lambda t: False),
    # a partial predicate: raises TypeError on targets that cannot be compared with 0 (a rejection, not an error)
    'rawpos': Pred('rawpos', lambda t: t > 0),
    # a predicate object without a __name__
    'partialpos': functools.partial(lambda lo, t: isinstance(t, (int, float)) and not isinstance(t, bool) and t > lo, 0),
}
PRED_SAMPLE = {'isint': ['i', 4], 'pos': ['i', 2], 'shortstr': ['s', 'q'], 'never': ['none'], 'rawpos': ['i', 3], 'partialpos': ['i', 6]}
TYPE_SAMPLE = {'int': ['i', 3], 'str': ['s', 'st'], 'float': ['f', 2.5], 'bool': ['b', True], 'object': ['s', 'o'],
               'NoneType': ['none'], 'list': ['list', [['i', 1]]], 'dict': ['dict', [['z', ['i', 1]]]],
               'tuple': ['tuple', [['i', 1]]]}
# pattern -> conforming samples.  Ordered alternations whose earlier branch is a prefix of a later one and lazy
# quantifiers need backtracking to span the whole target (a match at position 0 that stops early is not a full match)
REGEXES = {'ab+': ['abb'], '[0-9]+': ['42'], '(?P<w>x+)y': ['xxy'], 'a|ab': ['a', 'ab'], '1|10': ['10', '1'],
           '[0-9]+?': ['123', '7'], 'foo(?:bar)??': ['foobar', 'foo']}

LITS = [['i', 0], ['i', 1], ['i', 2], ['s', 'a'], ['s', 'b'], ['s', ''], ['none'], ['f', 1.5], ['b', True],
        ['tuple', [['i', 1]]], ['s', 'c']]
HASHABLE_KEYS = ['a', 'b', 'c', 1]


def lit_val(l):
    return tg.build(l).obj


# ---------------------------------------------------------------------------
# generation

def gen_pat(draw, d):
    r = draw(st.integers(0, 99))
    if d >= 3 and r < 50:
        r = draw(st.sampled_from([52, 55, 62, 68, 70, 80, 84, 93, 95, 97, 99]))    # composite patterns at the root
    if d <= 0 or r < 26:
        return ['lit', draw(st.sampled_from(LITS))]
    if r < 44:
        return ['type', draw(st.sampled_from(sorted(TYPES)))]
    if r < 50:
        return ['pred', draw(st.sampled_from(['isint', 'pos', 'shortstr', 'rawpos', 'partialpos']))]
    if r < 60:
        if draw(st.sampled_from(range(4))) == 0:
            # a NON-LAST alternative that fails with a GlomError which is no MatchError (the access inside M(T[k]))
            # on the elements the later alternative accepts
            first = ['mt', draw(st.sampled_from(['k', 0])), draw(st.sampled_from(['==', '!=', '>'])), ['i', draw(st.integers(0, 2))]]
            return ['list', [first, gen_pat(draw, d - 1)]]
        return ['list', [gen_pat(draw, d - 1) for _ in range(draw(st.integers(0, 2)))]]
    if r < 65:
        tag = draw(st.sampled_from(['set', 'fset']))
        alts = draw(st.lists(st.sampled_from([['lit', l] for l in LITS[:9]] + [['type', 'int'], ['type', 'str']]),
                             max_size=2, unique_by=repr))
        return [tag, alts]
    if r < 74:
        return ['tuple', [gen_pat(draw, d - 1) for _ in range(draw(st.integers(0, 3)))]]
    if r < 78:
        return ['regex', draw(st.sampled_from(sorted(REGEXES)))]
    if r < 83:
        return [draw(st.sampled_from(['and', 'or'])), [gen_pat(draw, d - 1) for _ in range(draw(st.integers(1, 3)))]]
    if r < 85:
        return ['not', gen_pat(draw, d - 1)]
    if r < 88:
        return ['m', draw(st.sampled_from(['==', '!=', '>', '<', '>=', '<='])), draw(st.sampled_from(LITS[:3] + [['s', 'a']]))]
    if r < 91:
        # M(T[key]) op lit: the access fails (PathAccessError, a GlomError that is no MatchError) on most targets
        return ['mt', draw(st.sampled_from(['k', 0])), draw(st.sampled_from(['==', '!=', '>'])), ['i', draw(st.integers(0, 2))]]
    # dict
    entries = []
    used = set()
    for _ in range(draw(st.integers(0, 3))):
        kk = draw(st.integers(0, 99))
        if kk < 38:
            k = ['lit', draw(st.sampled_from(HASHABLE_KEYS))]
        elif kk < 46:
            k = ['opt', draw(st.sampled_from(HASHABLE_KEYS[:3]))]
        elif kk < 54:
            k = ['optd', draw(st.sampled_from(HASHABLE_KEYS[:3])), draw(st.sampled_from([['i', 0], ['s', 'dflt'], ['list', []]]))]
        elif kk < 74:
            k = ['type', draw(st.sampled_from(['str', 'int', 'object']))]
        elif kk < 82:
            k = ['req', ['type', draw(st.sampled_from(['str', 'int', 'object']))]]
        elif kk < 78 and kk >= 74 or kk in (88, 89):
            k = ['kf', ['a', 'b', 1]]         # frozenset of constants: matches every frozenset key made of these
        elif kk < 96:
            # (plain callables are not generated as dict KEYS: the property's domain lists literal, type,
            # Optional, Required and compound keys; glom classes a callable key as an "== constant")
            k = ['kt', [['type', 'str'], ['type', 'int']]] if draw(st.booleans()) else ['kt', [['lit', 0], ['type', 'int']]]
        else:
            k = ['optkt', [draw(st.sampled_from([0, 'a'])), 1]]
        ident = repr(k[1]) if k[0] in ('lit', 'opt', 'optd') else repr(k)
        if ident in used:
            continue
        used.add(ident)
        entries.append([k, gen_pat(draw, d - 1)])
    return ['dict', entries]


def key_sample(draw, k):
    """a target key (tg key form) matching key pattern k"""
    tag = k[0]
    if tag in ('lit', 'opt', 'optd'):
        return k[1]
    if tag == 'optkt':
        return ['t', list(k[1])]
    if tag == 'req':
        return key_sample(draw, k[1])
    if tag == 'type':
        return {'str': draw(st.sampled_from(['s1', 's2', 'a'])), 'int': draw(st.sampled_from([5, 6, 1])),
                'object': draw(st.sampled_from(['o1', 7]))}[k[1]]
    if tag == 'pred':
        return {'isint': draw(st.sampled_from([8, 9])), 'shortstr': draw(st.sampled_from(['q', 'r']))}[k[1]]
    if tag == 'kf':
        n_ = draw(st.integers(0, 2))
        return ['fs', draw(st.lists(st.sampled_from(k[1]), min_size=n_, max_size=n_, unique=True))]
    if tag == 'kt':
        out = []
        for part in k[1]:
            if part[0] == 'lit':
                out.append(part[1])
            else:
                out.append({'str': 'ks', 'int': 3}[part[1]])
        return ['t', out]
    raise ValueError(k)


def gen_from(draw, p):
    """target recipe conforming to pattern p (best effort, by construction)"""
    tag = p[0]
    if tag == 'lit':
        return p[1]
    if tag == 'type':
        return TYPE_SAMPLE[p[1]]
    if tag == 'pred':
        return PRED_SAMPLE[p[1]]
    if tag == 'regex':
        return ['s', draw(st.sampled_from(REGEXES[p[1]]))]
    if tag in ('list', 'set', 'fset'):
        ttag = tag
        if not p[1]:
            return [ttag, []]
        return [ttag, [gen_from(draw, draw(st.sampled_from(p[1]))) for _ in range(draw(st.integers(0, 3)))]]
    if tag == 'tuple':
        return ['tuple', [gen_from(draw, x) for x in p[1]]]
    if tag in ('and', 'or'):
        return gen_from(draw, p[1][0] if tag == 'or' else p[1][-1])
    if tag == 'not':
        return ['s', 'zzz']
    if tag == 'm':
        v = lit_val(p[2])
        if isinstance(v, str):
            return {'==': ['s', v], '!=': ['s', v + 'x'], '>': ['s', v + 'x'], '<': ['s', ''], '>=': ['s', v], '<=': ['s', v]}[p[1]]
        return {'==': ['i', v], '!=': ['i', v + 1], '>': ['i', v + 1], '<': ['i', v - 1], '>=': ['i', v], '<=': ['i', v]}[p[1]]
    if tag == 'mt':
        v = p[3][1]
        val = {'==': v, '!=': v + 1, '>': v + 1}[p[2]]
        return ['dict', [['k', ['i', val]]]] if p[1] == 'k' else ['list', [['i', val]]]
    if tag == 'dict':
        out = []
        seen = set()
        for k, v in p[1]:
            if k[0] in ('opt', 'optd', 'optkt') and draw(st.booleans()):
                continue
            if k[0] in ('type', 'pred', 'kt') and draw(st.integers(0, 9)) < 4:
                continue
            for _ in range(draw(st.integers(1, 3)) if k[0] == 'kf' else 1):
                tk = key_sample(draw, k)
                if repr(tk) in seen:
                    continue
                seen.add(repr(tk))
                out.append([tk, gen_from(draw, v)])
        return ['dict', out]
    raise ValueError(p)


def mutate(draw, t):
    tag = t[0]
    r = draw(st.integers(0, 9))
    if tag == 's' and r < 3:
        return ['bytes', t[1]]        # the same text as bytes: a str pattern / literal does not match it
    if tag == 'dict' and t[1] and r < 7:
        entries = [list(e) for e in t[1]]
        i = draw(st.integers(0, len(entries) - 1))
        c = draw(st.integers(0, 2))
        if c == 0:
            del entries[i]
        elif c == 1:
            entries[i][1] = mutate(draw, entries[i][1])
        else:
            nk = draw(st.sampled_from(['zz', 5, 'a', 'b']))
            if repr(nk) not in [repr(e[0]) for e in entries]:
                entries.append([nk, draw(st.sampled_from(LITS[:8]))])
        return ['dict', entries]
    if tag in ('list',) and r < 7:
        items = list(t[1])
        if items and draw(st.booleans()):
            i = draw(st.integers(0, len(items) - 1))
            items[i] = mutate(draw, items[i])
        else:
            items.append(draw(st.sampled_from(LITS[:8])))
        return [tag, items]
    if tag == 'tuple' and r < 7:
        items = list(t[1])
        c = draw(st.integers(0, 2))
        if items and c == 0:
            i = draw(st.integers(0, len(items) - 1))
            items[i] = mutate(draw, items[i])
        elif items and c == 1:
            items.pop()
        else:
            items.append(draw(st.sampled_from(LITS[:8])))
        return ['tuple', items]
    if tag in ('list', 'tuple', 'set', 'fset') and r < 9:
        return [{'list': 'tuple', 'tuple': 'list', 'set': 'fset', 'fset': 'set'}[tag], t[1]]
    return draw(st.sampled_from(LITS + [['list', []], ['dict', []], ['tuple', []], ['list', [['i', 1]]],
                                        ['dict', [['a', ['i', 1]]]], ['s', 'abb'], ['i', 7]]))


def gen(draw):
    special = draw(st.sampled_from(range(16)))
    if special == 0:
        # an Optional(lit, default=d) listed AFTER a wildcard key that takes the same target key first: the value of
        # the target stays, the default is for absent keys only
        lit = draw(st.sampled_from(['a', 'b']))
        wild = draw(st.sampled_from(['str', 'object']))
        p = ['dict', [[['type', wild], ['type', 'int']], [['optd', lit, draw(st.sampled_from([['i', 0], ['i', 7]]))], ['type', 'int']]]]
        t = ['dict', [[lit, ['i', 5]]] + ([['zz', ['i', 3]]] if draw(st.booleans()) else [])]
        return {'pattern': p, 'target': t, 'family': 'derived', 'default': False}
    if special == 1:
        # equal items of different types side by side in a list: each item is matched on its own
        pair = draw(st.sampled_from([[['i', 1], ['f', 1.0]], [['b', False], ['i', 0]], [['i', 1], ['b', True]], [['f', 0.0], ['i', 0]],
                                     [['i', 2], ['f', 2.0], ['i', 2]]]))
        if draw(st.booleans()):
            pair = list(reversed(pair))
        p = ['list', [['type', draw(st.sampled_from(['int', 'float', 'bool']))]]]
        return {'pattern': p, 'target': ['list', pair], 'family': 'near-miss', 'default': False}
    p = gen_pat(draw, 3)
    c = draw(st.sampled_from([0, 1, 2, 4, 5, 6, 7, 4, 5, 8, 9, 6]))
    if c < 4:
        fam, t = 'derived', gen_from(draw, p)
    elif c < 8:
        fam, t = 'near-miss', mutate(draw, gen_from(draw, p))
    else:
        fam, t = 'unrelated', draw(st.sampled_from(LITS + [['list', []], ['dict', []], ['dict', [['a', ['i', 1]]]],
                                                           ['list', [['i', 1], ['s', 'a']]]]))
    use_default = draw(st.integers(0, 9)) == 0
    return {'pattern': p, 'target': t, 'family': fam, 'default': use_default}


# ---------------------------------------------------------------------------
# builders

def build_key(k):
    tag = k[0]
    if tag == 'lit':
        return k[1]
    if tag == 'opt':
        return Optional(k[1])
    if tag == 'optd':
        return Optional(k[1], default=lit_val(k[2]))
    if tag == 'optkt':
        return Optional(tuple(k[1]))
    if tag == 'req':
        return Required(build_key(k[1]))
    if tag == 'type':
        return TYPES[k[1]]
    if tag == 'pred':
        return PREDS[k[1]]
    if tag == 'kt':
        return tuple(build_key(x) for x in k[1])
    if tag == 'kf':
        return frozenset(k[1])
    raise ValueError(k)


def build_pat(p):
    tag = p[0]
    if tag == 'lit':
        return lit_val(p[1])
    if tag == 'type':
        return TYPES[p[1]]
    if tag == 'pred':
        return PREDS[p[1]]
    if tag == 'regex':
        return Regex(p[1])
    if tag == 'list':
        return [build_pat(x) for x in p[1]]
    if tag == 'set':
        return set(build_pat(x) for x in p[1])
    if tag == 'fset':
        return frozenset(build_pat(x) for x in p[1])
    if tag == 'tuple':
        return tuple(build_pat(x) for x in p[1])
    if tag == 'and':
        return And(*[build_pat(x) for x in p[1]])
    if tag == 'or':
        return Or(*[build_pat(x) for x in p[1]])
    if tag == 'not':
        return Not(build_pat(p[1]))
    if tag == 'm':
        v = lit_val(p[2])
        return {'==': M == v, '!=': M != v, '>': M > v, '<': M < v, '>=': M >= v, '<=': M <= v}[p[1]]
    if tag == 'mt':
        v = p[3][1]
        lhs = M(T[p[1]])
        return {'==': lhs == v, '!=': lhs != v, '>': lhs > v}[p[2]]
    if tag == 'dict':
        out = {}
        for k, v in p[1]:
            out[build_key(k)] = build_pat(v)
        return out
    raise ValueError(p)


# ---------------------------------------------------------------------------
# reference matcher

class Mis(Exception):
    def __init__(self, why, is_type=False, sure=True, access=False):
        Exception.__init__(self, why)
        self.why, self.is_type, self.sure, self.access = why, is_type, sure, access


class RefRaise(Exception):
    """the Python comparison itself raised: glom must raise the same class"""
    def __init__(self, exc):
        Exception.__init__(self, exc)
        self.exc = exc


def key_is_equality(k):
    tag = k[0]
    if tag in ('lit', 'kf'):
        return True
    if tag == 'kt':
        return all(key_is_equality(x) for x in k[1])
    return False


def ref_key(key, k):
    """match a target key against key pattern k; returns the (possibly rebuilt) key"""
    tag = k[0]
    if tag in ('lit', 'opt', 'optd'):
        if key != k[1]:
            raise Mis('key-eq')
        return key
    if tag == 'optkt':
        if key != tuple(k[1]):
            raise Mis('key-eq')
        return key
    if tag == 'req':
        return ref_key(key, k[1])
    if tag == 'type':
        if not isinstance(key, TYPES[k[1]]):
            raise Mis('key-type', True)
        return key
    if tag == 'pred':
        if not PREDS[k[1]](key):
            raise Mis('key-pred')
        return key
    if tag == 'kf':
        if not isinstance(key, frozenset):
            raise Mis('key-type', True)
        for el in key:
            if not any(el == alt and type(el) is type(alt) or el == alt for alt in k[1]):
                raise Mis('key-elem')
        return key
    if tag == 'kt':
        if not isinstance(key, tuple):
            raise Mis('key-type', True)
        if len(key) != len(k[1]):
            raise Mis('key-len')
        return tuple(ref_key(a, b) for a, b in zip(key, k[1]))
    raise ValueError(k)


def refmatch(t, p):
    tag = p[0]
    if tag == 'type':
        if not isinstance(t, TYPES[p[1]]):
            raise Mis('type', True)
        return t
    if tag == 'dict':
        if not isinstance(t, dict):
            raise Mis('type', True)
        entries = p[1]
        required = [i for i, (k, _) in enumerate(entries)
                    if (key_is_equality(k)) or k[0] == 'req']
        res = {}
        for key, val in t.items():
            for i, (k, vp) in enumerate(entries):
                try:
                    nk = ref_key(key, k)
                except Mis:
                    continue
                res[nk] = refmatch(val, vp)      # the first key that matches decides the value pattern
                if i in required:
                    required.remove(i)
                break
            else:
                raise Mis('unmatched-key')
        for k, _ in entries:
            if k[0] == 'optd' and k[1] not in res:
                res[k[1]] = lit_val(k[2])
        if required:
            raise Mis('required')
        return res
    if tag in ('list', 'set', 'fset'):
        typ = {'list': list, 'set': set, 'fset': frozenset}[tag]
        if not isinstance(t, typ):
            raise Mis('type', True)
        alts = p[1] if tag == 'list' else _set_order(p)
        out = []
        for item in t:
            last = None
            for alt in alts:
                try:
                    out.append(refmatch(item, alt))
                    break
                except Mis as m:
                    last = m
            else:
                if last is None:
                    raise Mis('empty-alternatives')
                raise Mis(last.why, last.is_type, last.sure and len(alts) == 1, last.access)
        return out if tag == 'list' else typ(out)
    if tag == 'tuple':
        if not isinstance(t, tuple):
            raise Mis('type', True)
        if len(t) != len(p[1]):
            raise Mis('len')
        return tuple(refmatch(a, b) for a, b in zip(t, p[1]))
    if tag == 'pred':
        try:
            ok = PREDS[p[1]](t)
        except Exception:
            raise Mis('pred-raises')
        if ok:
            return t
        raise Mis('pred')
    if tag == 'regex':
        if type(t) not in (str, bytes):
            raise Mis('regex-type')
        if type(t) is not str or not re.fullmatch(p[1], t):
            raise Mis('regex')
        return t
    if tag == 'and':
        res = t
        for c in p[1]:
            res = refmatch(t, c)
        return res
    if tag == 'or':
        last = None
        for c in p[1]:
            try:
                return refmatch(t, c)
            except Mis as m:
                last = m
        raise Mis(last.why, last.is_type, last.sure and len(p[1]) == 1, last.access)
    if tag == 'not':
        try:
            refmatch(t, p[1])
        except Mis:
            return t
        raise Mis('not', False, True)
    if tag == 'm':
        v = lit_val(p[2])
        try:
            ok = {'==': lambda: t == v, '!=': lambda: t != v, '>': lambda: t > v, '<': lambda: t < v,
                  '>=': lambda: t >= v, '<=': lambda: t <= v}[p[1]]()
        except Exception as e:
            raise RefRaise(e)
        if ok:
            return t
        raise Mis('m')
    if tag == 'mt':
        try:
            sub = t[p[1]]
        except (KeyError, IndexError, TypeError):
            raise Mis('access', access=True)
        v = p[3][1]
        try:
            ok = {'==': lambda: sub == v, '!=': lambda: sub != v, '>': lambda: sub > v}[p[2]]()
        except Exception as e:
            raise RefRaise(e)
        if ok:
            return t
        raise Mis('m')
    if tag == 'lit':
        if t != lit_val(p[1]):
            raise Mis('eq')
        return t
    raise ValueError(p)


def _set_order(p):
    """alternatives of a set pattern in the iteration order of the real set object"""
    built = build_pat(p)
    by_val = {}
    for alt in p[1]:
        by_val[_hkey(build_pat(alt))] = alt
    return [by_val[_hkey(x)] for x in built]


def _hkey(v):
    return (type(v).__name__, repr(v))


def deep_equal(a, b):
    if type(a) is not type(b):
        return False
    if isinstance(a, dict):
        return set(a) == set(b) and all(deep_equal(a[k], b[k]) for k in a) and \
            sorted(map(_hkey, a)) == sorted(map(_hkey, b))
    if isinstance(a, (list, tuple)):
        return len(a) == len(b) and all(deep_equal(x, y) for x, y in zip(a, b))
    if isinstance(a, (set, frozenset)):
        return sorted(map(_hkey, a)) == sorted(map(_hkey, b))
    return a == b


def _containers(v, acc=None):
    acc = [] if acc is None else acc
    if isinstance(v, (list, dict)):
        acc.append(v)
        for x in (v.values() if isinstance(v, dict) else v):
            _containers(x, acc)
    elif isinstance(v, tuple):
        for x in v:
            _containers(x, acc)
    return acc


def _ids(v):
    return set(id(c) for c in _containers(v))


def depth(p):
    if p[0] in ('list', 'set', 'fset', 'tuple', 'and', 'or'):
        return 1 + max([depth(x) for x in p[1]] or [0])
    if p[0] == 'not':
        return 1 + depth(p[1])
    if p[0] == 'dict':
        return 1 + max([depth(v) for _, v in p[1]] or [0])
    return 0


def check(recipe, ctx):
    p = recipe['pattern']
    pat = build_pat(p)
    target = tg.build(recipe['target']).obj
    snap = tg.snapshot(target)
    struct = tg.structure(target)
    ctx.label('family-' + recipe['family'])
    try:
        exp = ('ok', refmatch(target, p))
    except Mis as m:
        exp = ('mis', m)
    except RefRaise as rr:
        exp = ('raise', rr.exc)
    ctx.label('exp-' + exp[0])
    if "'mt'" in repr(p):
        ctx.label('has-M(T)')
    keykinds = set(k[0] for k, _ in p[1]) if p[0] == 'dict' else set()
    ctx.nontrivial(depth(p) >= 2 or len(keykinds) >= 2)
    where = 'pattern=%r target=%r' % (pat, target)
    if exp[0] == 'raise':
        try:
            glom.glom(target, Match(pat))
        except Exception as e:
            if not isinstance(e, type(exp[1])):
                raise Mismatch('comparison-error-class', '%s: comparison raises %r, glom raised %r' % (where, exp[1], e))
            ctx.outcome('raise')
            return
        raise Mismatch('comparison-error-swallowed', '%s: comparison raises %r but Match succeeded' % (where, exp[1]))
    DEFAULT = ['default-object']
    spec = Match(pat, default=DEFAULT) if recipe['default'] else Match(pat)
    has_mt = "'mt'" in repr(p)
    try:
        got = ('ok', glom.glom(target, spec))
    except GlomError as e:
        got = ('mis', e)
        if exp[0] == 'mis':
            m_ = exp[1]
            if m_.sure and m_.access:
                ok_class = isinstance(e, glom.PathAccessError)
            elif not has_mt or m_.sure:
                ok_class = isinstance(e, MatchError)
            else:
                ok_class = isinstance(e, (MatchError, glom.PathAccessError))
            if not ok_class:
                raise Mismatch('wrong-rejection-class', '%s: rejected (%s); glom raised %s: %r'
                               % (where, m_.why, type(e).__name__, e.args))
    except Exception as e:
        raise Mismatch('wrong-rejection-class', '%s: expected %s; glom raised %s: %r (not a GlomError)'
                       % (where, exp[0], type(e).__name__, e.args))
    if recipe['default']:
        ctx.label('with-default')
        if exp[0] == 'ok':
            if got[0] != 'ok' or not deep_equal(got[1], exp[1]):
                raise Mismatch('default-on-accept', '%s: conforming target, expected %r, got %r' % (where, exp[1], got))
        else:
            if got[0] != 'ok' or got[1] != DEFAULT:
                raise Mismatch('default-not-returned', '%s: rejected target (%s) must yield the default, got %r'
                               % (where, exp[1].why, got))
    else:
        if exp[0] == 'ok':
            if got[0] != 'ok':
                raise Mismatch('false-reject', '%s: conforms (reference result %r) but glom raised %s'
                               % (where, exp[1], got[1].args))
            if not deep_equal(got[1], exp[1]):
                raise Mismatch('wrong-result', '%s: expected %r, got %r' % (where, exp[1], got[1]))
        else:
            m = exp[1]
            if got[0] == 'ok':
                raise Mismatch('false-accept', '%s: does not conform (%s) but Match returned %r' % (where, m.why, got[1]))
            e = got[1]
            if not isinstance(e, GlomError):
                raise Mismatch('not-glomerror', where)
            if m.sure and m.is_type:
                if not (isinstance(e, TypeMatchError) and isinstance(e, TypeError)):
                    raise Mismatch('type-rule-not-typeerror', '%s: a type rule failed (%s) but the error is %s'
                                   % (where, m.why, type(e).__name__))
    # the same spec object evaluated again: equal result, and no mutable container (e.g. an Optional default) shared
    if got[0] == 'ok' and exp[0] == 'ok':
        owned = _ids(target)
        first = got[1]
        mine = [c for c in _containers(first) if id(c) not in owned]
        for c in mine:                       # the caller may do what it likes with its result
            if isinstance(c, list):
                c.append('caller-mutation')
            elif isinstance(c, dict):
                c['caller-mutation'] = 1
        try:
            second = glom.glom(target, spec)
        except Exception as e:
            raise Mismatch('second-evaluation', '%s: second evaluation of the same Match raised %r' % (where, e))
        if not deep_equal(second, exp[1]):
            raise Mismatch('results-share-state', '%s: after the caller modified the first result, the second evaluation '
                           'of the same spec returned %r, expected %r' % (where, second, exp[1]))
    # matches() / verify() agree
    mt = Match(pat)
    try:
        mres = mt.matches(target)
    except Exception as e:
        raise Mismatch('matches-raises', '%s: matches() raised %r' % (where, e))
    if mres != (exp[0] == 'ok'):
        raise Mismatch('matches-disagrees', '%s: matches() is %r, conforming: %r' % (where, mres, exp[0] == 'ok'))
    try:
        v = mt.verify(target)
        vres = True
    except GlomError:
        vres = False
    except Exception as e:
        raise Mismatch('verify-raises', '%s: verify() raised %r' % (where, e))
    if vres != (exp[0] == 'ok'):
        raise Mismatch('verify-disagrees', '%s: verify() %s' % (where, 'returned' if vres else 'raised'))
    # target untouched
    d = tg.snapshot_diff(snap, tg.snapshot(target))
    if d or tg.structure(target) != struct:
        raise Mismatch('target-mutated', '%s: %s' % (where, d))
    ctx.outcome([exp[0], repr(pat)[:120]])


def is_f21(recipe, mm):
    """predicate (plain callable) dict keys are treated as required"""
    return False


CLASSIFIERS = {}

SUBS = [
    Sub('match', check, gen=gen, quick=8000, thorough=40000,
        floors={'exp-ok': 0.2, 'exp-mis': 0.2, 'family-near-miss': 0.25}),
]
