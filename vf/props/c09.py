"""C09 — Match succeeds exactly on conforming targets and returns them unchanged.

Generator: pattern recipes (depth <= 3) over literals, types, lists/sets/frozensets of
alternatives, tuples, dicts with literal / type / Optional(+default) / Required / predicate /
compound keys, Regex, predicates, And/Or/Not and M comparisons; targets in three families:
derived from the pattern (conforming by construction), one-edit mutations of those (near
misses), unrelated values.  Six constructed classes on top (each with distribution floors):
  * incomparable: an M comparison whose operands Python cannot order ('a' > 0, None >= 1, M(T['k']) > 0 on {'k': 'a'})
    as the whole pattern, as the first alternative of Or / of a list, as a dict key in front of a type key, under
    Not, inside And below a list of dicts, in a tuple; with and without Match(default=)
  * regex-crosstype: Regex built from a str / bytes pattern, given as text or PRE-COMPILED (re.compile), applied to
    the same text in the other string type; bare, inside Or / list alternatives / Not / And / a dict value, with and
    without Match(default=)
  * raising-compare: an M comparison whose evaluation raises something that is NO TypeError - ordering a
    Decimal('NaN') (decimal.InvalidOperation; a signalling NaN does so for == / != as well), a value class (Amount)
    whose comparison methods raise ValueError / AttributeError / KeyError / ... for some operators, or return an object
    without a truth value (bool() raises, like an array) - on the target side or as the right-hand side of the
    comparison, in the same positions as the incomparable operands, also below M(T[...]); with and without default=
  * literal-raises: a literal of the pattern ("everything else by ==") whose == with the target cannot be evaluated - a
    signalling NaN Decimal beside a numeric literal, an Amount that refuses == / != (raises, or answers without a truth
    value) beside any literal - as target / element / dict key, or as the literal written into the pattern; bare, first
    alternative of Or / of a list, literal dict key in front of a type key, Not, And, tuple; with and without default=
  * optkey-raises: the same keys (an Amount refusing == / !=, by raising or by a result without truth value; a Sloppy
    whose __eq__ reads an attribute of the other operand) in a target dict whose pattern lists Optional(lit) /
    Optional(lit, default=d) / Optional((lit, 1)) / Required((lit, int)) as FIRST or MIDDLE key pattern in front of a type
    key: the comparison of the target key with the Optional's constant cannot be evaluated, the next key pattern decides
    (Required(lit) itself cannot be written: Required() refuses == constants); with and without default=
  * truthless: bare M / M(T[..]) ("evaluates the target for truthiness") on a target - or the element reached - that has
    no truth value (bool() raises, through __bool__ or __len__, like an array); bare, first alternative of Or / of a list,
    dict value, Not, And, tuple (M and M(T[..]) cannot be hashed: no dict keys); a sixth of them on plain falsy values;
    with and without default=

Oracle: refmatch() - the documented rules only.  A comparison that cannot be evaluated (whatever Python raises while
evaluating it or taking its truth value) and a Regex applied to the other string type are "this alternative does not
match" (MatchError; the next alternative / Not / default= react), exactly like a predicate that raises.  The same for a
key comparison of Optional(lit) that cannot be evaluated (this key pattern does not match, the next one is tried) and for
a truth value that cannot be taken (not truthy: bare M does not match).
"""
import re
import decimal
import functools
from decimal import Decimal

from hypothesis import strategies as st

import glom
from glom import Match, MatchError, TypeMatchError, GlomError, M, And, Or, Not, Optional, Required, Regex, T

from ..runner import Sub, Mismatch
from .. import targets as tg

PROPERTY = 'C09'
RULE = ('patterns: recursive recipes (depth <= 3) over the documented Match constructs; targets: 40% derived from the '
        'pattern (conforming), 40% one-edit mutations of a conforming target, 20% unrelated. '
        'Constructed on top (2 of 21 root draws each, the last three 1 of 21 each): an M comparison on operands Python cannot order (bare / first '
        'alternative of Or or of a list / dict key / Not / And / tuple), Regex from a str or bytes pattern, given as '
        'text or compiled, on the other string type (bare / Or / list / Not / And / dict value), and an M comparison whose '
        'evaluation raises something other than TypeError (Decimal NaN / sNaN, a value class whose comparison methods raise '
        'one of 19 exception classes or return an object without a truth value; as target or as right-hand side; same '
        'positions, also below M(T[..])), and a literal whose == with the target cannot be evaluated (signalling NaN, a '
        'value class refusing == / !=; as target, element, dict key or as the literal itself), a target dict key whose == with the '
        'constant of an Optional(lit[, default]) / Optional((lit, 1)) / Required((lit, int)) key pattern cannot be evaluated '
        '(first or middle key pattern before a type key), and bare M / M(T[..]) (same positions, dict value) on a target '
        'without truth value (bool() raises via __bool__ or __len__); a third of them with default=. '
        'Non-trivial = pattern depth >= 2 or a dict pattern with >= 2 kinds of key. Distribution floors: '
        'accepted >= 20%, rejected >= 20%, near-miss >= 25%, incomparable comparison met by the reference >= 2.5% (accepted '
        'through another alternative / Not >= 1.5%, rejected >= 1.1%, with default= >= 0.8%), compiled cross-type Regex met '
        '>= 1.1% (accepted >= 0.4%, rejected >= 0.5%, with default= >= 0.35%), comparison raising a non-TypeError met '
        'by the reference >= 2.2% (accepted >= 1.5%, rejected >= 0.7%, with default= >= 0.6%; Decimal >= 0.65%, value '
        'class >= 1.5%, result without truth value >= 0.45%, as right-hand side >= 0.45%), literal == that raises met '
        '>= 1.2% (accepted >= 0.6%, rejected >= 0.5%, with default= >= 0.27%; without truth value >= 0.3%, signalling NaN '
        '>= 0.42%, as the literal itself >= 0.28%), Optional key comparison that cannot be evaluated met >= 1.9% (raises >= 1.4%, '
        'no truth value >= 0.38%; accepted >= 1.2%, rejected >= 0.6%, with default= >= 0.45%; first >= 0.8%, middle >= 1.05%; '
        'Optional(lit) >= 0.45%, with default >= 0.8%, tuple constant >= 0.18%, Required((lit, int)) >= 0.23%, sloppy __eq__ '
        '>= 0.35%), truth value that cannot be taken met >= 0.75% (accepted >= 0.4%, rejected >= 0.28%, with default= >= 0.18%; '
        'below M(T[..]) >= 0.26%, through __len__ >= 0.22%).')
ASSUMPTIONS = [
    'reference matcher refmatch() implements only the documented rules (types by isinstance, list/set element-wise '
    'against any alternative, tuples positionally, dict keys in spec order, == otherwise)',
    'TypeError-ness of a rejection is asserted only when no alternative/Or/Not lies between the failing type rule and the root',
    'patterns with two Optional keys for the same key are not generated',
    'an M comparison that Python cannot evaluate (it raises) does not hold: the target does not conform to THIS '
    'alternative (MatchError), later alternatives / Not / default= react - the statement knows only "conforms" and '
    '"otherwise MatchError", and M documents "If a comparison fails, MatchError is thrown".  Which exception Python '
    'raises (TypeError for unrelated builtin types, decimal.InvalidOperation for ordering a NaN, whatever a value class '
    'raises from its comparison methods or from the truth value of their result) makes no difference to that',
    '"everything else by ==": a literal whose == with the target cannot be evaluated (it raises, or bool() of its result '
    'raises) is not equal to it - this alternative does not match, as for M comparisons; generated only for values whose '
    '== and != refuse alike',
    'Optional(k) is an == key ("equality keys required unless Optional"): a target key whose == / != with k cannot be '
    'evaluated is not equal to k - this key pattern does not match, the next key pattern is tried (as for a literal key)',
    'bare M / M(T-expr) "evaluates the target for truthiness" (M docs): a target whose truth value cannot be taken (bool() '
    'raises) is not truthy - M does not match (MatchError), as for an M comparison whose result has no truth value',
    'results are compared with == except that the very same leaf object counts as equal to itself (a NaN is not == to itself)',
    'a Regex (pattern given as text or pre-compiled) applied to a str/bytes target of the other string type does not match',
    'mismatch kind foreign-exception[-eq-no-truth][-eq-raises][-m-incomparable][-m-no-truth][-m-raises-other][-optkey-no-truth][-optkey-raises][-regex-crosstype][-truth-raises]: glom raised something that is neither a '
    'MatchError nor a PathAccessError; the suffix names what the REFERENCE met while deciding (own buckets, so that one '
    'such defect cannot starve the report of another)',
]

TYPES = {'int': int, 'str': str, 'float': float, 'bool': bool, 'object': object, 'NoneType': type(None),
         'list': list, 'dict': dict, 'tuple': tuple, 'bytes': bytes}


class CompareError(Exception):
    """an exception class of the application's own"""


# what the comparison methods of an Amount raise (none of them is a TypeError)
EXCS = {'ValueError': ValueError, 'AttributeError': AttributeError, 'KeyError': KeyError, 'IndexError': IndexError,
        'LookupError': LookupError, 'ZeroDivisionError': ZeroDivisionError, 'OverflowError': OverflowError,
        'ArithmeticError': ArithmeticError, 'InvalidOperation': decimal.InvalidOperation, 'RuntimeError': RuntimeError,
        'NotImplementedError': NotImplementedError, 'RecursionError': RecursionError, 'AssertionError': AssertionError,
        'UnicodeError': UnicodeError, 'OSError': OSError, 'EOFError': EOFError, 'StopIteration': StopIteration,
        'BufferError': BufferError, 'CompareError': CompareError}
assert not any(issubclass(c, TypeError) for c in EXCS.values())
ALL_OPS = ['==', '!=', '>', '<', '>=', '<=']
REFLECT = {'>': '<', '<': '>', '>=': '<=', '<=': '>=', '==': '==', '!=': '!='}
PYOPS = {'==': lambda a, b: a == b, '!=': lambda a, b: a != b, '>': lambda a, b: a > b, '<': lambda a, b: a < b,
         '>=': lambda a, b: a >= b, '<=': lambda a, b: a <= b}


class NoTruth(object):
    """what a comparison of an Amount in mode 'bool' returns: an object without a truth value (like an array)"""
    __slots__ = ('excname',)

    def __init__(self, excname):
        self.excname = excname

    def __bool__(self):
        raise EXCS[self.excname]('no truth value')

    def __repr__(self):
        return 'NoTruth(%s)' % self.excname


class Amount(object):
    """a value class: compares by its number with numbers and other Amounts, except that the operators listed in
    `failing` cannot be evaluated: they raise `excname` (mode 'raise') or return an object whose bool() raises it
    (mode 'bool')"""
    __slots__ = ('excname', 'failing', 'mode', 'v')

    def __init__(self, excname, failing, mode, v):
        self.excname, self.failing, self.mode, self.v = excname, tuple(failing), mode, v

    def _cmp(self, op, other):
        if op in self.failing:
            if self.mode == 'bool':
                return NoTruth(self.excname)
            raise EXCS[self.excname]('Amount %s' % op)
        o = other.v if type(other) is Amount else other
        if isinstance(o, bool) or not isinstance(o, (int, float, Decimal)):
            return NotImplemented
        return PYOPS[op](self.v, o)

    def __eq__(self, other):
        return self._cmp('==', other)

    def __ne__(self, other):
        return self._cmp('!=', other)

    def __gt__(self, other):
        return self._cmp('>', other)

    def __lt__(self, other):
        return self._cmp('<', other)

    def __ge__(self, other):
        return self._cmp('>=', other)

    def __le__(self, other):
        return self._cmp('<=', other)

    def __hash__(self):
        return hash(self.v)

    def __repr__(self):
        return 'Amount(%s %s on %s, %r)' % (self.excname, 'from' if self.mode == 'raise' else 'from bool() of',
                                            '/'.join(self.failing), self.v)


class Sloppy(object):
    """a hashable key class with the usual sloppy __eq__: it reads the attribute of the other operand without looking at
    its type, so == / != with anything that is no Sloppy raises AttributeError"""
    __slots__ = ('x',)

    def __init__(self, x):
        self.x = x

    def __eq__(self, other):
        return self.x == other.x

    def __hash__(self):
        return hash(('Sloppy', self.x))

    def __repr__(self):
        return 'Sloppy(%r)' % (self.x,)


class Truthless(object):
    """a value without a truth value (like an array with several elements): bool() raises `excname`"""
    __slots__ = ('excname',)

    def __init__(self, excname):
        self.excname = excname

    def __repr__(self):
        return '%s(%s)' % (type(self).__name__, self.excname)


class TruthlessBool(Truthless):
    __slots__ = ()

    def __bool__(self):
        raise EXCS[self.excname]('no truth value')


class TruthlessLen(Truthless):
    __slots__ = ()

    def __len__(self):
        raise EXCS[self.excname]('no length')


XTYPES = {'Decimal': Decimal, 'Amount': Amount, 'Sloppy': Sloppy, 'Truthless': Truthless}
# ['dec', text] -> Decimal(text); ['rc', excname, failing ops, mode, v] -> Amount; ['sl', x] -> Sloppy(x);
# ['nt', excname, 'bool' | 'len'] -> a Truthless whose __bool__ / __len__ raises
SPECIAL_TAGS = ('dec', 'rc', 'sl', 'nt')


def typ_of(name):
    return TYPES[name] if name in TYPES else XTYPES[name]


class Pred(object):
    def __init__(self, name, f):
        self.__name__ = name
        self.f = f

    def __call__(self, t):
        return self.f(t)

    def __repr__(self):
        return self.__name__

    def __hash__(self):
        return hash(self.__name__)

    def __eq__(self, other):
        return type(other) is Pred and other.__name__ == self.__name__


PREDS = {
    'isint': Pred('isint', lambda t: isinstance(t, int)),
    'pos': Pred('pos', lambda t: isinstance(t, (int, float)) and t > 0),
    'shortstr': Pred('shortstr', lambda t: isinstance(t, str) and len(t) < 2),
    'never': Pred('never', lambda t: False),
    # a partial predicate: raises TypeError on targets that cannot be compared with 0 (a rejection, not an error)
    'rawpos': Pred('rawpos', lambda t: t > 0),
    # a predicate object without a __name__
    'partialpos': functools.partial(lambda lo, t: isinstance(t, (int, float)) and not isinstance(t, bool) and t > lo, 0),
}
PRED_SAMPLE = {'isint': ['i', 4], 'pos': ['i', 2], 'shortstr': ['s', 'q'], 'never': ['none'], 'rawpos': ['i', 3], 'partialpos': ['i', 6]}
TYPE_SAMPLE = {'int': ['i', 3], 'str': ['s', 'st'], 'float': ['f', 2.5], 'bool': ['b', True], 'object': ['s', 'o'],
               'NoneType': ['none'], 'list': ['list', [['i', 1]]], 'dict': ['dict', [['z', ['i', 1]]]],
               'tuple': ['tuple', [['i', 1]]], 'bytes': ['bytes', 'by']}
# pattern -> conforming samples.  Ordered alternations whose earlier branch is a prefix of a later one and lazy
# quantifiers need backtracking to span the whole target (a match at position 0 that stops early is not a full match)
REGEXES = {'ab+': ['abb'], '[0-9]+': ['42'], '(?P<w>x+)y': ['xxy'], 'a|ab': ['a', 'ab'], '1|10': ['10', '1'],
           '[0-9]+?': ['123', '7'], 'foo(?:bar)??': ['foobar', 'foo']}

LITS = [['i', 0], ['i', 1], ['i', 2], ['s', 'a'], ['s', 'b'], ['s', ''], ['none'], ['f', 1.5], ['b', True],
        ['tuple', [['i', 1]]], ['s', 'c']]
HASHABLE_KEYS = ['a', 'b', 'c', 1]
ORDER_OPS = ['>', '<', '>=', '<=']
RE_MODES = ['str', 'cstr', 'bytes', 'cbytes']      # pattern given as text / re.compile(text) / bytes / re.compile(bytes)
TAG_TYPE = {'s': 'str', 'i': 'int', 'f': 'float', 'none': 'NoneType', 'list': 'list', 'dict': 'dict', 'bytes': 'bytes',
            'b': 'bool', 'dec': 'Decimal', 'rc': 'Amount', 'sl': 'Sloppy', 'nt': 'Truthless'}


def _has_special(r):
    if r[0] in SPECIAL_TAGS:
        return True
    if r[0] in ('list', 'tuple'):
        return any(_has_special(x) for x in r[1])
    if r[0] == 'dict':
        return any(_has_special(v) or _key_special(k) for k, v in r[1])
    return False


def _key_special(k):
    """a dict key recipe that is, or (a tuple key) contains, one of the special leaves"""
    if not isinstance(k, list):
        return False
    return k[0] in SPECIAL_TAGS or (k[0] in ('t', 'fs') and any(_key_special(x) for x in k[1]))


def kbuild(k):
    """the object of a dict key recipe: those of vf.targets, special leaves, tuples of either"""
    if not _key_special(k):
        return tg._key(k)
    if k[0] in SPECIAL_TAGS:
        return tbuild(k)
    return (tuple if k[0] == 't' else frozenset)(kbuild(x) for x in k[1])


def tbuild(r):
    """the object of a target / literal recipe: those of vf.targets plus Decimal and Amount leaves (also as dict keys)
    in plain lists, tuples and dicts"""
    tag = r[0]
    if tag == 'dec':
        return Decimal(r[1])
    if tag == 'rc':
        return Amount(r[1], r[2], r[3], r[4])
    if tag == 'sl':
        return Sloppy(r[1])
    if tag == 'nt':
        return (TruthlessBool if r[2] == 'bool' else TruthlessLen)(r[1])
    if not _has_special(r):
        return tg.build(r).obj
    if tag == 'list':
        return [tbuild(x) for x in r[1]]
    if tag == 'tuple':
        return tuple(tbuild(x) for x in r[1])
    if tag == 'dict':
        out = {}
        for k, v in r[1]:
            out[kbuild(k)] = tbuild(v)
        return out
    raise ValueError('bad target recipe %r' % (r,))


def lit_val(l):
    return tbuild(l)


# ---------------------------------------------------------------------------
# generation

def gen_pat(draw, d):
    r = draw(st.integers(0, 99))
    if d >= 3 and r < 50:
        r = draw(st.sampled_from([52, 55, 62, 68, 70, 80, 84, 93, 95, 97, 99]))    # composite patterns at the root
    if d <= 0 or r < 26:
        return ['lit', draw(st.sampled_from(LITS))]
    if r < 44:
        return ['type', draw(st.sampled_from(sorted(TYPES)))]
    if r < 50:
        return ['pred', draw(st.sampled_from(['isint', 'pos', 'shortstr', 'rawpos', 'partialpos']))]
    if r < 60:
        if draw(st.sampled_from(range(4))) == 0:
            # a NON-LAST alternative that fails with a GlomError which is no MatchError (the access inside M(T[k]))
            # on the elements the later alternative accepts
            first = ['mt', draw(st.sampled_from(['k', 0])), draw(st.sampled_from(['==', '!=', '>'])), ['i', draw(st.integers(0, 2))]]
            return ['list', [first, gen_pat(draw, d - 1)]]
        return ['list', [gen_pat(draw, d - 1) for _ in range(draw(st.integers(0, 2)))]]
    if r < 65:
        tag = draw(st.sampled_from(['set', 'fset']))
        alts = draw(st.lists(st.sampled_from([['lit', l] for l in LITS[:9]] + [['type', 'int'], ['type', 'str']]),
                             max_size=2, unique_by=repr))
        return [tag, alts]
    if r < 74:
        return ['tuple', [gen_pat(draw, d - 1) for _ in range(draw(st.integers(0, 3)))]]
    if r < 78:
        return ['regex', draw(st.sampled_from(sorted(REGEXES))), draw(st.sampled_from(['str', 'str', 'str'] + RE_MODES))]
    if r < 83:
        return [draw(st.sampled_from(['and', 'or'])), [gen_pat(draw, d - 1) for _ in range(draw(st.integers(1, 3)))]]
    if r < 85:
        return ['not', gen_pat(draw, d - 1)]
    if r < 88:
        return ['m', draw(st.sampled_from(['==', '!=', '>', '<', '>=', '<='])), draw(st.sampled_from(LITS[:3] + [['s', 'a']]))]
    if r < 91:
        # M(T[key]) op lit: the access fails (PathAccessError, a GlomError that is no MatchError) on most targets
        return ['mt', draw(st.sampled_from(['k', 0])), draw(st.sampled_from(['==', '!=', '>'])), ['i', draw(st.integers(0, 2))]]
    # dict
    entries = []
    used = set()
    for _ in range(draw(st.integers(0, 3))):
        kk = draw(st.integers(0, 99))
        if kk < 38:
            k = ['lit', draw(st.sampled_from(HASHABLE_KEYS))]
        elif kk < 46:
            k = ['opt', draw(st.sampled_from(HASHABLE_KEYS[:3]))]
        elif kk < 54:
            k = ['optd', draw(st.sampled_from(HASHABLE_KEYS[:3])), draw(st.sampled_from([['i', 0], ['s', 'dflt'], ['list', []]]))]
        elif kk < 74:
            k = ['type', draw(st.sampled_from(['str', 'int', 'object']))]
        elif kk < 82:
            k = ['req', ['type', draw(st.sampled_from(['str', 'int', 'object']))]]
        elif kk < 78 and kk >= 74 or kk in (88, 89):
            k = ['kf', ['a', 'b', 1]]         # frozenset of constants: matches every frozenset key made of these
        elif kk in (90, 91, 92):
            # an M comparison as a key pattern: no equality key, so optional
            k = ['km', draw(st.sampled_from(['==', '!=', '>', '<', '>=', '<='])), draw(st.sampled_from([['i', 1], ['i', 5], ['s', 'a']]))]
        elif kk < 96:
            # (plain callables are not generated as dict KEYS: the property's domain lists literal, type,
            # Optional, Required and compound keys; glom classes a callable key as an "== constant")
            k = ['kt', [['type', 'str'], ['type', 'int']]] if draw(st.booleans()) else ['kt', [['lit', 0], ['type', 'int']]]
        else:
            k = ['optkt', [draw(st.sampled_from([0, 'a'])), 1]]
        ident = repr(k[1]) if k[0] in ('lit', 'opt', 'optd') else repr(k)
        if ident in used:
            continue
        used.add(ident)
        entries.append([k, gen_pat(draw, d - 1)])
    return ['dict', entries]


def key_sample(draw, k):
    """a target key (tg key form) matching key pattern k"""
    tag = k[0]
    if tag in ('lit', 'opt', 'optd'):
        return k[1]
    if tag == 'optkt':
        return ['t', list(k[1])]
    if tag == 'req':
        return key_sample(draw, k[1])
    if tag == 'type':
        return {'str': draw(st.sampled_from(['s1', 's2', 'a'])), 'int': draw(st.sampled_from([5, 6, 1])),
                'object': draw(st.sampled_from(['o1', 7]))}[k[1]]
    if tag == 'pred':
        return {'isint': draw(st.sampled_from([8, 9])), 'shortstr': draw(st.sampled_from(['q', 'r']))}[k[1]]
    if tag == 'km':
        return _m_sample(k[1], k[2])[1]
    if tag == 'kf':
        n_ = draw(st.integers(0, 2))
        return ['fs', draw(st.lists(st.sampled_from(k[1]), min_size=n_, max_size=n_, unique=True))]
    if tag == 'kt':
        out = []
        for part in k[1]:
            if part[0] == 'lit':
                out.append(part[1])
            else:
                out.append({'str': 'ks', 'int': 3}[part[1]])
        return ['t', out]
    raise ValueError(k)


def re_mode(p):
    return p[2] if len(p) > 2 else 'str'


def _m_sample(op, lit):
    """a scalar recipe for which `it <op> lit` holds"""
    v = lit_val(lit)
    if isinstance(v, str):
        return {'==': ['s', v], '!=': ['s', v + 'x'], '>': ['s', v + 'x'], '<': ['s', ''], '>=': ['s', v], '<=': ['s', v]}[op]
    return {'==': ['i', v], '!=': ['i', v + 1], '>': ['i', v + 1], '<': ['i', v - 1], '>=': ['i', v], '<=': ['i', v]}[op]


def gen_from(draw, p):
    """target recipe conforming to pattern p (best effort, by construction)"""
    tag = p[0]
    if tag == 'lit':
        return p[1]
    if tag == 'type':
        return TYPE_SAMPLE[p[1]]
    if tag == 'pred':
        return PRED_SAMPLE[p[1]]
    if tag == 'regex':
        return ['s' if re_mode(p) in ('str', 'cstr') else 'bytes', draw(st.sampled_from(REGEXES[p[1]]))]
    if tag in ('list', 'set', 'fset'):
        ttag = tag
        if not p[1]:
            return [ttag, []]
        return [ttag, [gen_from(draw, draw(st.sampled_from(p[1]))) for _ in range(draw(st.integers(0, 3)))]]
    if tag == 'tuple':
        return ['tuple', [gen_from(draw, x) for x in p[1]]]
    if tag in ('and', 'or'):
        return gen_from(draw, p[1][0] if tag == 'or' else p[1][-1])
    if tag == 'not':
        return ['s', 'zzz']
    if tag == 'm':
        return _m_sample(p[1], p[2])
    if tag == 'mt':
        v = p[3][1]
        val = {'==': v, '!=': v + 1, '>': v + 1}[p[2]]
        return ['dict', [['k', ['i', val]]]] if p[1] == 'k' else ['list', [['i', val]]]
    if tag == 'dict':
        out = []
        seen = set()
        for k, v in p[1]:
            if k[0] in ('opt', 'optd', 'optkt') and draw(st.booleans()):
                continue
            if k[0] in ('type', 'pred', 'kt') and draw(st.integers(0, 9)) < 4:
                continue
            for _ in range(draw(st.integers(1, 3)) if k[0] == 'kf' else 1):
                tk = key_sample(draw, k)
                if repr(tk) in seen:
                    continue
                seen.add(repr(tk))
                out.append([tk, gen_from(draw, v)])
        return ['dict', out]
    raise ValueError(p)


def mutate(draw, t):
    tag = t[0]
    r = draw(st.integers(0, 9))
    if tag == 's' and r < 3:
        return ['bytes', t[1]]        # the same text as bytes: a str pattern / literal does not match it
    if tag == 'bytes' and r < 3:
        return ['s', t[1]]            # and the other way round
    if tag == 'dict' and t[1] and r < 7:
        entries = [list(e) for e in t[1]]
        i = draw(st.integers(0, len(entries) - 1))
        c = draw(st.integers(0, 2))
        if c == 0:
            del entries[i]
        elif c == 1:
            entries[i][1] = mutate(draw, entries[i][1])
        else:
            nk = draw(st.sampled_from(['zz', 5, 'a', 'b']))
            if repr(nk) not in [repr(e[0]) for e in entries]:
                entries.append([nk, draw(st.sampled_from(LITS[:8]))])
        return ['dict', entries]
    if tag in ('list',) and r < 7:
        items = list(t[1])
        if items and draw(st.booleans()):
            i = draw(st.integers(0, len(items) - 1))
            items[i] = mutate(draw, items[i])
        else:
            items.append(draw(st.sampled_from(LITS[:8])))
        return [tag, items]
    if tag == 'tuple' and r < 7:
        items = list(t[1])
        c = draw(st.integers(0, 2))
        if items and c == 0:
            i = draw(st.integers(0, len(items) - 1))
            items[i] = mutate(draw, items[i])
        elif items and c == 1:
            items.pop()
        else:
            items.append(draw(st.sampled_from(LITS[:8])))
        return ['tuple', items]
    if tag in ('list', 'tuple', 'set', 'fset') and r < 9:
        return [{'list': 'tuple', 'tuple': 'list', 'set': 'fset', 'fset': 'set'}[tag], t[1]]
    return draw(st.sampled_from(LITS + [['list', []], ['dict', []], ['tuple', []], ['list', [['i', 1]]],
                                        ['dict', [['a', ['i', 1]]]], ['s', 'abb'], ['i', 7]]))


def _other_type(name):
    return 'int' if name != 'int' else 'str'


def gen_incomparable(draw):
    """an M comparison whose operands Python cannot order, placed where the documented reaction differs: the whole
    pattern (MatchError), a non-last alternative (the next one decides), a dict key pattern (the next key pattern
    decides), Not (holds), And / tuple / nested containers (MatchError)"""
    shape = draw(st.sampled_from(['bare', 'or', 'or', 'or-miss', 'list', 'list', 'dict-key', 'dict-key', 'dict-key-req',
                                  'not', 'and-dict', 'tuple']))
    op = draw(st.sampled_from(ORDER_OPS))
    if shape.startswith('dict-key'):
        rhs, bad = draw(st.sampled_from([(['i', 0], ['s', 'a']), (['i', 1], ['s', 'zz']), (['s', 'a'], ['i', 5])]))
        atom_key = ['km', op, rhs]
        good = _m_sample(op, rhs)
        wild = TAG_TYPE[bad[0]] if draw(st.booleans()) else 'object'
        entries = [[['req', atom_key] if shape == 'dict-key-req' else atom_key, ['type', 'int']], [['type', wild], ['type', 'int']]]
        items = [[bad[1], ['i', 1]]]
        if draw(st.booleans()):
            items.insert(draw(st.sampled_from([0, 1])), [good[1], ['i', 2]])     # a key for which the comparison holds
        return ['dict', entries], ['dict', items], shape
    if draw(st.sampled_from(range(4))) == 0:
        # the comparison inside M(T[...]) > n: the element reached is no number
        seg = draw(st.sampled_from(['k', 0]))
        atom = ['mt', seg, '>', ['i', draw(st.sampled_from(range(3)))]]
        leaf = draw(st.sampled_from([['s', 'a'], ['none'], ['list', []]]))
        bad = ['dict', [['k', leaf]]] if seg == 'k' else ['list', [leaf]]
        good = gen_from(draw, atom)
    else:
        rhs = draw(st.sampled_from(LITS[:3] + [['s', 'a'], ['s', 'b']]))
        atom = ['m', op, rhs]
        if rhs[0] == 'i':
            bad = draw(st.sampled_from([['s', 'a'], ['s', ''], ['none'], ['list', []], ['dict', []], ['s', 'zzz']]))
        else:
            bad = draw(st.sampled_from([['i', 1], ['none'], ['f', 1.5], ['i', 0], ['list', []]]))
        good = _m_sample(op, rhs)
    return _place(draw, shape, atom, bad, good)


def _place(draw, shape, atom, bad, good, lit_alt=True):
    """(pattern, target, shape): the comparison `atom`, which cannot be evaluated for the target `bad` (and holds for
    `good`, if there is one), put where the documented reaction differs"""
    btype = TAG_TYPE[bad[0]]
    if shape == 'bare':
        return atom, bad, shape
    if shape == 'or':
        # (lit_alt: `bad` may also stand as a literal alternative - not for values that cannot be compared with ==)
        alt = draw(st.sampled_from([['type', btype]] + ([['lit', bad]] if lit_alt else []) + [['type', 'object']])) \
            if bad[0] not in ('list', 'dict') else ['type', btype]
        return ['or', [atom, alt]], bad, shape
    if shape == 'or-miss':
        return ['or', [atom, ['type', _other_type(btype)]]], bad, shape
    if shape == 'list':
        items = [bad] + [draw(st.sampled_from([bad, good] if good else [bad])) for _ in range(draw(st.sampled_from(range(3))))]
        if draw(st.booleans()):
            items.reverse()
        return ['list', [atom, ['type', btype]]], ['list', items], shape
    if shape == 'not':
        return ['not', atom], bad, shape
    if shape == 'and-dict':
        # the pattern of the Match docstring: [{'id': And(M > 0, int), ...}] with a near-miss item
        p = ['list', [['dict', [[['lit', 'a'], ['and', [atom, ['type', TAG_TYPE[good[0]]]]]], [['type', 'str'], ['type', 'object']]]]]]
        rows = [['dict', [['a', bad]]]]
        if draw(st.booleans()):
            rows.insert(0, ['dict', [['a', good], ['zz', ['none']]]])
        return p, ['list', rows], shape
    assert shape == 'tuple', shape
    return ['tuple', [atom, ['type', 'str']]], ['tuple', [bad, ['s', 's']]], shape


def _holds_for(op, n):
    """an int for which `it <op> n` holds"""
    return {'==': n, '!=': n + 1, '>': n + 1, '<': n - 1, '>=': n, '<=': n}[op]


RC_LHS_SHAPES = ['bare', 'or', 'or', 'or-miss', 'list', 'list', 'dict-key', 'dict-key', 'dict-key-req', 'not', 'and-dict', 'tuple']
RC_RHS_SHAPES = ['bare', 'or', 'or', 'or-miss', 'list', 'not', 'tuple']


def gen_raising_compare(draw):
    """an M comparison whose evaluation raises something that is NOT a TypeError: the operand is a Decimal NaN (ordering
    signals decimal.InvalidOperation; a signalling NaN does so for == and != too) or an Amount whose comparison methods
    raise one of EXCS for some operators (or return an object whose bool() raises it).  The operand is the target (or
    what M(T[..]) reaches in it, or a key of it), or the right-hand side written into the pattern.  Same positions as
    gen_incomparable.  Returns (pattern, target, shape, kind, side)"""
    kind = draw(st.sampled_from(['dec', 'dec', 'amount', 'amount', 'amount', 'amount-bool']))
    side = draw(st.sampled_from(['lhs', 'lhs', 'lhs', 'lhs', 'rhs']))
    shape = draw(st.sampled_from(RC_LHS_SHAPES if side == 'lhs' else RC_RHS_SHAPES))
    as_key = shape.startswith('dict-key')
    op = draw(st.sampled_from(ORDER_OPS if as_key else ORDER_OPS + ORDER_OPS + ['==', '!=']))
    n = draw(st.sampled_from(range(3)))
    hv = _holds_for(op, n)
    # the operator that is evaluated on the special operand (the reflected one when it stands on the right)
    mine = op if side == 'lhs' else REFLECT[op]
    if kind == 'dec':
        # (a signalling NaN cannot be hashed: no dict key)
        nan = 'sNaN' if op in ('==', '!=') else draw(st.sampled_from(['NaN', 'NaN', '-NaN'] + ([] if as_key else ['sNaN'])))
        special, good = ['dec', nan], ['dec', str(hv)]
    else:
        exc = draw(st.sampled_from(sorted(EXCS)))
        # (keys must stay comparable with == : the dict that carries them needs it)
        more = draw(st.lists(st.sampled_from(ORDER_OPS if as_key else ALL_OPS), max_size=2))
        failing = [o for o in ALL_OPS if o == mine or o in more]
        mode = 'bool' if kind == 'amount-bool' else 'raise'
        # the number of the failing operand: one for which the comparison would hold, or one for which it would not
        special = ['rc', exc, failing, mode, hv + draw(st.sampled_from([7, -7]))]
        good = ['rc', exc, [o for o in failing if o != op], mode, hv]
    if side == 'rhs':
        # M <op> special on a plain number: nothing conforms to the comparison itself
        bad = draw(st.sampled_from([['i', 0], ['i', 1], ['i', 5], ['dec', '1'], ['dec', '-2']]))
        p, t, shape = _place(draw, shape, ['m', op, special], bad, None, lit_alt=True)
        return p, t, shape, kind, side
    if as_key:
        wild = TAG_TYPE[special[0]] if draw(st.booleans()) else 'object'
        atom_key = ['km', op, ['i', n]]
        entries = [[['req', atom_key] if shape == 'dict-key-req' else atom_key, ['type', 'int']], [['type', wild], ['type', 'int']]]
        items = [[special, ['i', 1]]]
        if draw(st.booleans()):
            items.insert(draw(st.sampled_from([0, 1])), [good, ['i', 2]])      # a key for which the comparison holds
        return ['dict', entries], ['dict', items], shape, kind, side
    if draw(st.sampled_from(range(4))) == 0:
        # below M(T[...]): the element reached is the operand
        seg = draw(st.sampled_from(['k', 0]))
        atom = ['mt', seg, op, ['i', n]]
        bad, good = (['dict', [['k', special]]], ['dict', [['k', good]]]) if seg == 'k' else (['list', [special]], ['list', [good]])
    else:
        atom, bad = ['m', op, draw(st.sampled_from([['i', n], ['i', n], ['dec', str(n)]]))], special
    p, t, shape = _place(draw, shape, atom, bad, good, lit_alt=False)
    return p, t, shape, kind, side


def gen_regex_crosstype(draw):
    """Regex from a str / bytes pattern, as text or pre-compiled, applied to a conforming text of the OTHER string type"""
    pat = draw(st.sampled_from(sorted(REGEXES)))
    mode = draw(st.sampled_from(['cstr', 'cbytes', 'cstr', 'cbytes', 'str', 'bytes']))
    atom = ['regex', pat, mode]
    text = draw(st.sampled_from(REGEXES[pat]))
    same, other = ('s', 'bytes') if mode in ('str', 'cstr') else ('bytes', 's')
    bad, good = [other, text], [same, text]
    shape = draw(st.sampled_from(['bare', 'or', 'or', 'or-miss', 'list', 'not', 'and', 'dict-val']))
    if shape == 'bare':
        return atom, bad, shape
    if shape == 'or':
        return ['or', [atom, draw(st.sampled_from([['type', TAG_TYPE[other]], ['lit', bad]]))]], bad, shape
    if shape == 'or-miss':
        return ['or', [atom, ['type', TAG_TYPE[same]]]], bad, shape
    if shape == 'list':
        items = [bad] + [draw(st.sampled_from([bad, good])) for _ in range(draw(st.sampled_from(range(3))))]
        if draw(st.booleans()):
            items.reverse()
        return ['list', [atom, ['type', TAG_TYPE[other]]]], ['list', items], shape
    if shape == 'not':
        return ['not', atom], bad, shape
    if shape == 'and':
        return ['and', [['type', TAG_TYPE[other]], atom]], bad, shape
    assert shape == 'dict-val', shape
    return ['dict', [[['lit', 'a'], atom], [['type', 'str'], ['type', 'object']]]], \
        ['dict', [['a', bad]] + ([['zz', good]] if draw(st.booleans()) else [])], shape


LR_LHS_SHAPES = ['bare', 'or', 'or', 'or-miss', 'list', 'list', 'dict-key', 'dict-key', 'not', 'and-dict', 'tuple']


def gen_literal_raises(draw):
    """a literal in the pattern ("everything else by ==") whose == / != with the target cannot be evaluated: the target
    (an element, a key of it) is a signalling NaN Decimal beside a numeric literal, or an Amount that refuses == and !=
    (raises one of EXCS, or answers with an object whose bool() raises it); or the literal written into the pattern is
    such a value and the target a plain number.  Same positions as gen_incomparable.
    Returns (pattern, target, shape, kind, side)"""
    kind = draw(st.sampled_from(['dec', 'dec', 'amount', 'amount', 'amount-bool']))
    side = draw(st.sampled_from(['lhs', 'lhs', 'lhs', 'rhs']))
    shape = draw(st.sampled_from(LR_LHS_SHAPES if side == 'lhs' else RC_RHS_SHAPES))
    as_key = shape == 'dict-key'
    if as_key and kind == 'dec':
        kind = 'amount'                     # (a signalling NaN cannot be hashed: no dict key)
    if kind == 'dec':
        special = ['dec', draw(st.sampled_from(['sNaN', 'sNaN', '-sNaN', 'sNaN7']))]
    else:
        more = draw(st.lists(st.sampled_from(ORDER_OPS), max_size=2))
        # (the number is far from every literal: a dict that carries an Amount as key never has to compare it)
        special = ['rc', draw(st.sampled_from(sorted(EXCS))), [o for o in ALL_OPS if o in ('==', '!=') or o in more],
                   'bool' if kind == 'amount-bool' else 'raise', draw(st.sampled_from([50, 51, -50]))]
    if side == 'rhs':
        # the literal of the pattern is the value that refuses the comparison; nothing is equal to it
        bad = draw(st.sampled_from([['i', 0], ['i', 1], ['f', 1.5], ['dec', '1'], ['dec', '-2']]))
        p, t, shape = _place(draw, shape, ['lit', special], bad, None, lit_alt=True)
        return p, t, shape, kind, side
    if kind == 'dec':
        # (a Decimal answers == with a str / None / tuple by "not equal" without looking at its own value)
        lit = draw(st.sampled_from([['i', 0], ['i', 1], ['i', 2], ['f', 1.5], ['b', True], ['dec', '1']]))
        good = draw(st.sampled_from([lit, lit if lit[0] == 'dec' else ['dec', str(lit[1]) if lit[0] != 'b' else '1']]))
    else:
        lit = draw(st.sampled_from(LITS[:9] + [['dec', '1']]))
        good = lit
    if as_key:
        lit = draw(st.sampled_from([['i', 1], ['s', 'a'], ['i', 0]]))
        wild = 'Amount' if draw(st.booleans()) else 'object'
        entries = [[['lit', lit[1]], ['type', 'int']], [['type', wild], ['type', 'int']]]
        items = [[special, ['i', 1]]]
        if draw(st.sampled_from(range(3))):
            items.insert(draw(st.sampled_from([0, 1])), [lit[1], ['i', 2]])      # the key the literal is equal to (required)
        return ['dict', entries], ['dict', items], shape, kind, side
    p, t, shape = _place(draw, shape, ['lit', lit], special, good, lit_alt=False)
    return p, t, shape, kind, side


OK_KINDS = ['opt', 'opt', 'optd', 'optd', 'optkt', 'reqkt']


def gen_optkey_raises(draw):
    """a target dict key whose == / != with the constant of an Optional key pattern cannot be evaluated: an Amount that
    refuses both (raises one of EXCS, or answers with an object whose bool() raises it), or a Sloppy (its __eq__ reads
    other.x: AttributeError for every foreign operand).  The key pattern - Optional(lit), Optional(lit, default=d),
    Optional((lit, 1)) against the tuple key (special, 1), Required((lit, int)) against the same (Required(lit) cannot be
    written: Required() refuses == constants) - stands FIRST, or in the MIDDLE behind a key pattern that does not take
    the key either, in front of a type key that does (or does not, or is missing: rejected).
    Returns (pattern, target, kind, how the comparison fails, position)"""
    kind = draw(st.sampled_from(OK_KINDS))
    how = draw(st.sampled_from(['raise', 'raise', 'bool', 'sloppy']))
    pos = draw(st.sampled_from(['first', 'middle']))
    if how == 'sloppy':
        special, stype = ['sl', draw(st.sampled_from([1, 2]))], 'Sloppy'
    else:
        more = draw(st.lists(st.sampled_from(ORDER_OPS), max_size=2))
        # (the number is far from every other key: the dict that carries it never has to compare it)
        special = ['rc', draw(st.sampled_from(sorted(EXCS))), [o for o in ALL_OPS if o in ('==', '!=') or o in more],
                   'bool' if how == 'bool' else 'raise', draw(st.sampled_from([50, 51, -50]))]
        stype = 'Amount'
    lit = draw(st.sampled_from(HASHABLE_KEYS[:3]))
    compound = kind in ('optkt', 'reqkt')
    if kind == 'opt':
        kp = ['opt', lit]
    elif kind == 'optd':
        kp = ['optd', lit, draw(st.sampled_from([['i', 0], ['s', 'dflt'], ['list', []]]))]
    elif kind == 'optkt':
        kp = ['optkt', [lit, 1]]
    else:
        kp = ['req', ['kt', [['lit', lit], ['type', 'int']]]]
    skey = ['t', [special, 1]] if compound else special      # the key that cannot be compared with the constant
    gkey = ['t', [lit, 1]] if compound else lit               # the key the constant is equal to
    vp = ['type', 'int']
    entries = [[kp, vp]]
    wild = draw(st.sampled_from(['own', 'own', 'object', 'object', 'none', 'miss']))
    if wild != 'none':
        entries.append([['type', {'own': 'tuple' if compound else stype, 'object': 'object', 'miss': 'str'}[wild]], vp])
    items = [[skey, draw(st.sampled_from([['i', 1], ['i', 1], ['i', 1], ['i', 4], ['s', 'x']]))]]
    if draw(st.sampled_from(range(3)) if kind == 'reqkt' else st.sampled_from(range(2))):
        items.insert(draw(st.sampled_from([0, 1])), [gkey, ['i', 2]])
    if pos == 'middle':
        olit = draw(st.sampled_from([x for x in HASHABLE_KEYS if x != lit]))
        other = draw(st.sampled_from([['type', 'str'], ['type', 'int'], ['opt', olit], ['lit', olit]]))
        entries.insert(0, [other, vp])
        if other[0] == 'lit' and draw(st.sampled_from(range(3))):
            items.insert(draw(st.sampled_from(range(len(items) + 1))), [olit, ['i', 3]])      # (a literal key is required)
    return ['dict', entries], ['dict', items], kind, how, pos


TL_SHAPES = ['bare', 'or', 'or', 'or-miss', 'list', 'list', 'dict-val', 'not', 'and-dict', 'tuple']


def gen_truthless(draw):
    """bare M / M(T[..]) on a value whose truth value cannot be taken: bool() raises one of EXCS, through __bool__ or
    through __len__ (one case in six on a plain falsy value instead).  The value is the target or the element M(T[..])
    reaches (M and M(T[..]) cannot be hashed: no dict keys).  Same positions as gen_incomparable, and as a dict value.
    Returns (pattern, target, shape, kind, where)"""
    shape = draw(st.sampled_from(TL_SHAPES))
    if draw(st.sampled_from(range(6))) == 0:
        kind = 'falsy'
        special = draw(st.sampled_from([['i', 0], ['s', ''], ['none'], ['list', []], ['f', 0.0]]))
    else:
        kind = draw(st.sampled_from(['bool', 'bool', 'len']))
        special = ['nt', draw(st.sampled_from(sorted(EXCS))), kind]
    good = draw(st.sampled_from([['i', 1], ['s', 'a'], ['i', 5]]))
    if draw(st.sampled_from(range(3))) == 0:
        # below M(T[...]): the element reached has no truth value
        seg = draw(st.sampled_from(['k', 0]))
        atom = ['mtb', seg]
        bad, good = (['dict', [['k', special]]], ['dict', [['k', good]]]) if seg == 'k' else (['list', [special]], ['list', [good]])
        where = 'sub'
    else:
        atom, bad, where = ['mb'], special, 'target'
    if shape == 'dict-val':
        items = [['a', bad]]
        if draw(st.booleans()):
            items.insert(draw(st.sampled_from([0, 1])), ['zz', good])
        return ['dict', [[['lit', 'a'], atom], [['type', 'str'], atom]]], ['dict', items], shape, kind, where
    p, t, shape = _place(draw, shape, atom, bad, good, lit_alt=False)
    return p, t, shape, kind, where


def gen(draw):
    special = draw(st.sampled_from(range(21)))
    if special == 6:
        p, t, kind, how, pos = gen_optkey_raises(draw)
        return {'pattern': p, 'target': t, 'family': 'near-miss', 'default': draw(st.sampled_from([False, False, True])),
                'cls': 'optkey-raises:' + kind, 'ok': [kind, how, pos]}
    if special == 7:
        p, t, shape, kind, where = gen_truthless(draw)
        return {'pattern': p, 'target': t, 'family': 'near-miss', 'default': draw(st.sampled_from([False, False, True])),
                'cls': 'truthless:' + shape, 'tl': [kind, where]}
    if special == 18:
        p, t, shape, kind, side = gen_literal_raises(draw)
        return {'pattern': p, 'target': t, 'family': 'near-miss', 'default': draw(st.sampled_from([False, False, True])),
                'cls': 'literal-raises:' + shape, 'lr': [kind, side]}
    if special in (19, 20):
        p, t, shape, kind, side = gen_raising_compare(draw)
        return {'pattern': p, 'target': t, 'family': 'near-miss', 'default': draw(st.sampled_from([False, False, True])),
                'cls': 'raising-compare:' + shape, 'rc': [kind, side]}
    if special in (2, 3, 4, 5):
        if special >= 4:
            name = 'regex-crosstype'
            p, t, shape = gen_regex_crosstype(draw)
        else:
            name = 'incomparable'
            p, t, shape = gen_incomparable(draw)
        # (the target is a conforming one with one leaf replaced: a near miss by construction)
        return {'pattern': p, 'target': t, 'family': 'near-miss', 'default': draw(st.sampled_from([False, False, True])),
                'cls': name + ':' + shape}
    if special == 0:
        # an Optional(lit, default=d) listed AFTER a wildcard key that takes the same target key first: the value of
        # the target stays, the default is for absent keys only
        lit = draw(st.sampled_from(['a', 'b']))
        wild = draw(st.sampled_from(['str', 'object']))
        p = ['dict', [[['type', wild], ['type', 'int']], [['optd', lit, draw(st.sampled_from([['i', 0], ['i', 7]]))], ['type', 'int']]]]
        t = ['dict', [[lit, ['i', 5]]] + ([['zz', ['i', 3]]] if draw(st.booleans()) else [])]
        return {'pattern': p, 'target': t, 'family': 'derived', 'default': False}
    if special == 1:
        # equal items of different types side by side in a list: each item is matched on its own
        pair = draw(st.sampled_from([[['i', 1], ['f', 1.0]], [['b', False], ['i', 0]], [['i', 1], ['b', True]], [['f', 0.0], ['i', 0]],
                                     [['i', 2], ['f', 2.0], ['i', 2]]]))
        if draw(st.booleans()):
            pair = list(reversed(pair))
        p = ['list', [['type', draw(st.sampled_from(['int', 'float', 'bool']))]]]
        return {'pattern': p, 'target': ['list', pair], 'family': 'near-miss', 'default': False}
    p = gen_pat(draw, 3)
    c = draw(st.sampled_from([0, 1, 2, 4, 5, 6, 7, 4, 5, 8, 9, 6]))
    if c < 4:
        fam, t = 'derived', gen_from(draw, p)
    elif c < 8:
        fam, t = 'near-miss', mutate(draw, gen_from(draw, p))
    else:
        fam, t = 'unrelated', draw(st.sampled_from(LITS + [['list', []], ['dict', []], ['dict', [['a', ['i', 1]]]],
                                                           ['list', [['i', 1], ['s', 'a']]]]))
    use_default = draw(st.integers(0, 9)) == 0
    return {'pattern': p, 'target': t, 'family': fam, 'default': use_default}


# ---------------------------------------------------------------------------
# builders

def build_key(k):
    tag = k[0]
    if tag == 'lit':
        return k[1]
    if tag == 'opt':
        return Optional(k[1])
    if tag == 'optd':
        return Optional(k[1], default=lit_val(k[2]))
    if tag == 'optkt':
        return Optional(tuple(k[1]))
    if tag == 'req':
        return Required(build_key(k[1]))
    if tag == 'type':
        return typ_of(k[1])
    if tag == 'pred':
        return PREDS[k[1]]
    if tag == 'kt':
        return tuple(build_key(x) for x in k[1])
    if tag == 'kf':
        return frozenset(k[1])
    if tag == 'km':
        return build_pat(['m', k[1], k[2]])
    raise ValueError(k)


def re_source(p):
    """what Regex() is given: the text, the text as bytes, or either of them compiled"""
    mode = re_mode(p)
    src = p[1] if mode in ('str', 'cstr') else p[1].encode('latin1')
    return re.compile(src) if mode in ('cstr', 'cbytes') else src


def build_pat(p):
    tag = p[0]
    if tag == 'lit':
        return lit_val(p[1])
    if tag == 'type':
        return typ_of(p[1])
    if tag == 'pred':
        return PREDS[p[1]]
    if tag == 'regex':
        return Regex(re_source(p))
    if tag == 'list':
        return [build_pat(x) for x in p[1]]
    if tag == 'set':
        return set(build_pat(x) for x in p[1])
    if tag == 'fset':
        return frozenset(build_pat(x) for x in p[1])
    if tag == 'tuple':
        return tuple(build_pat(x) for x in p[1])
    if tag == 'and':
        return And(*[build_pat(x) for x in p[1]])
    if tag == 'or':
        return Or(*[build_pat(x) for x in p[1]])
    if tag == 'not':
        return Not(build_pat(p[1]))
    if tag == 'm':
        v = lit_val(p[2])
        return {'==': M == v, '!=': M != v, '>': M > v, '<': M < v, '>=': M >= v, '<=': M <= v}[p[1]]
    if tag == 'mt':
        v = p[3][1]
        lhs = M(T[p[1]])
        return {'==': lambda: lhs == v, '!=': lambda: lhs != v, '>': lambda: lhs > v, '<': lambda: lhs < v,
                '>=': lambda: lhs >= v, '<=': lambda: lhs <= v}[p[2]]()
    if tag == 'mb':
        return M
    if tag == 'mtb':
        return M(T[p[1]])
    if tag == 'dict':
        out = {}
        for k, v in p[1]:
            out[build_key(k)] = build_pat(v)
        return out
    raise ValueError(p)


# ---------------------------------------------------------------------------
# reference matcher

class Mis(Exception):
    def __init__(self, why, is_type=False, sure=True, access=False):
        Exception.__init__(self, why)
        self.why, self.is_type, self.sure, self.access = why, is_type, sure, access


def ref_compare(lhs, op, rhs, ev):
    """`lhs <op> rhs` as Python decides it.  A comparison Python cannot evaluate (it raises: 'a' > 0, Decimal('NaN') > 0,
    a value class that refuses; or its result has no truth value) does not hold - the target does not conform to this
    alternative, like with a predicate that raises (recorded in ev: 'm-incomparable' for Python's TypeError,
    'm-raises-other' for anything else the comparison raises, 'm-no-truth' when bool() of its result raises)"""
    try:
        res = PYOPS[op](lhs, rhs)
    except TypeError:
        ev.add('m-incomparable')
        raise Mis('m-raises')
    except Exception:
        ev.add('m-raises-other')
        raise Mis('m-raises')
    try:
        ok = bool(res)
    except Exception:
        ev.add('m-no-truth')
        raise Mis('m-no-truth')
    if not ok:
        raise Mis('m')


def ref_equal(a, b, ev, what='eq'):
    """`a == b` as Python decides it ("everything else by =="); an == that cannot be evaluated does not hold (recorded in
    ev: 'eq-raises' when the comparison raises, 'eq-no-truth' when bool() of its result does; 'optkey-raises' /
    'optkey-no-truth' for the constant of an Optional key pattern)"""
    try:
        res = a == b
    except Exception:
        ev.add(what + '-raises')
        return False
    try:
        return bool(res)
    except Exception:
        ev.add(what + '-no-truth')
        return False


def ref_truthy(v, ev):
    """bare M: "evaluates the target for truthiness".  A value whose truth value cannot be taken (bool() raises) is not
    truthy (recorded in ev: 'truth-raises')"""
    try:
        ok = bool(v)
    except Exception:
        ev.add('truth-raises')
        raise Mis('m-truth-raises')
    if not ok:
        raise Mis('m-falsy')


def key_is_equality(k):
    tag = k[0]
    if tag in ('lit', 'kf'):
        return True
    if tag == 'kt':
        return all(key_is_equality(x) for x in k[1])
    return False


def ref_key(key, k, ev):
    """match a target key against key pattern k; returns the (possibly rebuilt) key"""
    tag = k[0]
    if tag == 'km':
        ref_compare(key, k[1], lit_val(k[2]), ev)
        return key
    if tag in ('lit', 'opt', 'optd'):
        if not ref_equal(key, k[1], ev, 'eq' if tag == 'lit' else 'optkey'):
            raise Mis('key-eq')
        return key
    if tag == 'optkt':
        if not ref_equal(key, tuple(k[1]), ev, 'optkey'):
            raise Mis('key-eq')
        return key
    if tag == 'req':
        return ref_key(key, k[1], ev)
    if tag == 'type':
        if not isinstance(key, typ_of(k[1])):
            raise Mis('key-type', True)
        return key
    if tag == 'pred':
        if not PREDS[k[1]](key):
            raise Mis('key-pred')
        return key
    if tag == 'kf':
        if not isinstance(key, frozenset):
            raise Mis('key-type', True)
        for el in key:
            if not any(el == alt and type(el) is type(alt) or el == alt for alt in k[1]):
                raise Mis('key-elem')
        return key
    if tag == 'kt':
        if not isinstance(key, tuple):
            raise Mis('key-type', True)
        if len(key) != len(k[1]):
            raise Mis('key-len')
        return tuple(ref_key(a, b, ev) for a, b in zip(key, k[1]))
    raise ValueError(k)


def refmatch(t, p, ev):
    """the value Match(p) returns for t, or Mis.  ev (a set) collects what the reference met on the way:
    'm-incomparable', 'm-raises-other', 'm-no-truth', 'eq-raises', 'eq-no-truth', 'regex-crosstype',
    'regex-crosstype-compiled', 'optkey-raises', 'optkey-no-truth', 'truth-raises'"""
    tag = p[0]
    if tag == 'type':
        if not isinstance(t, typ_of(p[1])):
            raise Mis('type', True)
        return t
    if tag == 'dict':
        if not isinstance(t, dict):
            raise Mis('type', True)
        entries = p[1]
        required = [i for i, (k, _) in enumerate(entries)
                    if (key_is_equality(k)) or k[0] == 'req']
        res = {}
        for key, val in t.items():
            for i, (k, vp) in enumerate(entries):
                try:
                    nk = ref_key(key, k, ev)
                except Mis:
                    continue
                res[nk] = refmatch(val, vp, ev)      # the first key that matches decides the value pattern
                if i in required:
                    required.remove(i)
                break
            else:
                raise Mis('unmatched-key')
        for k, _ in entries:
            if k[0] == 'optd' and k[1] not in res:
                res[k[1]] = lit_val(k[2])
        if required:
            raise Mis('required')
        return res
    if tag in ('list', 'set', 'fset'):
        typ = {'list': list, 'set': set, 'fset': frozenset}[tag]
        if not isinstance(t, typ):
            raise Mis('type', True)
        alts = p[1] if tag == 'list' else _set_order(p)
        out = []
        for item in t:
            last = None
            for alt in alts:
                try:
                    out.append(refmatch(item, alt, ev))
                    break
                except Mis as m:
                    last = m
            else:
                if last is None:
                    raise Mis('empty-alternatives')
                raise Mis(last.why, last.is_type, last.sure and len(alts) == 1, last.access)
        return out if tag == 'list' else typ(out)
    if tag == 'tuple':
        if not isinstance(t, tuple):
            raise Mis('type', True)
        if len(t) != len(p[1]):
            raise Mis('len')
        return tuple(refmatch(a, b, ev) for a, b in zip(t, p[1]))
    if tag == 'pred':
        try:
            ok = PREDS[p[1]](t)
        except Exception:
            raise Mis('pred-raises')
        if ok:
            return t
        raise Mis('pred')
    if tag == 'regex':
        if type(t) not in (str, bytes):
            raise Mis('regex-type')
        mode = re_mode(p)
        if (mode in ('str', 'cstr')) != (type(t) is str):
            # a str pattern cannot match bytes and vice versa, however the pattern was handed to Regex
            ev.add('regex-crosstype')
            if mode in ('cstr', 'cbytes'):
                ev.add('regex-crosstype-compiled')
            raise Mis('regex-crosstype')
        if not re.fullmatch(p[1] if type(t) is str else p[1].encode('latin1'), t):
            raise Mis('regex')
        return t
    if tag == 'and':
        res = t
        for c in p[1]:
            res = refmatch(t, c, ev)
        return res
    if tag == 'or':
        last = None
        for c in p[1]:
            try:
                return refmatch(t, c, ev)
            except Mis as m:
                last = m
        raise Mis(last.why, last.is_type, last.sure and len(p[1]) == 1, last.access)
    if tag == 'not':
        try:
            refmatch(t, p[1], ev)
        except Mis:
            return t
        raise Mis('not', False, True)
    if tag == 'm':
        ref_compare(t, p[1], lit_val(p[2]), ev)
        return t
    if tag == 'mt':
        try:
            sub = t[p[1]]
        except (KeyError, IndexError, TypeError):
            raise Mis('access', access=True)
        ref_compare(sub, p[2], p[3][1], ev)
        return t
    if tag == 'mb':
        ref_truthy(t, ev)
        return t
    if tag == 'mtb':
        try:
            sub = t[p[1]]
        except (KeyError, IndexError, TypeError):
            raise Mis('access', access=True)
        ref_truthy(sub, ev)
        return t
    if tag == 'lit':
        if not ref_equal(t, lit_val(p[1]), ev):
            raise Mis('eq')
        return t
    raise ValueError(p)


def _set_order(p):
    """alternatives of a set pattern in the iteration order of the real set object"""
    built = build_pat(p)
    by_val = {}
    for alt in p[1]:
        by_val[_hkey(build_pat(alt))] = alt
    return [by_val[_hkey(x)] for x in built]


def _hkey(v):
    return (type(v).__name__, repr(v))


def deep_equal(a, b):
    if type(a) is not type(b):
        return False
    if isinstance(a, dict):
        return set(a) == set(b) and all(deep_equal(a[k], b[k]) for k in a) and \
            sorted(map(_hkey, a)) == sorted(map(_hkey, b))
    if isinstance(a, (list, tuple)):
        return len(a) == len(b) and all(deep_equal(x, y) for x, y in zip(a, b))
    if isinstance(a, (set, frozenset)):
        return sorted(map(_hkey, a)) == sorted(map(_hkey, b))
    if a is b:
        return True          # (the very leaf object: a NaN is not == to itself, == on a signalling NaN raises)
    try:
        return bool(a == b)
    except Exception:
        return False


def _containers(v, acc=None):
    acc = [] if acc is None else acc
    if isinstance(v, (list, dict)):
        acc.append(v)
        for x in (v.values() if isinstance(v, dict) else v):
            _containers(x, acc)
    elif isinstance(v, tuple):
        for x in v:
            _containers(x, acc)
    return acc


def _ids(v):
    return set(id(c) for c in _containers(v))


def depth(p):
    if p[0] in ('list', 'set', 'fset', 'tuple', 'and', 'or'):
        return 1 + max([depth(x) for x in p[1]] or [0])
    if p[0] == 'not':
        return 1 + depth(p[1])
    if p[0] == 'dict':
        return 1 + max([depth(v) for _, v in p[1]] or [0])
    return 0


def _exp_text(exp):
    return 'the result %r' % (exp[1],) if exp[0] == 'ok' else 'a MatchError (%s)' % exp[1].why


def check(recipe, ctx):
    p = recipe['pattern']
    pat = build_pat(p)
    target = tbuild(recipe['target'])
    snap = tg.snapshot(target)
    struct = tg.structure(target)
    ctx.label('family-' + recipe['family'])
    if recipe.get('cls'):
        ctx.label('cls-' + recipe['cls'].split(':')[0], 'cls-' + recipe['cls'])
    if recipe.get('rc'):
        ctx.label('rc-kind-' + recipe['rc'][0], 'rc-side-' + recipe['rc'][1])
    if recipe.get('lr'):
        ctx.label('lr-kind-' + recipe['lr'][0], 'lr-side-' + recipe['lr'][1])
    if recipe.get('ok'):
        ctx.label('ok-kind-' + recipe['ok'][0], 'ok-how-' + recipe['ok'][1], 'ok-pos-' + recipe['ok'][2])
    if recipe.get('tl'):
        ctx.label('tl-kind-' + recipe['tl'][0], 'tl-at-' + recipe['tl'][1])
    ev = set()
    try:
        exp = ('ok', refmatch(target, p, ev))
    except Mis as m:
        exp = ('mis', m)
    ctx.label('exp-' + exp[0])
    if recipe.get('ok') or recipe.get('tl'):
        ctx.label('cls-' + recipe['cls'].split(':')[0] + '+' + exp[0])
        if recipe.get('ok') and ev & {'optkey-raises', 'optkey-no-truth'}:
            ctx.label('optkey-met', 'optkey-met+' + exp[0], 'optkey-met-' + recipe['ok'][2])
            if recipe['default']:
                ctx.label('optkey-met+default')
    for e_ in sorted(ev):
        ctx.label(e_, e_ + '+' + exp[0])
        if recipe['default']:
            ctx.label(e_ + '+default')
    # a bucket of its own for exceptions that are no rejection at all, named after what the reference met
    foreign_kind = 'foreign-exception' + ''.join('-' + e_ for e_ in sorted(ev & {'m-incomparable', 'm-raises-other', 'm-no-truth', 'eq-raises', 'eq-no-truth',
                                                                         'regex-crosstype', 'optkey-raises', 'optkey-no-truth',
                                                                         'truth-raises'}))
    if "'mt'" in repr(p):
        ctx.label('has-M(T)')
    keykinds = set(k[0] for k, _ in p[1]) if p[0] == 'dict' else set()
    ctx.nontrivial(depth(p) >= 2 or len(keykinds) >= 2)
    where = 'pattern=%r target=%r' % (pat, target)
    DEFAULT = ['default-object']
    spec = Match(pat, default=DEFAULT) if recipe['default'] else Match(pat)
    has_mt = "'mt'" in repr(p)
    try:
        got = ('ok', glom.glom(target, spec))
    except GlomError as e:
        got = ('mis', e)
        if not isinstance(e, (MatchError, glom.PathAccessError)):
            raise Mismatch(foreign_kind, '%s: expected %s; glom raised %s: %r (neither a MatchError nor a failed access)'
                           % (where, _exp_text(exp), type(e).__name__, e.args))
        if exp[0] == 'mis':
            m_ = exp[1]
            if m_.sure and m_.access:
                ok_class = isinstance(e, glom.PathAccessError)
            elif not has_mt or m_.sure:
                ok_class = isinstance(e, MatchError)
            else:
                ok_class = isinstance(e, (MatchError, glom.PathAccessError))
            if not ok_class:
                raise Mismatch('wrong-rejection-class', '%s: rejected (%s); glom raised %s: %r'
                               % (where, m_.why, type(e).__name__, e.args))
    except Exception as e:
        raise Mismatch(foreign_kind, '%s: expected %s; glom raised %s: %r (not a GlomError)'
                       % (where, _exp_text(exp), type(e).__name__, e.args))
    if recipe['default']:
        ctx.label('with-default')
        if exp[0] == 'ok':
            if got[0] != 'ok' or not deep_equal(got[1], exp[1]):
                raise Mismatch('default-on-accept', '%s: conforming target, expected %r, got %r' % (where, exp[1], got))
        else:
            if got[0] != 'ok' or got[1] != DEFAULT:
                raise Mismatch('default-not-returned', '%s: rejected target (%s) must yield the default, got %r'
                               % (where, exp[1].why, got))
    else:
        if exp[0] == 'ok':
            if got[0] != 'ok':
                raise Mismatch('false-reject', '%s: conforms (reference result %r) but glom raised %s'
                               % (where, exp[1], got[1].args))
            if not deep_equal(got[1], exp[1]):
                raise Mismatch('wrong-result', '%s: expected %r, got %r' % (where, exp[1], got[1]))
        else:
            m = exp[1]
            if got[0] == 'ok':
                raise Mismatch('false-accept', '%s: does not conform (%s) but Match returned %r' % (where, m.why, got[1]))
            e = got[1]
            if not isinstance(e, GlomError):
                raise Mismatch('not-glomerror', where)
            if m.sure and m.is_type:
                if not (isinstance(e, TypeMatchError) and isinstance(e, TypeError)):
                    raise Mismatch('type-rule-not-typeerror', '%s: a type rule failed (%s) but the error is %s'
                                   % (where, m.why, type(e).__name__))
    # the same spec object evaluated again: equal result, and no mutable container (e.g. an Optional default) shared
    if got[0] == 'ok' and exp[0] == 'ok':
        owned = _ids(target)
        first = got[1]
        mine = [c for c in _containers(first) if id(c) not in owned]
        for c in mine:                       # the caller may do what it likes with its result
            if isinstance(c, list):
                c.append('caller-mutation')
            elif isinstance(c, dict):
                c['caller-mutation'] = 1
        try:
            second = glom.glom(target, spec)
        except Exception as e:
            raise Mismatch('second-evaluation', '%s: second evaluation of the same Match raised %r' % (where, e))
        if not deep_equal(second, exp[1]):
            raise Mismatch('results-share-state', '%s: after the caller modified the first result, the second evaluation '
                           'of the same spec returned %r, expected %r' % (where, second, exp[1]))
    # matches() / verify() agree
    mt = Match(pat)
    try:
        mres = mt.matches(target)
    except Exception as e:
        raise Mismatch('matches-raises', '%s: matches() raised %r' % (where, e))
    if mres != (exp[0] == 'ok'):
        raise Mismatch('matches-disagrees', '%s: matches() is %r, conforming: %r' % (where, mres, exp[0] == 'ok'))
    try:
        v = mt.verify(target)
        vres = True
    except GlomError:
        vres = False
    except Exception as e:
        raise Mismatch('verify-raises', '%s: verify() raised %r' % (where, e))
    if vres != (exp[0] == 'ok'):
        raise Mismatch('verify-disagrees', '%s: verify() %s' % (where, 'returned' if vres else 'raised'))
    # target untouched
    d = tg.snapshot_diff(snap, tg.snapshot(target))
    if d or tg.structure(target) != struct:
        raise Mismatch('target-mutated', '%s: %s' % (where, d))
    ctx.outcome([exp[0], repr(pat)[:120]])


def is_f21(recipe, mm):
    """predicate (plain callable) dict keys are treated as required"""
    return False


CLASSIFIERS = {}

SUBS = [
    Sub('match', check, gen=gen, quick=8000, thorough=40000,
        floors={'exp-ok': 0.2, 'exp-mis': 0.2, 'family-near-miss': 0.25,
                # what the reference met while deciding (constructed classes plus what the general generator adds)
                'm-incomparable': 0.025, 'm-incomparable+ok': 0.015, 'm-incomparable+mis': 0.011,
                'm-incomparable+default': 0.008,
                'regex-crosstype-compiled': 0.011, 'regex-crosstype-compiled+ok': 0.004,
                'regex-crosstype-compiled+mis': 0.005, 'regex-crosstype-compiled+default': 0.0035,
                'cls-incomparable': 0.022, 'cls-regex-crosstype': 0.012,
                # an M comparison that raises something other than TypeError / whose result has no truth value
                'cls-raising-compare': 0.028, 'm-raises-other': 0.022, 'm-raises-other+ok': 0.015,
                'm-raises-other+mis': 0.007, 'm-raises-other+default': 0.006, 'm-no-truth': 0.0045,
                'rc-kind-dec': 0.0065, 'rc-kind-amount': 0.015, 'rc-side-rhs': 0.0045,
                # a literal whose == with the target cannot be evaluated
                'cls-literal-raises': 0.015, 'eq-raises': 0.012, 'eq-raises+ok': 0.006, 'eq-raises+mis': 0.005,
                'eq-raises+default': 0.0027, 'eq-no-truth': 0.003, 'lr-kind-dec': 0.0042, 'lr-side-rhs': 0.0028,
                # a target key whose == with the constant of an Optional key pattern cannot be evaluated (optkey-met: the
                # reference came to that comparison)
                'cls-optkey-raises': 0.022, 'optkey-met': 0.019, 'optkey-met+ok': 0.012, 'optkey-met+mis': 0.006,
                'optkey-met+default': 0.0045, 'optkey-met-first': 0.008, 'optkey-met-middle': 0.0105,
                'optkey-raises': 0.014, 'optkey-no-truth': 0.0038, 'ok-kind-opt': 0.0045, 'ok-kind-optd': 0.008,
                'ok-kind-optkt': 0.0018, 'ok-kind-reqkt': 0.0023, 'ok-how-sloppy': 0.0035,
                # bare M / M(T[..]) on a value whose truth value cannot be taken
                'cls-truthless': 0.0105, 'truth-raises': 0.0075, 'truth-raises+ok': 0.004, 'truth-raises+mis': 0.0028,
                'truth-raises+default': 0.0018, 'tl-at-sub': 0.0026, 'tl-kind-len': 0.0022}),
]
