"""C08 — Modes apply exactly to the wrapped spec; Fill and argument mode keep shape.

Sub-checks
  modes   trees of mode wrappers (Auto, Fill, Match, Group) nested to depth <= 3 at every step position of
          tuples and Pipes, as dict values, Coalesce branches, Switch keys and values; mode-sensitive probes
          (the string 'a', the dict {'k': 'a'}) placed before / after / beside them on a self-similar target
          on which the four readings give four different outcomes
  shape   literal containers dict/list/tuple/set/frozenset nested to depth <= 4 with T / Spec / Val leaves,
          strings, numbers and callables, evaluated under Fill and in every argument position (defaults of
          Coalesce / Match / Switch / Check / And / Or, Call args and kwargs, T call arguments, S(k=...),
          Assign value); in argument position also self-referential lists / dicts (direct and mutual cycles,
          shared sub-containers)

Oracle: ev() - the mode of a probe is that of its innermost syntactically enclosing wrapper; shape_ref().
"""
from hypothesis import strategies as st

import glom
from glom import (T, S, Spec, Val, Auto, Fill, Match, Coalesce, Switch, Pipe, Call, Check, And, Or, M, Assign,
                  GlomError, PathAccessError, MatchError, BadSpec)
from glom.grouping import Group

from ..runner import Sub, Mismatch
from .. import targets as tg

PROPERTY = 'C08'
RULE = ('modes: node trees of depth <= 4 over {probe str, probe dict, T, wrapper(Auto|Fill|Match|Group), tuple, Pipe, dict, '
        'Coalesce, Switch}; shape: literal container recipes of depth <= 4 x 13 positions (Fill + 12 argument positions), '
        'cycles only in argument position. Non-trivial = a wrapper followed by a probe at the same chain level, or nested '
        'wrappers of >= 2 different modes, or a cyclic literal.')
ASSUMPTIONS = [
    'per-mode readings: Auto: string = path lookup, tuple = chain, dict = restructuring; Fill: containers rebuilt, strings literal; '
    'Match: == / positional tuple / dict pattern; Group: a bare string or a dict with string keys is a BadSpec',
    'Group wraps probes only; error outcomes are compared by category (PathAccessError / MatchError / BadSpec / other GlomError)',
    'Invoke.constants is literal by contract and Invoke.specs an ordinary spec: neither is an argument position',
]


# ---------------------------------------------------------------------------
# (i) mode discipline

def make_target():
    t2 = {'a': 'leaf', 'k': 'a'}
    t1 = {'a': t2, 'k': 'a'}
    return {'a': t1, 'k': 'a'}


class Err(Exception):
    def __init__(self, cat):
        Exception.__init__(self, cat)
        self.cat = cat


def lookup(t, name):
    if isinstance(t, dict):
        try:
            return t[name]
        except KeyError:
            raise Err('PathAccessError')
    if isinstance(t, (list, tuple)):
        raise Err('PathAccessError')
    try:
        return getattr(t, name)
    except AttributeError:
        raise Err('PathAccessError')


def match_lit(t, lit):
    if t != lit:
        raise Err('MatchError')
    return t


def ev(n, t, mode):
    k = n[0]
    if k == 'T':
        return t
    if k == 'p-str':
        if mode == 'auto':
            return lookup(t, 'a')
        if mode == 'fill':
            return 'a'
        return match_lit(t, 'a')
    if k == 'p-dict':
        if mode == 'auto':
            return {'k': lookup(t, 'a')}
        if mode == 'fill':
            return {'k': 'a'}
        return match_dict({'k': ['p-str']}, t)
    if k == 'starmiss':
        # T.__star__()[T['k']]: a T expression reads the same in every mode; children whose argument T['k'] (or the
        # access itself) fails are dropped -- and whatever was set up to evaluate that argument is gone afterwards
        kids = list(t.values()) if isinstance(t, dict) else list(t) if isinstance(t, (list, tuple)) else []
        out = []
        for c in kids:
            try:
                out.append(c[c['k']])
            except (KeyError, IndexError, TypeError):
                continue
        return out
    if k == 'wrap':
        m = n[1]
        if m == 'group':
            return group_eval(n[2], t)
        return ev(n[2], t, m)
    if k == 'lazychain':
        # Auto(Pipe(WRAP(Iter(probe)), list)): the stream is consumed by the NEXT step, but every item is still read in WRAP's mode
        if isinstance(t, (str, bytes)) or not hasattr(t, '__iter__'):
            raise Err('other')
        return [ev(n[2], item, n[1]) for item in list(t)]
    if k == 'tuple':
        if mode == 'auto':
            cur = t
            for c in n[1]:
                cur = ev(c, cur, mode)
            return cur
        if mode == 'fill':
            return tuple(ev(c, t, mode) for c in n[1])
        if not isinstance(t, tuple) or len(t) != len(n[1]):
            raise Err('MatchError')
        return tuple(ev(c, x, mode) for c, x in zip(n[1], t))
    if k == 'pipe':
        cur = t
        for c in n[1]:
            cur = ev(c, cur, mode)
        return cur
    if k == 'dict':
        if mode == 'auto' or mode == 'fill':
            return dict((key, ev(v, t, mode)) for key, v in n[1])
        return match_dict(dict((key, v) for key, v in n[1]), t)
    if k == 'coalesce':
        for c in n[1]:
            try:
                return ev(c, t, mode)
            except Err:
                continue
        raise Err('other')
    if k == 'switch':
        for key, val in n[1]:
            try:
                ev(key, t, mode)
            except Err:
                continue
            return ev(val, t, mode)
        raise Err('MatchError')
    raise ValueError(n)


def match_dict(pattern, t):
    """dict pattern with literal string keys (all required, no extras)"""
    if not isinstance(t, dict):
        raise Err('MatchError')
    out = {}
    for key, val in t.items():
        if key not in pattern:
            raise Err('MatchError')
        out[key] = ev(pattern[key], val, 'match')
    if set(pattern) - set(out):
        raise Err('MatchError')
    return out


def group_eval(probe, t):
    if isinstance(t, (str, bytes)) or not hasattr(t, '__iter__'):
        raise Err('other')
    items = list(t)
    if not items:
        return {} if probe[0] == 'p-dict' else None
    raise Err('BadSpec')


def gen_node(draw, d, under_group_ok=True):
    S_ = st.sampled_from
    kind = draw(S_(['p-str', 'p-str', 'p-dict', 'T', 'starmiss'] if d <= 0 else
                   ['p-str', 'p-dict', 'wrap', 'wrap', 'wrap', 'tuple', 'tuple', 'pipe', 'dict', 'coalesce', 'switch', 'lazychain', 'starmiss']))
    if kind == 'starmiss':
        return ['starmiss']
    if kind == 'lazychain':
        return ['lazychain', draw(S_(['auto', 'fill', 'match'])), [draw(S_(['p-str', 'p-dict', 'T']))]]
    if kind in ('p-str', 'p-dict', 'T'):
        return [kind]
    if kind == 'wrap':
        m = draw(S_(['auto', 'fill', 'match', 'group']))
        if m == 'group':
            return ['wrap', 'group', [draw(S_(['p-str', 'p-dict']))]]
        return ['wrap', m, gen_node(draw, d - 1)]
    if kind in ('tuple', 'pipe', 'coalesce'):
        return [kind, [gen_node(draw, d - 1) for _ in range(draw(st.integers(1, 3)))]]
    if kind == 'dict':
        keys = draw(st.lists(S_(['x', 'y', 'a', 'k']), min_size=1, max_size=2, unique=True))
        return ['dict', [[key, gen_node(draw, d - 1)] for key in keys]]
    return ['switch', [[gen_node(draw, d - 1), gen_node(draw, d - 1)] for _ in range(draw(st.integers(1, 2)))]]


def gen_modes(draw):
    return {'tree': gen_node(draw, draw(st.sampled_from([2, 3, 3, 4])))}


WRAPPERS = {'auto': Auto, 'fill': Fill, 'match': Match, 'group': Group}


def build(n):
    k = n[0]
    if k == 'T':
        return T
    if k == 'p-str':
        return 'a'
    if k == 'p-dict':
        return {'k': 'a'}
    if k == 'starmiss':
        return T.__star__()[T['k']]
    if k == 'wrap':
        return WRAPPERS[n[1]](build(n[2]))
    if k == 'lazychain':
        from glom import Iter
        return Auto(Pipe(WRAPPERS[n[1]](Iter(build(n[2]))), list))
    if k == 'tuple':
        return tuple(build(c) for c in n[1])
    if k == 'pipe':
        return Pipe(*[build(c) for c in n[1]])
    if k == 'dict':
        return dict((key, build(v)) for key, v in n[1])
    if k == 'coalesce':
        return Coalesce(*[build(c) for c in n[1]])
    if k == 'switch':
        return Switch([(build(a), build(b)) for a, b in n[1]])
    raise ValueError(n)


def category(e):
    if isinstance(e, PathAccessError):
        return 'PathAccessError'
    if isinstance(e, MatchError):
        return 'MatchError'
    if isinstance(e, BadSpec):
        return 'BadSpec'
    return 'other'


def wrapper_modes(n, acc):
    if n[0] == 'lazychain':
        acc.add(n[1])
        return acc
    if n[0] == 'wrap':
        acc.add(n[1])
        wrapper_modes(n[2], acc)
    elif n[0] in ('tuple', 'pipe', 'coalesce'):
        for c in n[1]:
            wrapper_modes(c, acc)
    elif n[0] == 'dict':
        for _, v in n[1]:
            wrapper_modes(v, acc)
    elif n[0] == 'switch':
        for a, b in n[1]:
            wrapper_modes(a, acc)
            wrapper_modes(b, acc)
    return acc


def wrapper_then_probe(n):
    if n[0] in ('tuple', 'pipe'):
        for a, b in zip(n[1], n[1][1:]):
            if a[0] == 'wrap' and b[0] in ('p-str', 'p-dict'):
                return True
    if n[0] == 'switch':
        for a, b in n[1]:
            if a[0] == 'wrap' and b[0] in ('p-str', 'p-dict'):
                return True
    kids = []
    if n[0] == 'lazychain':
        return True
    if n[0] in ('tuple', 'pipe', 'coalesce'):
        kids = n[1]
    elif n[0] == 'dict':
        kids = [v for _, v in n[1]]
    elif n[0] == 'switch':
        kids = [x for pair in n[1] for x in pair]
    elif n[0] == 'wrap':
        kids = [n[2]]
    return any(wrapper_then_probe(c) for c in kids)


def check_modes(recipe, ctx):
    tree = recipe['tree']
    target = make_target()
    snap = tg.snapshot(target)
    try:
        exp = ('ok', ev(tree, target, 'auto'))
    except Err as e:
        exp = ('err', e.cat)
    spec = build(tree)
    modes = wrapper_modes(tree, set())
    wtp = wrapper_then_probe(tree)
    ctx.label('exp-' + exp[0])
    if "'starmiss'" in repr(recipe['tree']):
        ctx.label('star-with-failing-argument')
    if wtp:
        ctx.label('wrapper-then-probe')
    ctx.nontrivial(wtp or len(modes) >= 2)
    where = 'glom(%r, %r)' % (target, spec)
    try:
        got = ('ok', glom.glom(target, spec))
    except GlomError as e:
        got = ('err', category(e))
    except Exception as e:
        got = ('err', 'non-glom:' + type(e).__name__)
    if exp != got and not (exp[0] == 'ok' and got[0] == 'ok' and exp[1] == got[1] and type(exp[1]) is type(got[1])):
        raise Mismatch('mode-discipline', '%s: expected %r, got %r' % (where, exp, got))
    if exp[0] == 'ok' and type(exp[1]) is not type(got[1]):
        raise Mismatch('mode-discipline', '%s: expected a %s, got a %s' % (where, type(exp[1]).__name__, type(got[1]).__name__))
    d = tg.snapshot_diff(snap, tg.snapshot(target))
    if d:
        raise Mismatch('target-mutated', '%s: %s' % (where, d))
    ctx.outcome([repr(spec)[:140], exp if exp[0] == 'err' else repr(exp[1])[:80]])


# ---------------------------------------------------------------------------
# (ii) shape preservation in Fill mode and in argument position

def upper(t):
    return 'called-with-%s' % type(t).__name__


def gen_lit(draw, d, cyc_ok, depth_idx=0):
    S_ = st.sampled_from
    if d <= 0 or draw(st.integers(0, 9)) < 3:
        k = draw(S_(['T', 'T', 'Spec', 'Val', 's', 'i', 'fn', 'none', 'Tpath']))
        if k == 's':
            return ['s', draw(S_(['a', 'x', 'a.b', '']))]
        if k == 'i':
            return ['i', draw(st.integers(0, 5))]
        if k == 'Val':
            return ['Val', draw(S_([['s', 'v'], ['list', [['i', 1]]], ['i', 7]]))]
        return [k]
    kind = draw(S_(['dict', 'list', 'list', 'tuple', 'set', 'fset']))
    n = draw(st.integers(0, 3))
    if kind == 'dict':
        keys = draw(st.lists(S_(['x', 'y', 'z', 'Tkey', 'TupleKey', 'FsetKey']), min_size=n, max_size=n, unique=True))
        return ['dict', [[key, gen_lit(draw, d - 1, cyc_ok, depth_idx + 1)] for key in keys]]
    if kind in ('set', 'fset'):
        return [kind, [draw(S_([['s', 'a'], ['i', 1], ['T-scalar'], ['Val', ['i', 7]], ['s', 'x']])) for _ in range(n)]]
    items = [gen_lit(draw, d - 1, cyc_ok, depth_idx + 1) for _ in range(n)]
    if kind == 'list' and cyc_ok and draw(st.integers(0, 3)) == 0:
        items.insert(draw(st.integers(0, len(items))), ['cyc', draw(st.integers(0, depth_idx))])
    return [kind, items]


POSITIONS = ['fill', 'coalesce-default', 'match-default', 'switch-default', 'check-default', 'and-default', 'or-default',
             'call-arg', 'call-kwarg', 't-call-arg', 's-bind', 'assign-value', 'check-validate-default']


def gen_shape(draw):
    pos = draw(st.sampled_from(POSITIONS))
    lit = gen_lit(draw, draw(st.sampled_from([1, 2, 3, 4])), pos != 'fill')
    if lit[0] not in ('dict', 'list', 'tuple', 'set', 'fset'):
        lit = ['list', [lit]]
    return {'position': pos, 'lit': lit}


def shape_target():
    return {'n': 5, 'name': 'nm', 'xs': [1, 2], 'f': lambda *a, **kw: (a, kw), 'slot': None}


class Builder(object):
    """builds the literal container; cycles refer to enclosing lists/dicts by nesting index"""
    def __init__(self, fill):
        self.fill = fill
        self.stack = []

    def build(self, r):
        k = r[0]
        if k == 'T':
            return T
        if k == 'Tpath':
            return T['xs']
        if k == 'T-scalar':
            return T['n']
        if k == 'Spec':
            return Spec(T['name'])
        if k == 'Val':
            return Val(tg.build(r[1]).obj)
        if k == 's' or k == 'i':
            return r[1]
        if k == 'none':
            return None
        if k == 'fn':
            return upper
        if k == 'cyc':
            if not self.stack:
                return None
            return self.stack[min(r[1], len(self.stack) - 1)]
        if k == 'dict':
            d = {}
            self.stack.append(d)
            for key, v in r[1]:
                d[{'Tkey': T['name'], 'TupleKey': (T['name'], 'x', (T['n'],)), 'FsetKey': frozenset([T['n'], 'y'])}.get(key, key)] = self.build(v)
            self.stack.pop()
            return d
        if k == 'list':
            l = []
            self.stack.append(l)
            for v in r[1]:
                l.append(self.build(v))
            self.stack.pop()
            return l
        if k == 'tuple':
            return tuple(self.build(v) for v in r[1])
        if k == 'set':
            return set(self.build(v) for v in r[1])
        if k == 'fset':
            return frozenset(self.build(v) for v in r[1])
        raise ValueError(r)


class RefBuilder(object):
    """the value the literal denotes for `target` in Fill mode / in argument position"""
    def __init__(self, fill, target):
        self.fill, self.target = fill, target
        self.stack = []

    def build(self, r):
        k = r[0]
        t = self.target
        if k == 'T':
            return t
        if k == 'Tpath':
            return t['xs']
        if k == 'T-scalar':
            return t['n']
        if k == 'Spec':
            return t['name']
        if k == 'Val':
            return tg.build(r[1]).obj
        if k == 's' or k == 'i':
            return r[1]
        if k == 'none':
            return None
        if k == 'fn':
            return upper(t) if self.fill else upper
        if k == 'cyc':
            if not self.stack:
                return None
            return self.stack[min(r[1], len(self.stack) - 1)]
        if k == 'dict':
            d = {}
            self.stack.append(d)
            for key, v in r[1]:
                d[{'Tkey': t['name'], 'TupleKey': (t['name'], 'x', (t['n'],)), 'FsetKey': frozenset([t['n'], 'y'])}.get(key, key)] = self.build(v)
            self.stack.pop()
            return d
        if k == 'list':
            l = []
            self.stack.append(l)
            for v in r[1]:
                l.append(self.build(v))
            self.stack.pop()
            return l
        if k == 'tuple':
            return tuple(self.build(v) for v in r[1])
        if k == 'set':
            return set(self.build(v) for v in r[1])
        if k == 'fset':
            return frozenset(self.build(v) for v in r[1])
        raise ValueError(r)


def iso(a, b, seen=None):
    """graph isomorphism of two possibly cyclic container structures (parallel DFS)"""
    seen = {} if seen is None else seen
    if isinstance(a, (list, dict)) or isinstance(b, (list, dict)):
        if type(a) is not type(b):
            return False
        if id(a) in seen:
            return seen[id(a)] == id(b)
        seen[id(a)] = id(b)
        if isinstance(a, list):
            return len(a) == len(b) and all(iso(x, y, seen) for x, y in zip(a, b))
        return list(a.keys()) == list(b.keys()) and all(iso(a[k], b[k], seen) for k in a)
    if type(a) is not type(b):
        return False
    if isinstance(a, tuple):
        return len(a) == len(b) and all(iso(x, y, seen) for x, y in zip(a, b))
    if isinstance(a, (set, frozenset)):
        return a == b
    if callable(a) and not isinstance(a, type):
        return a is b
    return a == b


def place(position, lit):
    """(spec, extractor) putting the literal container into the given position"""
    first = lambda r: r
    if position == 'fill':
        return Fill(lit), first
    if position == 'coalesce-default':
        return Coalesce('nope', default=lit), first
    if position == 'match-default':
        return Match(int, default=lit), first
    if position == 'switch-default':
        return Switch([(M == 'never', T)], default=lit), first
    if position == 'check-default':
        return Check(type=int, default=lit), first
    if position == 'check-validate-default':
        return Check(validate=lambda t: False, default=lit), first
    if position == 'and-default':
        return And(M == 'never', default=lit), first
    if position == 'or-default':
        return Or(M == 'never', M == 'nope', default=lit), first
    if position == 'call-arg':
        return Call(lambda x: x, args=(lit,)), first
    if position == 'call-kwarg':
        return Call(lambda **kw: kw['p'], kwargs={'p': lit}), first
    if position == 't-call-arg':
        return T['f'](lit, q=lit), (lambda r: (r[0][0], r[1]['q']))
    if position == 's-bind':
        return (S(v=lit), S.v), first
    if position == 'assign-value':
        return (Assign('slot', lit), T['slot']), first
    raise ValueError(position)


def has_cycle(r):
    return "'cyc'" in repr(r)


def check_shape(recipe, ctx):
    pos, lit = recipe['position'], recipe['lit']
    fill = pos == 'fill'
    target = shape_target()
    literal = Builder(fill).build(lit)
    expected = RefBuilder(fill, target).build(lit)
    spec, extract = place(pos, literal)
    ctx.label('position-' + pos)
    cyc = has_cycle(lit)
    if cyc:
        ctx.label('cyclic')
    ctx.nontrivial(cyc or len(repr(lit)) > 60)
    where = 'position=%s literal=%r' % (pos, lit)
    import sys
    old = sys.getrecursionlimit()
    try:
        got = glom.glom(target, spec)
    except RecursionError:
        raise Mismatch('non-termination', '%s: RecursionError' % where)
    except Exception as e:
        raise Mismatch('unexpected-error', '%s: %s: %s' % (where, type(e).__name__, str(e).splitlines()[-1][:200]))
    got = extract(got)
    results = got if pos == 't-call-arg' else (got,)
    for g in results:
        if not iso(expected, g):
            raise Mismatch('shape', '%s: expected %s, got %s' % (where, safe_repr(expected), safe_repr(g)))
        if isinstance(g, (list, dict)) and g is literal:
            raise Mismatch('not-rebuilt', '%s: the result is the spec container itself' % where)
    ctx.outcome([pos, safe_repr(expected)[:100]])


def safe_repr(v):
    try:
        return repr(v)
    except RecursionError:
        return '<unprintable>'


SUBS = [
    Sub('modes', check_modes, gen=gen_modes, quick=5000, thorough=20000,
        floors={'wrapper-then-probe': 0.05, 'exp-ok': 0.15, 'exp-err': 0.15, 'star-with-failing-argument': 0.05}),
    Sub('shape', check_shape, gen=gen_shape, quick=4000, thorough=15000, floors={'cyclic': 0.05, 'position-fill': 0.03}),
]
