"""C08 — Modes apply exactly to the wrapped spec; Fill and argument mode keep shape.

Sub-checks
  modes   trees of mode wrappers (Auto, Fill, Match, Group) nested to depth <= 3 at every step position of
          tuples and Pipes, as dict values, Coalesce branches, Switch keys and values; mode-sensitive probes
          (the string 'a', the dict {'k': 'a'}) placed before / after / beside them on a self-similar target
          on which the four readings give four different outcomes
  shape   literal containers dict/list/tuple/set/frozenset nested to depth <= 4 with T / Spec / Val leaves,
          strings, numbers and callables, evaluated under Fill and in every argument position (defaults of
          Coalesce / Match / Switch / Check / And / Or, Call args and kwargs, T call arguments, S(k=...),
          Assign value); in argument position also self-referential lists / dicts (direct and mutual cycles,
          shared sub-containers); the spec holding the literal stands bare or under an outer Auto / Fill / Match / Group
          wrapper, and a constructed class puts a leaf whose value depends on the mode (Spec('name'),
          Spec({'k': 'name'})) into the literal: an argument is read in the mode around the spec it belongs to -
          also the default of Match(pattern, default=...), which is not part of the pattern (F60)
  groupchain   inside Group (rows {'n': int, 'vals': [int..]}): Pipe steps, Switch keys, bucket key specs and aggregator
          sub-specs that are mode wrappers - a nested Group (constructed class, F63), Auto, Fill, Match - followed in
          the same chain by steps that collect ([..]), bucket ({key: ..}) or aggregate (Sum / Max / Min / Count) over
          the items of the ENCLOSING Group, at top level / below a bucket / as a list element; below an aggregator
          the later Sum() is a plain fold

Oracle: ev() - the mode of a probe is that of its innermost syntactically enclosing wrapper; RefBuilder;
GroupRun - a hand-written loop with one accumulator per collecting node and bucket path.
"""
from hypothesis import strategies as st

import glom
from glom import (T, S, Spec, Val, Auto, Fill, Match, Coalesce, Switch, Pipe, Call, Check, And, Or, M, Assign,
                  GlomError, PathAccessError, MatchError, BadSpec)
from glom import Sum
from glom import grouping as gg
from glom.grouping import Group
from glom.reduction import Count

from ..runner import Sub, Mismatch
from .. import targets as tg

PROPERTY = 'C08'
RULE = ('modes: node trees of depth <= 4 over {probe str, probe dict, T, wrapper(Auto|Fill|Match|Group), tuple, Pipe, dict, '
        'Coalesce, Switch}; shape: literal container recipes of depth <= 4 x 13 positions (Fill + 12 argument positions), '
        'cycles only in argument position, x outer wrapper {none, Auto, Fill, Match, Group}; groupchain: 0-4 rows x Group spec trees '
        'of depth <= 3 over {[..], {key: ..}, Sum/Max/Min/Count, Sum(sub-spec), Pipe, Switch, T steps, callables, wrapper steps '
        '(15 fixed Auto/Fill/Match wrappers, nested Group of a generated spec)}. Non-trivial = a wrapper followed by a probe at '
        'the same chain level, or nested wrappers of >= 2 different modes, or a cyclic literal, or a mode-dependent leaf in a '
        'literal, or (groupchain) a wrapper followed in its chain by an accumulating step with >= 2 rows.')
ASSUMPTIONS = [
    'per-mode readings: Auto: string = path lookup, tuple = chain, dict = restructuring; Fill: containers rebuilt, strings literal; '
    'Match: == / positional tuple / dict pattern; Group: a bare string or a dict with string keys is a BadSpec',
    'Group wraps probes only; error outcomes are compared by category (PathAccessError / MatchError / BadSpec / other GlomError)',
    'Invoke.constants is literal by contract and Invoke.specs an ordinary spec: neither is an argument position',
    'a Spec(...) leaf of an argument is an ordinary spec read in the mode in force around the spec the argument belongs to (bare = Auto); '
    'under an outer Match / Group a Spec(\'name\') leaf therefore fails with MatchError / BadSpec; the default of Match(p, default=d) is '
    'an argument of Match, not part of the pattern',
    'groupchain: a tuple is a BadSpec in Group mode, so chains are Pipes, Switch cases and aggregator sub-specs; in a Pipe only the last '
    'step collects / buckets / aggregates (what a step finds after a plain - non-wrapper - accumulating step is outside the statement); '
    'First() only as the whole spec of a nested Group; nested Groups get non-empty lists of ints',
]


# ---------------------------------------------------------------------------
# (i) mode discipline

def make_target():
    t2 = {'a': 'leaf', 'k': 'a'}
    t1 = {'a': t2, 'k': 'a'}
    return {'a': t1, 'k': 'a'}


class Err(Exception):
    def __init__(self, cat):
        Exception.__init__(self, cat)
        self.cat = cat


def lookup(t, name):
    if isinstance(t, dict):
        try:
            return t[name]
        except KeyError:
            raise Err('PathAccessError')
    if isinstance(t, (list, tuple)):
        raise Err('PathAccessError')
    try:
        return getattr(t, name)
    except AttributeError:
        raise Err('PathAccessError')


def match_lit(t, lit):
    if t != lit:
        raise Err('MatchError')
    return t


def ev(n, t, mode):
    k = n[0]
    if k == 'T':
        return t
    if k == 'p-str':
        if mode == 'auto':
            return lookup(t, 'a')
        if mode == 'fill':
            return 'a'
        return match_lit(t, 'a')
    if k == 'p-dict':
        if mode == 'auto':
            return {'k': lookup(t, 'a')}
        if mode == 'fill':
            return {'k': 'a'}
        return match_dict({'k': ['p-str']}, t)
    if k == 'starmiss':
        # T.__star__()[T['k']]: a T expression reads the same in every mode; children whose argument T['k'] (or the
        # access itself) fails are dropped -- and whatever was set up to evaluate that argument is gone afterwards
        kids = list(t.values()) if isinstance(t, dict) else list(t) if isinstance(t, (list, tuple)) else []
        out = []
        for c in kids:
            try:
                out.append(c[c['k']])
            except (KeyError, IndexError, TypeError):
                continue
        return out
    if k == 'wrap':
        m = n[1]
        if m == 'group':
            return group_eval(n[2], t)
        return ev(n[2], t, m)
    if k == 'lazychain':
        # Auto(Pipe(WRAP(Iter(probe)), list)): the stream is consumed by the NEXT step, but every item is still read in WRAP's mode
        if isinstance(t, (str, bytes)) or not hasattr(t, '__iter__'):
            raise Err('other')
        return [ev(n[2], item, n[1]) for item in list(t)]
    if k == 'tuple':
        if mode == 'auto':
            cur = t
            for c in n[1]:
                cur = ev(c, cur, mode)
            return cur
        if mode == 'fill':
            return tuple(ev(c, t, mode) for c in n[1])
        if not isinstance(t, tuple) or len(t) != len(n[1]):
            raise Err('MatchError')
        return tuple(ev(c, x, mode) for c, x in zip(n[1], t))
    if k == 'pipe':
        cur = t
        for c in n[1]:
            cur = ev(c, cur, mode)
        return cur
    if k == 'dict':
        if mode == 'auto' or mode == 'fill':
            return dict((key, ev(v, t, mode)) for key, v in n[1])
        return match_dict(dict((key, v) for key, v in n[1]), t)
    if k == 'coalesce':
        for c in n[1]:
            try:
                return ev(c, t, mode)
            except Err:
                continue
        raise Err('other')
    if k == 'switch':
        for key, val in n[1]:
            try:
                ev(key, t, mode)
            except Err:
                continue
            return ev(val, t, mode)
        raise Err('MatchError')
    raise ValueError(n)


def match_dict(pattern, t):
    """dict pattern with literal string keys (all required, no extras)"""
    if not isinstance(t, dict):
        raise Err('MatchError')
    out = {}
    for key, val in t.items():
        if key not in pattern:
            raise Err('MatchError')
        out[key] = ev(pattern[key], val, 'match')
    if set(pattern) - set(out):
        raise Err('MatchError')
    return out


def group_eval(probe, t):
    if isinstance(t, (str, bytes)) or not hasattr(t, '__iter__'):
        raise Err('other')
    items = list(t)
    if not items:
        return {} if probe[0] == 'p-dict' else None
    raise Err('BadSpec')


def gen_node(draw, d, under_group_ok=True):
    S_ = st.sampled_from
    kind = draw(S_(['p-str', 'p-str', 'p-dict', 'T', 'starmiss'] if d <= 0 else
                   ['p-str', 'p-dict', 'wrap', 'wrap', 'wrap', 'tuple', 'tuple', 'pipe', 'dict', 'coalesce', 'switch', 'lazychain', 'starmiss']))
    if kind == 'starmiss':
        return ['starmiss']
    if kind == 'lazychain':
        return ['lazychain', draw(S_(['auto', 'fill', 'match'])), [draw(S_(['p-str', 'p-dict', 'T']))]]
    if kind in ('p-str', 'p-dict', 'T'):
        return [kind]
    if kind == 'wrap':
        m = draw(S_(['auto', 'fill', 'match', 'group']))
        if m == 'group':
            return ['wrap', 'group', [draw(S_(['p-str', 'p-dict']))]]
        return ['wrap', m, gen_node(draw, d - 1)]
    if kind in ('tuple', 'pipe', 'coalesce'):
        return [kind, [gen_node(draw, d - 1) for _ in range(draw(st.integers(1, 3)))]]
    if kind == 'dict':
        keys = draw(st.lists(S_(['x', 'y', 'a', 'k']), min_size=1, max_size=2, unique=True))
        return ['dict', [[key, gen_node(draw, d - 1)] for key in keys]]
    return ['switch', [[gen_node(draw, d - 1), gen_node(draw, d - 1)] for _ in range(draw(st.integers(1, 2)))]]


def gen_modes(draw):
    return {'tree': gen_node(draw, draw(st.sampled_from([2, 3, 3, 4])))}


WRAPPERS = {'auto': Auto, 'fill': Fill, 'match': Match, 'group': Group}


def build(n):
    k = n[0]
    if k == 'T':
        return T
    if k == 'p-str':
        return 'a'
    if k == 'p-dict':
        return {'k': 'a'}
    if k == 'starmiss':
        return T.__star__()[T['k']]
    if k == 'wrap':
        return WRAPPERS[n[1]](build(n[2]))
    if k == 'lazychain':
        from glom import Iter
        return Auto(Pipe(WRAPPERS[n[1]](Iter(build(n[2]))), list))
    if k == 'tuple':
        return tuple(build(c) for c in n[1])
    if k == 'pipe':
        return Pipe(*[build(c) for c in n[1]])
    if k == 'dict':
        return dict((key, build(v)) for key, v in n[1])
    if k == 'coalesce':
        return Coalesce(*[build(c) for c in n[1]])
    if k == 'switch':
        return Switch([(build(a), build(b)) for a, b in n[1]])
    raise ValueError(n)


def category(e):
    if isinstance(e, PathAccessError):
        return 'PathAccessError'
    if isinstance(e, MatchError):
        return 'MatchError'
    if isinstance(e, BadSpec):
        return 'BadSpec'
    return 'other'


def wrapper_modes(n, acc):
    if n[0] == 'lazychain':
        acc.add(n[1])
        return acc
    if n[0] == 'wrap':
        acc.add(n[1])
        wrapper_modes(n[2], acc)
    elif n[0] in ('tuple', 'pipe', 'coalesce'):
        for c in n[1]:
            wrapper_modes(c, acc)
    elif n[0] == 'dict':
        for _, v in n[1]:
            wrapper_modes(v, acc)
    elif n[0] == 'switch':
        for a, b in n[1]:
            wrapper_modes(a, acc)
            wrapper_modes(b, acc)
    return acc


def wrapper_then_probe(n):
    if n[0] in ('tuple', 'pipe'):
        for a, b in zip(n[1], n[1][1:]):
            if a[0] == 'wrap' and b[0] in ('p-str', 'p-dict'):
                return True
    if n[0] == 'switch':
        for a, b in n[1]:
            if a[0] == 'wrap' and b[0] in ('p-str', 'p-dict'):
                return True
    kids = []
    if n[0] == 'lazychain':
        return True
    if n[0] in ('tuple', 'pipe', 'coalesce'):
        kids = n[1]
    elif n[0] == 'dict':
        kids = [v for _, v in n[1]]
    elif n[0] == 'switch':
        kids = [x for pair in n[1] for x in pair]
    elif n[0] == 'wrap':
        kids = [n[2]]
    return any(wrapper_then_probe(c) for c in kids)


def check_modes(recipe, ctx):
    tree = recipe['tree']
    target = make_target()
    snap = tg.snapshot(target)
    try:
        exp = ('ok', ev(tree, target, 'auto'))
    except Err as e:
        exp = ('err', e.cat)
    spec = build(tree)
    modes = wrapper_modes(tree, set())
    wtp = wrapper_then_probe(tree)
    ctx.label('exp-' + exp[0])
    if "'starmiss'" in repr(recipe['tree']):
        ctx.label('star-with-failing-argument')
    if wtp:
        ctx.label('wrapper-then-probe')
    ctx.nontrivial(wtp or len(modes) >= 2)
    where = 'glom(%r, %r)' % (target, spec)
    try:
        got = ('ok', glom.glom(target, spec))
    except GlomError as e:
        got = ('err', category(e))
    except Exception as e:
        got = ('err', 'non-glom:' + type(e).__name__)
    if exp != got and not (exp[0] == 'ok' and got[0] == 'ok' and exp[1] == got[1] and type(exp[1]) is type(got[1])):
        raise Mismatch('mode-discipline', '%s: expected %r, got %r' % (where, exp, got))
    if exp[0] == 'ok' and type(exp[1]) is not type(got[1]):
        raise Mismatch('mode-discipline', '%s: expected a %s, got a %s' % (where, type(exp[1]).__name__, type(got[1]).__name__))
    d = tg.snapshot_diff(snap, tg.snapshot(target))
    if d:
        raise Mismatch('target-mutated', '%s: %s' % (where, d))
    ctx.outcome([repr(spec)[:140], exp if exp[0] == 'err' else repr(exp[1])[:80]])


# ---------------------------------------------------------------------------
# (ii) shape preservation in Fill mode and in argument position

def upper(t):
    return 'called-with-%s' % type(t).__name__


def gen_lit(draw, d, cyc_ok, depth_idx=0):
    S_ = st.sampled_from
    if d <= 0 or draw(st.integers(0, 9)) < 3:
        k = draw(S_(['T', 'T', 'Spec', 'Val', 's', 'i', 'fn', 'none', 'Tpath', 'Spec-str', 'Spec-dict', 'Auto-str', 'Fill-str']))
        if k == 's':
            return ['s', draw(S_(['a', 'x', 'a.b', '']))]
        if k == 'i':
            return ['i', draw(st.integers(0, 5))]
        if k == 'Val':
            return ['Val', draw(S_([['s', 'v'], ['list', [['i', 1]]], ['i', 7]]))]
        return [k]
    kind = draw(S_(['dict', 'list', 'list', 'tuple', 'set', 'fset']))
    n = draw(st.integers(0, 3))
    if kind == 'dict':
        keys = draw(st.lists(S_(['x', 'y', 'z', 'Tkey', 'TupleKey', 'FsetKey']), min_size=n, max_size=n, unique=True))
        return ['dict', [[key, gen_lit(draw, d - 1, cyc_ok, depth_idx + 1)] for key in keys]]
    if kind in ('set', 'fset'):
        return [kind, [draw(S_([['s', 'a'], ['i', 1], ['T-scalar'], ['Val', ['i', 7]], ['s', 'x'], ['Spec-str']])) for _ in range(n)]]
    items = [gen_lit(draw, d - 1, cyc_ok, depth_idx + 1) for _ in range(n)]
    if kind == 'list' and cyc_ok and draw(st.integers(0, 3)) == 0:
        items.insert(draw(st.integers(0, len(items))), ['cyc', draw(st.integers(0, depth_idx))])
    return [kind, items]


POSITIONS = ['fill', 'coalesce-default', 'match-default', 'switch-default', 'check-default', 'and-default', 'or-default',
             'call-arg', 'call-kwarg', 't-call-arg', 's-bind', 'assign-value', 'check-validate-default']


OUTERS = ['none', 'none', 'auto', 'fill', 'match', 'group']
MODAL = ('Spec-str', 'Spec-dict')


def gen_shape(draw):
    S_ = st.sampled_from
    pos = draw(S_(POSITIONS + ['match-default']))
    lit = gen_lit(draw, draw(S_([1, 2, 3, 4])), pos != 'fill')
    if lit[0] not in ('dict', 'list', 'tuple', 'set', 'fset'):
        lit = ['list', [lit]]
    outer = draw(S_(OUTERS))
    if draw(S_([True, False, False])):
        # constructed class: a leaf whose value depends on the mode it is evaluated in (Spec('name'), Spec({'k': 'name'}))
        # somewhere in the literal - an argument is evaluated in the mode in force AROUND the spec it belongs to
        leaf = [draw(S_(MODAL))]
        if draw(S_([False, True])):
            leaf = [draw(S_(['list', 'tuple'])), [leaf, ['s', 'name']]]
        if lit[0] == 'dict':
            lit = ['dict', [kv for kv in lit[1] if kv[0] != 'm'] + [['m', leaf]]]
        elif lit[0] in ('set', 'fset'):
            lit = [lit[0], lit[1] + [['Spec-str']]]
        else:
            items = list(lit[1])
            items.insert(draw(S_(range(len(items) + 1))), leaf)
            lit = [lit[0], items]
    return {'position': pos, 'lit': lit, 'outer': outer}


def shape_target():
    return {'n': 5, 'name': 'nm', 'xs': [1, 2], 'f': lambda *a, **kw: (a, kw), 'slot': None}


class Builder(object):
    """builds the literal container; cycles refer to enclosing lists/dicts by nesting index"""
    def __init__(self, fill):
        self.fill = fill
        self.stack = []

    def build(self, r):
        k = r[0]
        if k == 'T':
            return T
        if k == 'Tpath':
            return T['xs']
        if k == 'T-scalar':
            return T['n']
        if k == 'Spec':
            return Spec(T['name'])
        if k == 'Spec-str':
            return Spec('name')
        if k == 'Spec-dict':
            return Spec({'k': 'name'})
        if k == 'Auto-str':
            return Auto('name')
        if k == 'Fill-str':
            return Fill('name')
        if k == 'Val':
            return Val(tg.build(r[1]).obj)
        if k == 's' or k == 'i':
            return r[1]
        if k == 'none':
            return None
        if k == 'fn':
            return upper
        if k == 'cyc':
            if not self.stack:
                return None
            return self.stack[min(r[1], len(self.stack) - 1)]
        if k == 'dict':
            d = {}
            self.stack.append(d)
            for key, v in r[1]:
                d[{'Tkey': T['name'], 'TupleKey': (T['name'], 'x', (T['n'],)), 'FsetKey': frozenset([T['n'], 'y'])}.get(key, key)] = self.build(v)
            self.stack.pop()
            return d
        if k == 'list':
            l = []
            self.stack.append(l)
            for v in r[1]:
                l.append(self.build(v))
            self.stack.pop()
            return l
        if k == 'tuple':
            return tuple(self.build(v) for v in r[1])
        if k == 'set':
            return set(self.build(v) for v in r[1])
        if k == 'fset':
            return frozenset(self.build(v) for v in r[1])
        raise ValueError(r)


class RefBuilder(object):
    """the value the literal denotes for `target` in Fill mode / in argument position; `mode` is the mode in force
    around the spec the literal is an argument of (or 'fill' for the Fill position): a Spec leaf is an ordinary spec
    evaluated in that mode, a mode wrapper leaf brings its own"""
    def __init__(self, fill, target, mode='auto'):
        self.fill, self.target, self.mode = fill, target, mode
        self.stack = []

    def modal(self, wrapped_dict):
        t, mode = self.target, self.mode
        if mode == 'auto':
            return {'k': t['name']} if wrapped_dict else t['name']
        if mode == 'fill':
            return {'k': 'name'} if wrapped_dict else 'name'
        if mode == 'match':
            raise Err('MatchError')       # the target is neither == 'name' nor a dict with the one key 'k'
        if mode == 'group':
            raise Err('BadSpec')          # a bare string (also as a dict key spec) is no Group spec
        raise ValueError(mode)

    def build(self, r):
        k = r[0]
        t = self.target
        if k == 'T':
            return t
        if k == 'Tpath':
            return t['xs']
        if k == 'T-scalar':
            return t['n']
        if k == 'Spec':
            return t['name']
        if k == 'Spec-str':
            return self.modal(False)
        if k == 'Spec-dict':
            return self.modal(True)
        if k == 'Auto-str':
            return t['name']
        if k == 'Fill-str':
            return 'name'
        if k == 'Val':
            return tg.build(r[1]).obj
        if k == 's' or k == 'i':
            return r[1]
        if k == 'none':
            return None
        if k == 'fn':
            return upper(t) if self.fill else upper
        if k == 'cyc':
            if not self.stack:
                return None
            return self.stack[min(r[1], len(self.stack) - 1)]
        if k == 'dict':
            d = {}
            self.stack.append(d)
            for key, v in r[1]:
                d[{'Tkey': t['name'], 'TupleKey': (t['name'], 'x', (t['n'],)), 'FsetKey': frozenset([t['n'], 'y'])}.get(key, key)] = self.build(v)
            self.stack.pop()
            return d
        if k == 'list':
            l = []
            self.stack.append(l)
            for v in r[1]:
                l.append(self.build(v))
            self.stack.pop()
            return l
        if k == 'tuple':
            return tuple(self.build(v) for v in r[1])
        if k == 'set':
            return set(self.build(v) for v in r[1])
        if k == 'fset':
            return frozenset(self.build(v) for v in r[1])
        raise ValueError(r)


def iso(a, b, seen=None):
    """graph isomorphism of two possibly cyclic container structures (parallel DFS)"""
    seen = {} if seen is None else seen
    if isinstance(a, (list, dict)) or isinstance(b, (list, dict)):
        if type(a) is not type(b):
            return False
        if id(a) in seen:
            return seen[id(a)] == id(b)
        seen[id(a)] = id(b)
        if isinstance(a, list):
            return len(a) == len(b) and all(iso(x, y, seen) for x, y in zip(a, b))
        return list(a.keys()) == list(b.keys()) and all(iso(a[k], b[k], seen) for k in a)
    if type(a) is not type(b):
        return False
    if isinstance(a, tuple):
        return len(a) == len(b) and all(iso(x, y, seen) for x, y in zip(a, b))
    if isinstance(a, (set, frozenset)):
        return a == b
    if callable(a) and not isinstance(a, type):
        return a is b
    return a == b


def place(position, lit, outer='none'):
    """(spec, extractor) putting the literal container into the given position, the whole under the mode wrapper `outer`"""
    spec, extract = place_bare(position, lit, outer != 'none')
    if outer != 'none':
        spec = WRAPPERS[outer](spec)
    return spec, extract


def place_bare(position, lit, chained):
    first = lambda r: r
    chain = Pipe if chained else (lambda *steps: steps)      # a tuple is a chain in Auto mode only
    if position == 'fill':
        return Fill(lit), first
    if position == 'coalesce-default':
        return Coalesce(T['nope'], default=lit), first
    if position == 'match-default':
        return Match(int, default=lit), first
    if position == 'switch-default':
        return Switch([(M == 'never', T)], default=lit), first
    if position == 'check-default':
        return Check(type=int, default=lit), first
    if position == 'check-validate-default':
        return Check(validate=lambda t: False, default=lit), first
    if position == 'and-default':
        return And(M == 'never', default=lit), first
    if position == 'or-default':
        return Or(M == 'never', M == 'nope', default=lit), first
    if position == 'call-arg':
        return Call(lambda x: x, args=(lit,)), first
    if position == 'call-kwarg':
        return Call(lambda **kw: kw['p'], kwargs={'p': lit}), first
    if position == 't-call-arg':
        return T['f'](lit, q=lit), (lambda r: (r[0][0], r[1]['q']))
    if position == 's-bind':
        return chain(S(v=lit), S.v), first
    if position == 'assign-value':
        return chain(Assign('slot', lit), T['slot']), first
    raise ValueError(position)


def has_cycle(r):
    return "'cyc'" in repr(r)


def has_modal(r):
    s = repr(r)
    return "'Spec-str'" in s or "'Spec-dict'" in s


def check_shape(recipe, ctx):
    pos, lit = recipe['position'], recipe['lit']
    outer = recipe.get('outer', 'none')
    fill = pos == 'fill'
    item = shape_target()
    target = [item] if outer == 'group' else item        # Group evaluates its spec on every item: one item, the usual target
    literal = Builder(fill).build(lit)
    # the mode a Spec leaf is read in: Fill's own for the Fill position, else the mode around the spec whose argument it is
    mode = 'fill' if fill else 'auto' if outer == 'none' else outer
    try:
        expected = ('ok', RefBuilder(fill, item, mode).build(lit))
    except Err as e:
        expected = ('err', e.cat)
    spec, extract = place(pos, literal, outer)
    ctx.label('position-' + pos, 'outer-' + outer, 'exp-' + expected[0])
    cyc = has_cycle(lit)
    modal = has_modal(lit)
    if cyc:
        ctx.label('cyclic')
    if modal:
        ctx.label('modal-leaf')
        if not fill:
            ctx.label('modal-leaf-in-argument')
        if pos == 'match-default':
            ctx.label('modal-leaf-in-match-default')
            if outer in ('none', 'auto', 'fill'):
                ctx.label('modal-leaf-in-match-default-ok')
    ctx.nontrivial(cyc or modal or len(repr(lit)) > 60)
    where = 'position=%s outer=%s literal=%r' % (pos, outer, lit)
    try:
        got = glom.glom(target, spec)
    except RecursionError:
        raise Mismatch('non-termination', '%s: RecursionError' % where)
    except GlomError as e:
        if expected == ('err', category(e)):
            ctx.outcome([pos, outer, expected])
            return
        raise Mismatch('unexpected-error', '%s: expected %s, got %s: %s' % (
            where, safe_repr(expected), type(e).__name__, str(e).splitlines()[-1][:200]))
    except Exception as e:
        raise Mismatch('unexpected-error', '%s: %s: %s' % (where, type(e).__name__, str(e).splitlines()[-1][:200]))
    got = extract(got)
    if expected[0] == 'err':
        raise Mismatch('missing-error', '%s: expected %s, got %s' % (where, expected[1], safe_repr(got)))
    expected = expected[1]
    results = got if pos == 't-call-arg' else (got,)
    for g in results:
        if not iso(expected, g):
            raise Mismatch('shape', '%s: expected %s, got %s' % (where, safe_repr(expected), safe_repr(g)))
        if isinstance(g, (list, dict)) and g is literal:
            raise Mismatch('not-rebuilt', '%s: the result is the spec container itself' % where)
    ctx.outcome([pos, outer, safe_repr(expected)[:100]])


def safe_repr(v):
    try:
        return repr(v)
    except RecursionError:
        return '<unprintable>'


# ---------------------------------------------------------------------------
# (iii) mode discipline inside Group: a mode wrapper (Group, Auto, Fill, Match) as a Pipe step / Switch key of a spec that an
# enclosing Group evaluates per item, FOLLOWED by further Group-mode steps ([..] collects, {key: ..} buckets, Sum()/Max()/..
# aggregate).  "Everything outside it (later ... Pipe steps, ... other Switch cases) is evaluated in the mode that was in
# force before": the later step collects / buckets / aggregates over the items of the ENCLOSING Group, whatever the wrapper
# before it did with the one item it saw.  (A tuple is no chain in Group mode - it is a BadSpec - so chains are Pipes, Switches
# and the sub-spec of an aggregator.)
#
# value kinds (type-directed generation): row = {'n': int, 'vals': [int, ...]}, ints = non-empty list of ints, num, other

def inc(x):
    return x + 1


def _same(k):
    return k


def _const(k):
    return lambda _k: k


# wrapper steps with a fixed inner spec: name -> (build, reference, accepted input kinds, output kind)
def _match_fail(x):
    raise Err('MatchError')


WRAPSTEPS = {
    'auto-vals':  (lambda: Auto('vals'),               lambda x: x['vals'],            ('row',), _const('ints')),
    'auto-n':     (lambda: Auto('n'),                  lambda x: x['n'],               ('row',), _const('num')),
    'auto-chain': (lambda: Auto(('vals', len)),        lambda x: len(x['vals']),       ('row',), _const('num')),
    'auto-tuple-group': (lambda: Auto(('vals', Group(Sum()))), lambda x: sum(x['vals']), ('row',), _const('num')),
    'auto-dict':  (lambda: Auto({'k': 'n'}),           lambda x: {'k': x['n']},        ('row',), _const('other')),
    'auto-sum':   (lambda: Auto(sum),                  lambda x: sum(x),               ('ints',), _const('num')),
    'auto-each':  (lambda: Auto([inc]),                lambda x: [v + 1 for v in x],   ('ints',), _const('ints')),
    'auto-T':     (lambda: Auto(T),                    lambda x: x,                    ('row', 'ints', 'num', 'other'), _same),
    'fill-T':     (lambda: Fill(T),                    lambda x: x,                    ('row', 'ints', 'num', 'other'), _same),
    'fill-n':     (lambda: Fill(T['n']),               lambda x: x['n'],               ('row',), _const('num')),
    'fill-list':  (lambda: Fill([T]),                  lambda x: [x],                  ('row', 'ints', 'num', 'other'), _const('other')),
    'fill-str':   (lambda: Fill('vals'),               lambda x: 'vals',               ('row', 'ints', 'num', 'other'), _const('other')),
    'match-row':  (lambda: Match({'n': int, 'vals': [int]}), lambda x: x,              ('row',), _same),
    'match-ints': (lambda: Match([int]),               lambda x: x,                    ('ints',), _same),
    'match-num':  (lambda: Match(int),                 lambda x: x,                    ('num',), _same),
    'match-fail': (lambda: Match(str),                 _match_fail,                    ('row', 'ints', 'num'), _same),
}
# steps that are no wrappers and read the same in every mode: T expressions, and callables (called with the item in Group mode)
PLAINSTEPS = {
    't-vals': (lambda: T['vals'],  lambda x: x['vals'],  ('row',), _const('ints')),
    't-n':    (lambda: T['n'],     lambda x: x['n'],     ('row',), _const('num')),
    't-mod2': (lambda: T % 2,      lambda x: x % 2,      ('num',), _const('num')),
    'fn-len': (lambda: len,        lambda x: len(x),     ('row', 'ints'), _const('num')),
    'fn-inc': (lambda: inc,        lambda x: x + 1,      ('num',), _const('num')),
    'fn-sum': (lambda: sum,        lambda x: sum(x),     ('ints',), _const('num')),
}
AGGS = {   # name -> (build, initial accumulator, step)
    'sum':   (lambda: Sum(),   lambda: 0,    lambda acc, x: acc + x),
    'max':   (lambda: gg.Max(), lambda: None, lambda acc, x: x if acc is None or x > acc else acc),
    'min':   (lambda: gg.Min(), lambda: None, lambda acc, x: x if acc is None or x < acc else acc),
    'count': (lambda: Count(), lambda: 0,    lambda acc, x: acc + 1),
}
_STOP = object()


class GroupRun(object):
    """one evaluation of Group(post) over `items`, as a hand-written loop: every collecting / bucketing / aggregating node of
    the spec owns one accumulator per bucket path, which lives as long as this Group runs and is updated once per item the
    node gets to see; the Group returns what its spec returned for the last item (for First: the first)"""
    def __init__(self):
        self.accs = {}

    def run(self, post, items):
        ret = {} if post[0] == 'dict' else [] if post[0] == 'list' else None
        for x in items:
            last, ret = ret, self.ev(post, x, (), ())
            if ret is _STOP:
                return last
        return ret

    def acc(self, path, bucket, init):
        key = (path, bucket)
        if key not in self.accs:
            self.accs[key] = init()
        return self.accs[key]

    def pure(self, n, x):
        """steps whose result is a function of the one value they receive"""
        k = n[0]
        if k == 'plain':
            return PLAINSTEPS[n[1]][1](x)
        if k == 'wrap':
            if n[1] == 'group':
                # a Group nested in the chain is a complete Group of its own over the value it receives
                if isinstance(x, (str, bytes, dict)) or not hasattr(x, '__iter__'):
                    raise ValueError('generator: nested Group over %r' % (x,))
                return GroupRun().run(n[2], list(x))
            return WRAPSTEPS[n[1]][1](x)
        if k == 'fold':
            # Sum() below an aggregator of the same Group is an ordinary fold of the value it receives
            return sum(x)
        raise ValueError(n)

    def ev(self, n, x, path, bucket):
        k = n[0]
        if k in ('plain', 'wrap', 'fold'):
            return self.pure(n, x)
        if k == 'T':
            return x
        if k == 'list':
            r = self.ev(n[1], x, path + (0,), bucket)
            acc = self.acc(path, bucket, list)
            acc.append(r)
            return acc
        if k == 'dict':
            key = x
            for i, step in enumerate(n[1]):
                key = self.ev(step, key, path + ('k', i), bucket)
            r = self.ev(n[2], x, path + ('v',), bucket + (key,))
            acc = self.acc(path, bucket, dict)
            acc[key] = r
            return acc
        if k == 'agg':
            key = (path, bucket)
            init, step = AGGS[n[1]][1], AGGS[n[1]][2]
            self.accs[key] = step(self.accs[key] if key in self.accs else init(), x)
            return self.accs[key]
        if k == 'aggsub':
            # Sum(subspec) / Max-like aggregators with a sub-spec: aggregate subspec(item)
            v = x
            for i, step in enumerate(n[2]):
                v = self.ev(step, v, path + (i,), bucket)
            key = (path, bucket)
            self.accs[key] = (self.accs[key] if key in self.accs else 0) + v
            return self.accs[key]
        if k == 'first':
            key = (path, bucket)
            if key in self.accs:
                return _STOP
            self.accs[key] = True
            return x
        if k == 'pipe':
            cur = x
            for i, step in enumerate(n[1]):
                cur = self.ev(step, cur, path + (i,), bucket)
            return cur
        if k == 'switch':
            for i, (key, val) in enumerate(n[1]):
                try:
                    self.ev(key, x, path + (i, 'k'), bucket)
                except Err:
                    continue
                return self.ev(val, x, path + (i, 'v'), bucket)
            raise Err('MatchError')
        raise ValueError(n)


def gc_build(n):
    k = n[0]
    if k == 'plain':
        return PLAINSTEPS[n[1]][0]()
    if k == 'wrap':
        if n[1] == 'group':
            return Group(gc_build(n[2]))
        return WRAPSTEPS[n[1]][0]()
    if k == 'fold':
        return Sum()
    if k == 'T':
        return T
    if k == 'list':
        return [gc_build(n[1])]
    if k == 'dict':
        steps = [gc_build(c) for c in n[1]]
        key = T if not steps else steps[0] if len(steps) == 1 else Pipe(*steps)
        return {key: gc_build(n[2])}
    if k == 'agg':
        return AGGS[n[1]][0]()
    if k == 'aggsub':
        steps = [gc_build(c) for c in n[2]]
        return Sum(steps[0] if len(steps) == 1 else Pipe(*steps))
    if k == 'first':
        return gg.First()
    if k == 'pipe':
        return Pipe(*[gc_build(c) for c in n[1]])
    if k == 'switch':
        return Switch([(gc_build(a), gc_build(b)) for a, b in n[1]])
    raise ValueError(n)


def gc_accumulates(n):
    """does evaluating this node update an accumulator of the Group it is (directly) part of"""
    k = n[0]
    if k in ('list', 'dict', 'agg', 'aggsub'):
        return True
    if k == 'pipe':
        return any(gc_accumulates(c) for c in n[1])
    if k == 'switch':
        return any(gc_accumulates(b) for _, b in n[1])
    return False


def gen_gc_step(draw, kind, d, allow_fail=True):
    """one step whose result depends on its input only; -> (node, output kind)"""
    S_ = st.sampled_from
    opts = [('plain', nm) for nm, v in sorted(PLAINSTEPS.items()) if kind in v[2]]
    wraps = [('wrap', nm) for nm, v in sorted(WRAPSTEPS.items()) if kind in v[2] and (allow_fail or nm != 'match-fail')]
    opts += wraps + wraps
    if kind == 'ints' and d > 0:
        opts += [('wrap', 'group')] * 4
    what, nm = draw(S_(opts))
    if what == 'plain':
        return ['plain', nm], PLAINSTEPS[nm][3](kind)
    if nm == 'group':
        post, okind = gen_gc_post(draw, 'num', d - 1, top=True)
        return ['wrap', 'group', post], okind
    return ['wrap', nm], WRAPSTEPS[nm][3](kind)


def gen_gc_steps(draw, kind, d, lo, hi, allow_fail=True):
    steps = []
    for _ in range(draw(st.sampled_from(range(lo, hi + 1)))):
        node, kind = gen_gc_step(draw, kind, d, allow_fail)
        steps.append(node)
    return steps, kind


def gen_gc_key(draw, kind, d):
    """the key spec of a bucketing dict: steps giving a hashable value"""
    S_ = st.sampled_from
    if kind == 'num':
        return draw(S_([[], [['plain', 't-mod2']], [['wrap', 'fill-T']], [['plain', 'fn-inc'], ['wrap', 'match-num']]]))
    if kind == 'row':
        return draw(S_([[['plain', 't-n']], [['wrap', 'auto-n']], [['wrap', 'auto-chain']], [['plain', 't-vals'], ['wrap', 'group', ['agg', 'sum']]],
                        [['wrap', 'match-row'], ['wrap', 'fill-n']]]))
    if kind == 'ints':
        return draw(S_([[['plain', 'fn-len']], [['wrap', 'auto-sum']], [['wrap', 'group', ['agg', 'max']]], [['wrap', 'group', ['first']]]]))
    return None


def gen_gc_post(draw, kind, d, top=False):
    """a Group-mode spec for items of `kind`; -> (node, kind of the value it returns per item)"""
    S_ = st.sampled_from
    opts = ['list', 'list', 'agg']
    if kind != 'other':
        opts += ['dict']
    if kind in ('row', 'ints'):
        opts += ['aggsub']
    if d > 0:
        opts += ['pipe', 'pipe', 'pipe', 'switch']
    if top and kind == 'num':
        opts += ['first']
    what = draw(S_(opts))
    if what == 'first':
        return ['first'], 'num'
    if what == 'agg':
        return ['agg', draw(S_(['sum', 'max', 'min', 'count'] if kind == 'num' else ['count']))], 'num'
    if what == 'list':
        if d > 0 and draw(S_([True, False, False])):
            elem, ek = gen_gc_post(draw, kind, d - 1)
            if elem[0] != 'dict':                 # (a dict inside a list is refused in Group mode)
                return ['list', elem], 'other'
        steps, ek = gen_gc_steps(draw, kind, d - 1, 0, 1)
        elem = ['T'] if not steps else steps[0]
        return ['list', elem], ('ints' if ek == 'num' else 'other')
    if what == 'dict':
        val, _ = gen_gc_post(draw, kind, d - 1)
        return ['dict', gen_gc_key(draw, kind, d), val], 'other'
    if what == 'aggsub':
        # the aggregator's sub-spec: a chain down to a number; Sum() inside it is a plain fold
        steps = [['plain', 't-vals']] if kind == 'row' else []
        tail = draw(S_(['group-sum', 'group-list-fold', 'fold', 'auto-sum', 'group-max', 'fill-fold']))
        steps += {'group-sum': [['wrap', 'group', ['agg', 'sum']]],
                  'group-max': [['wrap', 'group', ['agg', 'max']], ['wrap', 'match-num']],
                  'group-list-fold': [['wrap', 'group', ['list', ['T']]], ['fold']],
                  'fold': [['fold']],
                  'fill-fold': [['wrap', 'fill-T'], ['fold']],
                  'auto-sum': [['wrap', 'auto-sum']]}[tail]
        return ['aggsub', 'sum', steps], 'num'
    if what == 'pipe':
        steps, k2 = gen_gc_steps(draw, kind, d, 1, 2)
        last, ok = gen_gc_post(draw, k2, d - 1)
        return ['pipe', steps + [last]], ok
    cases = []
    oks = set()
    for _ in range(draw(S_([1, 1, 2]))):
        key, _k = gen_gc_step(draw, kind, d)
        val, ok = gen_gc_post(draw, kind, d - 1)
        cases.append([key, val])
        oks.add(ok)
    return ['switch', cases], (oks.pop() if len(oks) == 1 else 'other')


def gen_gc_nested(draw):
    """constructed class: T['vals'] -> Group(<inner>) -> <a step that accumulates in the enclosing Group>, chained by a Pipe
    or as key and value of a Switch case, at top level / below a bucket / as the element of a list"""
    S_ = st.sampled_from
    inner, ikind = gen_gc_post(draw, 'num', draw(S_([0, 0, 1])), top=True)
    inner_step = ['wrap', 'group', inner]
    d = draw(S_([0, 0, 1]))
    via = draw(S_(['pipe', 'pipe', 'switch', 'switch-pipe', 'pipe-more', 'aggsub-fold']))
    if via == 'aggsub-fold':
        # below an aggregator Sum() is a plain fold - also after a nested Group, which has aggregators of its own
        inner = draw(S_([['list', ['T']], ['list', ['plain', 'fn-inc']], ['list', ['wrap', 'fill-T']]]))
        steps = [['plain', 't-vals'], ['wrap', 'group', inner]]
        if draw(S_([True, False, False])):
            steps.append(['wrap', draw(S_(['match-ints', 'auto-each', 'fill-T']))])
        chain = ['aggsub', 'sum', steps + [['fold']]]
    elif via == 'pipe':
        post, _ = gen_gc_post(draw, ikind, d)
        chain = ['pipe', [['plain', 't-vals'], inner_step, post]]
    elif via == 'pipe-more':
        mid, k2 = gen_gc_steps(draw, ikind, 0, 1, 1, allow_fail=False)
        post, _ = gen_gc_post(draw, k2, d)
        chain = ['pipe', [['plain', 't-vals'], inner_step] + mid + [post]]
    elif via == 'switch':
        post, _ = gen_gc_post(draw, 'ints', d)
        cases = [[inner_step, post]]
        if draw(S_([True, False])):
            cases.insert(0, [['wrap', 'match-fail'], ['list', ['T']]])
        chain = ['pipe', [['plain', 't-vals'], ['switch', cases]]]
    else:
        post, _ = gen_gc_post(draw, 'row', d)
        chain = ['switch', [[['pipe', [['plain', 't-vals'], inner_step]], post]]]
    around = draw(S_(['top', 'top', 'bucket', 'list']))
    if around == 'bucket':
        return ['dict', gen_gc_key(draw, 'row', 1), chain]
    if around == 'list' and chain[0] != 'dict':
        return ['list', chain]
    return chain


def gen_groupchain(draw):
    S_ = st.sampled_from
    nrows = draw(S_([0, 1, 2, 2, 3, 3, 4]))
    rows = [[draw(S_([0, 1, 2])), draw(st.lists(S_(range(5)), min_size=1, max_size=3))] for _ in range(nrows)]
    form = draw(S_(['free', 'free', 'nested', 'nested', 'nested']))
    if form == 'nested':
        spec = gen_gc_nested(draw)
    else:
        spec, _ = gen_gc_post(draw, 'row', draw(S_([1, 2, 2, 3])))
    return {'rows': rows, 'spec': spec}


def gc_chain_classes(n, acc, in_chain_after=None):
    """labels: which mode wrapper is followed, in the same chain, by a step that accumulates in the enclosing Group"""
    k = n[0]
    if k == 'pipe':
        for i, c in enumerate(n[1]):
            if c[0] == 'wrap' and any(gc_accumulates(later) for later in n[1][i + 1:]):
                acc.add('%s-then-accumulating-step' % ('nested-group' if c[1] == 'group' else c[1].split('-')[0]))
            gc_chain_classes(c, acc)
    elif k == 'switch':
        for key, val in n[1]:
            wrappers = [key] if key[0] == 'wrap' else [c for c in key[1] if c[0] == 'wrap'] if key[0] == 'pipe' else []
            for w in wrappers:
                if gc_accumulates(val):
                    acc.add('%s-key-then-accumulating-value' % ('nested-group' if w[1] == 'group' else w[1].split('-')[0]))
            gc_chain_classes(key, acc)
            gc_chain_classes(val, acc)
    elif k == 'aggsub':
        for i, c in enumerate(n[2]):
            if c[0] == 'wrap' and c[1] == 'group' and any(later[0] == 'fold' for later in n[2][i + 1:]):
                acc.add('nested-group-then-fold-below-aggregator')
            gc_chain_classes(c, acc)
    elif k == 'list':
        gc_chain_classes(n[1], acc)
    elif k == 'dict':
        for c in n[1]:
            gc_chain_classes(c, acc)
        gc_chain_classes(n[2], acc)
    elif k == 'wrap' and n[1] == 'group':
        gc_chain_classes(n[2], acc)
    return acc


def typed_eq(a, b):
    if type(a) is not type(b):
        return False
    if isinstance(a, (list, tuple)):
        return len(a) == len(b) and all(typed_eq(x, y) for x, y in zip(a, b))
    if isinstance(a, dict):
        return list(a.keys()) == list(b.keys()) and all(typed_eq(a[k], b[k]) for k in a)
    return a == b


def check_groupchain(recipe, ctx):
    rows = [{'n': n, 'vals': list(vals)} for n, vals in recipe['rows']]
    tree = recipe['spec']
    snap = tg.snapshot(rows)
    try:
        exp = ('ok', GroupRun().run(tree, rows))
    except Err as e:
        exp = ('err', e.cat)
    spec = Group(gc_build(tree))
    classes = gc_chain_classes(tree, set())
    many = len(rows) >= 2
    ctx.label('exp-' + exp[0], 'rows-%s' % ('many' if many else len(rows)))
    for c in sorted(classes):
        ctx.label(c)
        if many:
            ctx.label(c + '/rows>=2')
    if any(c.startswith('nested-group') for c in classes) and many:
        ctx.label('nested-group-then-outer-step/rows>=2')
    ctx.nontrivial(bool(classes) and many)
    where = 'glom(%r, %r)' % (rows, spec)
    try:
        got = ('ok', glom.glom(rows, spec))
    except GlomError as e:
        got = ('err', category(e))
    except Exception as e:
        got = ('err', 'non-glom:' + type(e).__name__)
    if exp[0] != got[0] or (exp[0] == 'err' and exp != got):
        raise Mismatch('group-chain-outcome', '%s: expected %r, got %r' % (where, exp, got))
    if exp[0] == 'ok' and not typed_eq(exp[1], got[1]):
        raise Mismatch('group-chain-value', '%s: expected %r, got %r' % (where, exp[1], got[1]))
    d = tg.snapshot_diff(snap, tg.snapshot(rows))
    if d:
        raise Mismatch('target-mutated', '%s: %s' % (where, d))
    ctx.outcome([repr(spec)[:160], exp if exp[0] == 'err' else repr(exp[1])[:80]])


SUBS = [
    Sub('modes', check_modes, gen=gen_modes, quick=5000, thorough=20000,
        floors={'wrapper-then-probe': 0.05, 'exp-ok': 0.15, 'exp-err': 0.15, 'star-with-failing-argument': 0.05}),
    Sub('groupchain', check_groupchain, gen=gen_groupchain, quick=1200, thorough=8000,
        floors={'nested-group-then-accumulating-step/rows>=2': 0.10, 'nested-group-key-then-accumulating-value/rows>=2': 0.05,
                'nested-group-then-fold-below-aggregator/rows>=2': 0.03, 'auto-then-accumulating-step/rows>=2': 0.03,
                'fill-then-accumulating-step/rows>=2': 0.05, 'match-then-accumulating-step/rows>=2': 0.025,
                'exp-ok': 0.5, 'exp-err': 0.015}),
    Sub('shape', check_shape, gen=gen_shape, quick=4000, thorough=15000, floors={'cyclic': 0.05, 'position-fill': 0.03, 'modal-leaf-in-match-default-ok': 0.025, 'modal-leaf-in-argument': 0.25,
                'outer-auto': 0.07, 'outer-fill': 0.065, 'outer-match': 0.06, 'outer-group': 0.055, 'exp-err': 0.05}),
]
