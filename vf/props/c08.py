"""C08 — Modes apply exactly to the wrapped spec; Fill and argument mode keep shape.

Sub-checks
  modes   trees of mode wrappers (Auto, Fill, Match, Group) nested to depth <= 3 at every step position of
          tuples and Pipes, as dict values, Coalesce branches, Switch keys and values; mode-sensitive probes
          (the string 'a', the dict {'k': 'a'}) placed before / after / beside them on a self-similar target
          on which the four readings give four different outcomes
  shape   literal containers dict/list/tuple/set/frozenset nested to depth <= 4 with T / Spec / Val leaves,
          strings, numbers and callables, evaluated under Fill and in every argument position (defaults of
          Coalesce / Match / Switch / Check / And / Or, Call args and kwargs, T call arguments, S(k=...),
          Assign value); in argument position also self-referential lists / dicts (direct and mutual cycles,
          shared sub-containers); the spec holding the literal stands bare or under an outer Auto / Fill / Match / Group
          wrapper, and a constructed class puts a leaf whose value depends on the mode (Spec('name'),
          Spec({'k': 'name'})) into the literal: an argument is read in the mode around the spec it belongs to -
          also the default of Match(pattern, default=...), which is not part of the pattern (F60)
  groupchain   inside Group (rows {'n': int, 'vals': [int..]}): Pipe steps, Switch keys, bucket key specs and aggregator
          sub-specs that are mode wrappers - a nested Group (constructed class, F63), Auto, Fill, Match - followed in
          the same chain by steps that collect ([..]), bucket ({key: ..}) or aggregate (Sum / Max / Min / Count) over
          the items of the ENCLOSING Group, at top level / below a bucket / as a list element; below an aggregator
          the later Sum() is a plain fold
  grouplevel   the same check and model as groupchain, other chains: a LEVEL of the Group spec - {key: ..} bucketing,
          Limit(n, ..), [..] collecting - that is not the last step of its chain but is followed (directly or after len /
          a snapshot / Fill(T) / Auto(T)) by steps that collect, bucket or aggregate, in a Pipe or as key and value of a
          Switch case; over the rows, their 'n', or - inside a nested Group - the ints of their 'vals' (F104): the later
          step is fed once per item of the enclosing Group, not once per item of the bucket the level sorted the item into
  lazywrap   a mode wrapper whose RESULT contains Iter pipelines (Iter(sub).map(..).filter(..).takewhile(..).unique(..)):
          Group(IT), Group([IT]), Group(Pipe(IT, T)), below a bucket / a Limit, Auto([IT]), Fill((IT, 'lit')),
          Match(Switch([(list, IT)])), ... - with and without an enclosing Group - consumed by a LATER chain step, by a later
          step of the enclosing Group's chain, or by the caller after glom() returned (F97): the sub-specs are nested inside
          the wrapper and are read in its mode (callable: called / predicate; 'a': lookup / literal / == / BadSpec; tuple:
          chain / rebuilt / pattern / BadSpec) whenever they run

Oracle: ev() - the mode of a probe is that of its innermost syntactically enclosing wrapper; RefBuilder;
GroupRun - a hand-written loop with one accumulator per collecting node and bucket path; lz_ref - plain generators.
"""
from hypothesis import strategies as st

import glom
from glom import (T, S, Spec, Val, Auto, Fill, Match, Coalesce, Switch, Pipe, Call, Check, And, Or, M, Assign,
                  GlomError, PathAccessError, MatchError, BadSpec)
from glom import Sum
from glom import grouping as gg
from glom.grouping import Group
from glom.reduction import Count

import copy

from ..runner import Sub, Mismatch, HarnessBug
from .. import targets as tg

PROPERTY = 'C08'
RULE = ('modes: node trees of depth <= 4 over {probe str, probe dict, T, wrapper(Auto|Fill|Match|Group), tuple, Pipe, dict, '
        'Coalesce, Switch}; shape: literal container recipes of depth <= 4 x 13 positions (Fill + 12 argument positions), '
        'cycles only in argument position, x outer wrapper {none, Auto, Fill, Match, Group}; groupchain: 0-4 rows x Group spec trees '
        'of depth <= 3 over {[..], {key: ..}, Sum/Max/Min/Count, Sum(sub-spec), Pipe, Switch, T steps, callables, wrapper steps '
        '(15 fixed Auto/Fill/Match wrappers, nested Group of a generated spec)}. Non-trivial = a wrapper followed by a probe at '
        'the same chain level, or nested wrappers of >= 2 different modes, or a cyclic literal, or a mode-dependent leaf in a '
        'literal, or (groupchain, grouplevel) a wrapper or a level ({..}, Limit, [..]) followed in its chain by an accumulating step '
        'with >= 2 rows. grouplevel: 1-5 rows x {dict level, Limit(1|2|3|5, sub), list level} x {Pipe with 0-1 steps in between, '
        'Switch key/value} x items {row, n, ints in a nested Group} x {top, bucket, list}. lazywrap: 16 (mode, form) placements '
        'x Iter sub-spec (10) x 0-3 stages over {map, filter, takewhile, unique} x {no enclosing Group, 3 enclosing forms} x '
        'consumer {tuple step, Pipe step, caller} x 1-2 targets of 0-4 rows of 0-4 ints; non-trivial = at least one sub-spec '
        'was evaluated after the wrapper had returned.')
ASSUMPTIONS = [
    'per-mode readings: Auto: string = path lookup, tuple = chain, dict = restructuring; Fill: containers rebuilt, strings literal; '
    'Match: == / positional tuple / dict pattern; Group: a bare string or a dict with string keys is a BadSpec',
    'Group wraps probes only; error outcomes are compared by category (PathAccessError / MatchError / BadSpec / other GlomError)',
    'Invoke.constants is literal by contract and Invoke.specs an ordinary spec: neither is an argument position',
    'a Spec(...) leaf of an argument is an ordinary spec read in the mode in force around the spec the argument belongs to (bare = Auto); '
    'under an outer Match / Group a Spec(\'name\') leaf therefore fails with MatchError / BadSpec; the default of Match(p, default=d) is '
    'an argument of Match, not part of the pattern',
    'groupchain: a tuple is a BadSpec in Group mode, so chains are Pipes, Switch cases and aggregator sub-specs; in a Pipe only the last '
    'step collects / buckets / aggregates; First() only as the whole spec of a nested Group; nested Groups get non-empty lists of ints',
    'grouplevel: a {..} / Limit / [..] level returns the accumulator it keeps (the same object for every item), and the steps after it '
    'belong to the enclosing Group: one accumulator per node, fed once per item; a Limit that is used up answers STOP, which ends the '
    'Pipe it is a step of with the value the Pipe has at that point (core.STOP: "halt ... execution of a tuple of subspecs"); Limit is '
    'generated as a Pipe step only. What a step finds after an AGGREGATOR step (Sum(), Count() .. followed by another accumulating '
    'step in one Pipe) is not generated',
    'lazywrap: filter / takewhile / unique keys are callables and T expressions in Auto / Fill / Group mode and T expressions / Auto(..) '
    'in Match mode (a callable key read as a pattern is outside what Iter documents); sub-specs whose value is no int, or which fail, '
    'stand last in the pipeline; lazily evaluated sub-specs that ACCUMULATE ([..], Sum() as Iter sub-spec in Group mode) are not generated',
]


# ---------------------------------------------------------------------------
# (i) mode discipline

def make_target():
    t2 = {'a': 'leaf', 'k': 'a'}
    t1 = {'a': t2, 'k': 'a'}
    return {'a': t1, 'k': 'a'}


class Err(Exception):
    def __init__(self, cat):
        Exception.__init__(self, cat)
        self.cat = cat


def lookup(t, name):
    if isinstance(t, dict):
        try:
            return t[name]
        except KeyError:
            raise Err('PathAccessError')
    if isinstance(t, (list, tuple)):
        raise Err('PathAccessError')
    try:
        return getattr(t, name)
    except AttributeError:
        raise Err('PathAccessError')


def match_lit(t, lit):
    if t != lit:
        raise Err('MatchError')
    return t


def ev(n, t, mode):
    k = n[0]
    if k == 'T':
        return t
    if k == 'p-str':
        if mode == 'auto':
            return lookup(t, 'a')
        if mode == 'fill':
            return 'a'
        return match_lit(t, 'a')
    if k == 'p-dict':
        if mode == 'auto':
            return {'k': lookup(t, 'a')}
        if mode == 'fill':
            return {'k': 'a'}
        return match_dict({'k': ['p-str']}, t)
    if k == 'starmiss':
        # T.__star__()[T['k']]: a T expression reads the same in every mode; children whose argument T['k'] (or the
        # access itself) fails are dropped -- and whatever was set up to evaluate that argument is gone afterwards
        kids = list(t.values()) if isinstance(t, dict) else list(t) if isinstance(t, (list, tuple)) else []
        out = []
        for c in kids:
            try:
                out.append(c[c['k']])
            except (KeyError, IndexError, TypeError):
                continue
        return out
    if k == 'wrap':
        m = n[1]
        if m == 'group':
            return group_eval(n[2], t)
        return ev(n[2], t, m)
    if k == 'lazychain':
        # Auto(Pipe(WRAP(Iter(probe)), list)): the stream is consumed by the NEXT step, but every item is still read in WRAP's mode
        if isinstance(t, (str, bytes)) or not hasattr(t, '__iter__'):
            raise Err('other')
        return [ev(n[2], item, n[1]) for item in list(t)]
    if k == 'tuple':
        if mode == 'auto':
            cur = t
            for c in n[1]:
                cur = ev(c, cur, mode)
            return cur
        if mode == 'fill':
            return tuple(ev(c, t, mode) for c in n[1])
        if not isinstance(t, tuple) or len(t) != len(n[1]):
            raise Err('MatchError')
        return tuple(ev(c, x, mode) for c, x in zip(n[1], t))
    if k == 'pipe':
        cur = t
        for c in n[1]:
            cur = ev(c, cur, mode)
        return cur
    if k == 'dict':
        if mode == 'auto' or mode == 'fill':
            return dict((key, ev(v, t, mode)) for key, v in n[1])
        return match_dict(dict((key, v) for key, v in n[1]), t)
    if k == 'coalesce':
        for c in n[1]:
            try:
                return ev(c, t, mode)
            except Err:
                continue
        raise Err('other')
    if k == 'switch':
        for key, val in n[1]:
            try:
                ev(key, t, mode)
            except Err:
                continue
            return ev(val, t, mode)
        raise Err('MatchError')
    raise ValueError(n)


def match_dict(pattern, t):
    """dict pattern with literal string keys (all required, no extras)"""
    if not isinstance(t, dict):
        raise Err('MatchError')
    out = {}
    for key, val in t.items():
        if key not in pattern:
            raise Err('MatchError')
        out[key] = ev(pattern[key], val, 'match')
    if set(pattern) - set(out):
        raise Err('MatchError')
    return out


def group_eval(probe, t):
    if isinstance(t, (str, bytes)) or not hasattr(t, '__iter__'):
        raise Err('other')
    items = list(t)
    if not items:
        return {} if probe[0] == 'p-dict' else None
    raise Err('BadSpec')


def gen_node(draw, d, under_group_ok=True):
    S_ = st.sampled_from
    kind = draw(S_(['p-str', 'p-str', 'p-dict', 'T', 'starmiss'] if d <= 0 else
                   ['p-str', 'p-dict', 'wrap', 'wrap', 'wrap', 'tuple', 'tuple', 'pipe', 'dict', 'coalesce', 'switch', 'lazychain', 'starmiss']))
    if kind == 'starmiss':
        return ['starmiss']
    if kind == 'lazychain':
        return ['lazychain', draw(S_(['auto', 'fill', 'match'])), [draw(S_(['p-str', 'p-dict', 'T']))]]
    if kind in ('p-str', 'p-dict', 'T'):
        return [kind]
    if kind == 'wrap':
        m = draw(S_(['auto', 'fill', 'match', 'group']))
        if m == 'group':
            return ['wrap', 'group', [draw(S_(['p-str', 'p-dict']))]]
        return ['wrap', m, gen_node(draw, d - 1)]
    if kind in ('tuple', 'pipe', 'coalesce'):
        return [kind, [gen_node(draw, d - 1) for _ in range(draw(st.integers(1, 3)))]]
    if kind == 'dict':
        keys = draw(st.lists(S_(['x', 'y', 'a', 'k']), min_size=1, max_size=2, unique=True))
        return ['dict', [[key, gen_node(draw, d - 1)] for key in keys]]
    return ['switch', [[gen_node(draw, d - 1), gen_node(draw, d - 1)] for _ in range(draw(st.integers(1, 2)))]]


def gen_modes(draw):
    return {'tree': gen_node(draw, draw(st.sampled_from([2, 3, 3, 4])))}


WRAPPERS = {'auto': Auto, 'fill': Fill, 'match': Match, 'group': Group}


def build(n):
    k = n[0]
    if k == 'T':
        return T
    if k == 'p-str':
        return 'a'
    if k == 'p-dict':
        return {'k': 'a'}
    if k == 'starmiss':
        return T.__star__()[T['k']]
    if k == 'wrap':
        return WRAPPERS[n[1]](build(n[2]))
    if k == 'lazychain':
        from glom import Iter
        return Auto(Pipe(WRAPPERS[n[1]](Iter(build(n[2]))), list))
    if k == 'tuple':
        return tuple(build(c) for c in n[1])
    if k == 'pipe':
        return Pipe(*[build(c) for c in n[1]])
    if k == 'dict':
        return dict((key, build(v)) for key, v in n[1])
    if k == 'coalesce':
        return Coalesce(*[build(c) for c in n[1]])
    if k == 'switch':
        return Switch([(build(a), build(b)) for a, b in n[1]])
    raise ValueError(n)


def category(e):
    if isinstance(e, PathAccessError):
        return 'PathAccessError'
    if isinstance(e, MatchError):
        return 'MatchError'
    if isinstance(e, BadSpec):
        return 'BadSpec'
    return 'other'


def wrapper_modes(n, acc):
    if n[0] == 'lazychain':
        acc.add(n[1])
        return acc
    if n[0] == 'wrap':
        acc.add(n[1])
        wrapper_modes(n[2], acc)
    elif n[0] in ('tuple', 'pipe', 'coalesce'):
        for c in n[1]:
            wrapper_modes(c, acc)
    elif n[0] == 'dict':
        for _, v in n[1]:
            wrapper_modes(v, acc)
    elif n[0] == 'switch':
        for a, b in n[1]:
            wrapper_modes(a, acc)
            wrapper_modes(b, acc)
    return acc


def wrapper_then_probe(n):
    if n[0] in ('tuple', 'pipe'):
        for a, b in zip(n[1], n[1][1:]):
            if a[0] == 'wrap' and b[0] in ('p-str', 'p-dict'):
                return True
    if n[0] == 'switch':
        for a, b in n[1]:
            if a[0] == 'wrap' and b[0] in ('p-str', 'p-dict'):
                return True
    kids = []
    if n[0] == 'lazychain':
        return True
    if n[0] in ('tuple', 'pipe', 'coalesce'):
        kids = n[1]
    elif n[0] == 'dict':
        kids = [v for _, v in n[1]]
    elif n[0] == 'switch':
        kids = [x for pair in n[1] for x in pair]
    elif n[0] == 'wrap':
        kids = [n[2]]
    return any(wrapper_then_probe(c) for c in kids)


def check_modes(recipe, ctx):
    tree = recipe['tree']
    target = make_target()
    snap = tg.snapshot(target)
    try:
        exp = ('ok', ev(tree, target, 'auto'))
    except Err as e:
        exp = ('err', e.cat)
    spec = build(tree)
    modes = wrapper_modes(tree, set())
    wtp = wrapper_then_probe(tree)
    ctx.label('exp-' + exp[0])
    if "'starmiss'" in repr(recipe['tree']):
        ctx.label('star-with-failing-argument')
    if wtp:
        ctx.label('wrapper-then-probe')
    ctx.nontrivial(wtp or len(modes) >= 2)
    where = 'glom(%r, %r)' % (target, spec)
    try:
        got = ('ok', glom.glom(target, spec))
    except GlomError as e:
        got = ('err', category(e))
    except Exception as e:
        got = ('err', 'non-glom:' + type(e).__name__)
    if exp != got and not (exp[0] == 'ok' and got[0] == 'ok' and exp[1] == got[1] and type(exp[1]) is type(got[1])):
        raise Mismatch('mode-discipline', '%s: expected %r, got %r' % (where, exp, got))
    if exp[0] == 'ok' and type(exp[1]) is not type(got[1]):
        raise Mismatch('mode-discipline', '%s: expected a %s, got a %s' % (where, type(exp[1]).__name__, type(got[1]).__name__))
    d = tg.snapshot_diff(snap, tg.snapshot(target))
    if d:
        raise Mismatch('target-mutated', '%s: %s' % (where, d))
    ctx.outcome([repr(spec)[:140], exp if exp[0] == 'err' else repr(exp[1])[:80]])


# ---------------------------------------------------------------------------
# (ii) shape preservation in Fill mode and in argument position

def upper(t):
    return 'called-with-%s' % type(t).__name__


def gen_lit(draw, d, cyc_ok, depth_idx=0):
    S_ = st.sampled_from
    if d <= 0 or draw(st.integers(0, 9)) < 3:
        k = draw(S_(['T', 'T', 'Spec', 'Val', 's', 'i', 'fn', 'none', 'Tpath', 'Spec-str', 'Spec-dict', 'Auto-str', 'Fill-str']))
        if k == 's':
            return ['s', draw(S_(['a', 'x', 'a.b', '']))]
        if k == 'i':
            return ['i', draw(st.integers(0, 5))]
        if k == 'Val':
            return ['Val', draw(S_([['s', 'v'], ['list', [['i', 1]]], ['i', 7]]))]
        return [k]
    kind = draw(S_(['dict', 'list', 'list', 'tuple', 'set', 'fset']))
    n = draw(st.integers(0, 3))
    if kind == 'dict':
        keys = draw(st.lists(S_(['x', 'y', 'z', 'Tkey', 'TupleKey', 'FsetKey']), min_size=n, max_size=n, unique=True))
        return ['dict', [[key, gen_lit(draw, d - 1, cyc_ok, depth_idx + 1)] for key in keys]]
    if kind in ('set', 'fset'):
        return [kind, [draw(S_([['s', 'a'], ['i', 1], ['T-scalar'], ['Val', ['i', 7]], ['s', 'x'], ['Spec-str']])) for _ in range(n)]]
    items = [gen_lit(draw, d - 1, cyc_ok, depth_idx + 1) for _ in range(n)]
    if kind == 'list' and cyc_ok and draw(st.integers(0, 3)) == 0:
        items.insert(draw(st.integers(0, len(items))), ['cyc', draw(st.integers(0, depth_idx))])
    return [kind, items]


POSITIONS = ['fill', 'coalesce-default', 'match-default', 'switch-default', 'check-default', 'and-default', 'or-default',
             'call-arg', 'call-kwarg', 't-call-arg', 's-bind', 'assign-value', 'check-validate-default']


OUTERS = ['none', 'none', 'auto', 'fill', 'match', 'group']
MODAL = ('Spec-str', 'Spec-dict')


def gen_shape(draw):
    S_ = st.sampled_from
    pos = draw(S_(POSITIONS + ['match-default']))
    lit = gen_lit(draw, draw(S_([1, 2, 3, 4])), pos != 'fill')
    if lit[0] not in ('dict', 'list', 'tuple', 'set', 'fset'):
        lit = ['list', [lit]]
    outer = draw(S_(OUTERS))
    if draw(S_([True, False, False])):
        # constructed class: a leaf whose value depends on the mode it is evaluated in (Spec('name'), Spec({'k': 'name'}))
        # somewhere in the literal - an argument is evaluated in the mode in force AROUND the spec it belongs to
        leaf = [draw(S_(MODAL))]
        if draw(S_([False, True])):
            leaf = [draw(S_(['list', 'tuple'])), [leaf, ['s', 'name']]]
        if lit[0] == 'dict':
            lit = ['dict', [kv for kv in lit[1] if kv[0] != 'm'] + [['m', leaf]]]
        elif lit[0] in ('set', 'fset'):
            lit = [lit[0], lit[1] + [['Spec-str']]]
        else:
            items = list(lit[1])
            items.insert(draw(S_(range(len(items) + 1))), leaf)
            lit = [lit[0], items]
    return {'position': pos, 'lit': lit, 'outer': outer}


def shape_target():
    return {'n': 5, 'name': 'nm', 'xs': [1, 2], 'f': lambda *a, **kw: (a, kw), 'slot': None}


class Builder(object):
    """builds the literal container; cycles refer to enclosing lists/dicts by nesting index"""
    def __init__(self, fill):
        self.fill = fill
        self.stack = []

    def build(self, r):
        k = r[0]
        if k == 'T':
            return T
        if k == 'Tpath':
            return T['xs']
        if k == 'T-scalar':
            return T['n']
        if k == 'Spec':
            return Spec(T['name'])
        if k == 'Spec-str':
            return Spec('name')
        if k == 'Spec-dict':
            return Spec({'k': 'name'})
        if k == 'Auto-str':
            return Auto('name')
        if k == 'Fill-str':
            return Fill('name')
        if k == 'Val':
            return Val(tg.build(r[1]).obj)
        if k == 's' or k == 'i':
            return r[1]
        if k == 'none':
            return None
        if k == 'fn':
            return upper
        if k == 'cyc':
            if not self.stack:
                return None
            return self.stack[min(r[1], len(self.stack) - 1)]
        if k == 'dict':
            d = {}
            self.stack.append(d)
            for key, v in r[1]:
                d[{'Tkey': T['name'], 'TupleKey': (T['name'], 'x', (T['n'],)), 'FsetKey': frozenset([T['n'], 'y'])}.get(key, key)] = self.build(v)
            self.stack.pop()
            return d
        if k == 'list':
            l = []
            self.stack.append(l)
            for v in r[1]:
                l.append(self.build(v))
            self.stack.pop()
            return l
        if k == 'tuple':
            return tuple(self.build(v) for v in r[1])
        if k == 'set':
            return set(self.build(v) for v in r[1])
        if k == 'fset':
            return frozenset(self.build(v) for v in r[1])
        raise ValueError(r)


class RefBuilder(object):
    """the value the literal denotes for `target` in Fill mode / in argument position; `mode` is the mode in force
    around the spec the literal is an argument of (or 'fill' for the Fill position): a Spec leaf is an ordinary spec
    evaluated in that mode, a mode wrapper leaf brings its own"""
    def __init__(self, fill, target, mode='auto'):
        self.fill, self.target, self.mode = fill, target, mode
        self.stack = []

    def modal(self, wrapped_dict):
        t, mode = self.target, self.mode
        if mode == 'auto':
            return {'k': t['name']} if wrapped_dict else t['name']
        if mode == 'fill':
            return {'k': 'name'} if wrapped_dict else 'name'
        if mode == 'match':
            raise Err('MatchError')       # the target is neither == 'name' nor a dict with the one key 'k'
        if mode == 'group':
            raise Err('BadSpec')          # a bare string (also as a dict key spec) is no Group spec
        raise ValueError(mode)

    def build(self, r):
        k = r[0]
        t = self.target
        if k == 'T':
            return t
        if k == 'Tpath':
            return t['xs']
        if k == 'T-scalar':
            return t['n']
        if k == 'Spec':
            return t['name']
        if k == 'Spec-str':
            return self.modal(False)
        if k == 'Spec-dict':
            return self.modal(True)
        if k == 'Auto-str':
            return t['name']
        if k == 'Fill-str':
            return 'name'
        if k == 'Val':
            return tg.build(r[1]).obj
        if k == 's' or k == 'i':
            return r[1]
        if k == 'none':
            return None
        if k == 'fn':
            return upper(t) if self.fill else upper
        if k == 'cyc':
            if not self.stack:
                return None
            return self.stack[min(r[1], len(self.stack) - 1)]
        if k == 'dict':
            d = {}
            self.stack.append(d)
            for key, v in r[1]:
                d[{'Tkey': t['name'], 'TupleKey': (t['name'], 'x', (t['n'],)), 'FsetKey': frozenset([t['n'], 'y'])}.get(key, key)] = self.build(v)
            self.stack.pop()
            return d
        if k == 'list':
            l = []
            self.stack.append(l)
            for v in r[1]:
                l.append(self.build(v))
            self.stack.pop()
            return l
        if k == 'tuple':
            return tuple(self.build(v) for v in r[1])
        if k == 'set':
            return set(self.build(v) for v in r[1])
        if k == 'fset':
            return frozenset(self.build(v) for v in r[1])
        raise ValueError(r)


def iso(a, b, seen=None):
    """graph isomorphism of two possibly cyclic container structures (parallel DFS)"""
    seen = {} if seen is None else seen
    if isinstance(a, (list, dict)) or isinstance(b, (list, dict)):
        if type(a) is not type(b):
            return False
        if id(a) in seen:
            return seen[id(a)] == id(b)
        seen[id(a)] = id(b)
        if isinstance(a, list):
            return len(a) == len(b) and all(iso(x, y, seen) for x, y in zip(a, b))
        return list(a.keys()) == list(b.keys()) and all(iso(a[k], b[k], seen) for k in a)
    if type(a) is not type(b):
        return False
    if isinstance(a, tuple):
        return len(a) == len(b) and all(iso(x, y, seen) for x, y in zip(a, b))
    if isinstance(a, (set, frozenset)):
        return a == b
    if callable(a) and not isinstance(a, type):
        return a is b
    return a == b


def place(position, lit, outer='none'):
    """(spec, extractor) putting the literal container into the given position, the whole under the mode wrapper `outer`"""
    spec, extract = place_bare(position, lit, outer != 'none')
    if outer != 'none':
        spec = WRAPPERS[outer](spec)
    return spec, extract


def place_bare(position, lit, chained):
    first = lambda r: r
    chain = Pipe if chained else (lambda *steps: steps)      # a tuple is a chain in Auto mode only
    if position == 'fill':
        return Fill(lit), first
    if position == 'coalesce-default':
        return Coalesce(T['nope'], default=lit), first
    if position == 'match-default':
        return Match(int, default=lit), first
    if position == 'switch-default':
        return Switch([(M == 'never', T)], default=lit), first
    if position == 'check-default':
        return Check(type=int, default=lit), first
    if position == 'check-validate-default':
        return Check(validate=lambda t: False, default=lit), first
    if position == 'and-default':
        return And(M == 'never', default=lit), first
    if position == 'or-default':
        return Or(M == 'never', M == 'nope', default=lit), first
    if position == 'call-arg':
        return Call(lambda x: x, args=(lit,)), first
    if position == 'call-kwarg':
        return Call(lambda **kw: kw['p'], kwargs={'p': lit}), first
    if position == 't-call-arg':
        return T['f'](lit, q=lit), (lambda r: (r[0][0], r[1]['q']))
    if position == 's-bind':
        return chain(S(v=lit), S.v), first
    if position == 'assign-value':
        return chain(Assign('slot', lit), T['slot']), first
    raise ValueError(position)


def has_cycle(r):
    return "'cyc'" in repr(r)


def has_modal(r):
    s = repr(r)
    return "'Spec-str'" in s or "'Spec-dict'" in s


def check_shape(recipe, ctx):
    pos, lit = recipe['position'], recipe['lit']
    outer = recipe.get('outer', 'none')
    fill = pos == 'fill'
    item = shape_target()
    target = [item] if outer == 'group' else item        # Group evaluates its spec on every item: one item, the usual target
    literal = Builder(fill).build(lit)
    # the mode a Spec leaf is read in: Fill's own for the Fill position, else the mode around the spec whose argument it is
    mode = 'fill' if fill else 'auto' if outer == 'none' else outer
    try:
        expected = ('ok', RefBuilder(fill, item, mode).build(lit))
    except Err as e:
        expected = ('err', e.cat)
    spec, extract = place(pos, literal, outer)
    ctx.label('position-' + pos, 'outer-' + outer, 'exp-' + expected[0])
    cyc = has_cycle(lit)
    modal = has_modal(lit)
    if cyc:
        ctx.label('cyclic')
    if modal:
        ctx.label('modal-leaf')
        if not fill:
            ctx.label('modal-leaf-in-argument')
        if pos == 'match-default':
            ctx.label('modal-leaf-in-match-default')
            if outer in ('none', 'auto', 'fill'):
                ctx.label('modal-leaf-in-match-default-ok')
    ctx.nontrivial(cyc or modal or len(repr(lit)) > 60)
    where = 'position=%s outer=%s literal=%r' % (pos, outer, lit)
    try:
        got = glom.glom(target, spec)
    except RecursionError:
        raise Mismatch('non-termination', '%s: RecursionError' % where)
    except GlomError as e:
        if expected == ('err', category(e)):
            ctx.outcome([pos, outer, expected])
            return
        raise Mismatch('unexpected-error', '%s: expected %s, got %s: %s' % (
            where, safe_repr(expected), type(e).__name__, str(e).splitlines()[-1][:200]))
    except Exception as e:
        raise Mismatch('unexpected-error', '%s: %s: %s' % (where, type(e).__name__, str(e).splitlines()[-1][:200]))
    got = extract(got)
    if expected[0] == 'err':
        raise Mismatch('missing-error', '%s: expected %s, got %s' % (where, expected[1], safe_repr(got)))
    expected = expected[1]
    results = got if pos == 't-call-arg' else (got,)
    for g in results:
        if not iso(expected, g):
            raise Mismatch('shape', '%s: expected %s, got %s' % (where, safe_repr(expected), safe_repr(g)))
        if isinstance(g, (list, dict)) and g is literal:
            raise Mismatch('not-rebuilt', '%s: the result is the spec container itself' % where)
    ctx.outcome([pos, outer, safe_repr(expected)[:100]])


def safe_repr(v):
    try:
        return repr(v)
    except RecursionError:
        return '<unprintable>'


# ---------------------------------------------------------------------------
# (iii) mode discipline inside Group: a mode wrapper (Group, Auto, Fill, Match) as a Pipe step / Switch key of a spec that an
# enclosing Group evaluates per item, FOLLOWED by further Group-mode steps ([..] collects, {key: ..} buckets, Sum()/Max()/..
# aggregate).  "Everything outside it (later ... Pipe steps, ... other Switch cases) is evaluated in the mode that was in
# force before": the later step collects / buckets / aggregates over the items of the ENCLOSING Group, whatever the wrapper
# before it did with the one item it saw.  (A tuple is no chain in Group mode - it is a BadSpec - so chains are Pipes, Switches
# and the sub-spec of an aggregator.)
#
# value kinds (type-directed generation): row = {'n': int, 'vals': [int, ...]}, ints = non-empty list of ints, num, other

def inc(x):
    return x + 1


def snap(x):
    """a deep copy: what a level's accumulator held at the moment the step saw it"""
    return copy.deepcopy(x)


def _same(k):
    return k


def _accepts(accepted, kind):
    """'acc' = the accumulator a {..} / [..] / Limit level returns (a dict or a list): sized, and else like 'other'"""
    return kind in accepted or (kind == 'acc' and 'other' in accepted)


def _const(k):
    return lambda _k: k


# wrapper steps with a fixed inner spec: name -> (build, reference, accepted input kinds, output kind)
def _match_fail(x):
    raise Err('MatchError')


WRAPSTEPS = {
    'auto-vals':  (lambda: Auto('vals'),               lambda x: x['vals'],            ('row',), _const('ints')),
    'auto-n':     (lambda: Auto('n'),                  lambda x: x['n'],               ('row',), _const('num')),
    'auto-chain': (lambda: Auto(('vals', len)),        lambda x: len(x['vals']),       ('row',), _const('num')),
    'auto-tuple-group': (lambda: Auto(('vals', Group(Sum()))), lambda x: sum(x['vals']), ('row',), _const('num')),
    'auto-dict':  (lambda: Auto({'k': 'n'}),           lambda x: {'k': x['n']},        ('row',), _const('other')),
    'auto-sum':   (lambda: Auto(sum),                  lambda x: sum(x),               ('ints',), _const('num')),
    'auto-each':  (lambda: Auto([inc]),                lambda x: [v + 1 for v in x],   ('ints',), _const('ints')),
    'auto-T':     (lambda: Auto(T),                    lambda x: x,                    ('row', 'ints', 'num', 'other'), _same),
    'fill-T':     (lambda: Fill(T),                    lambda x: x,                    ('row', 'ints', 'num', 'other'), _same),
    'fill-n':     (lambda: Fill(T['n']),               lambda x: x['n'],               ('row',), _const('num')),
    'fill-list':  (lambda: Fill([T]),                  lambda x: [x],                  ('row', 'ints', 'num', 'other'), _const('other')),
    'fill-str':   (lambda: Fill('vals'),               lambda x: 'vals',               ('row', 'ints', 'num', 'other'), _const('other')),
    'match-row':  (lambda: Match({'n': int, 'vals': [int]}), lambda x: x,              ('row',), _same),
    'match-ints': (lambda: Match([int]),               lambda x: x,                    ('ints',), _same),
    'match-num':  (lambda: Match(int),                 lambda x: x,                    ('num',), _same),
    'match-fail': (lambda: Match(str),                 _match_fail,                    ('row', 'ints', 'num'), _same),
}
# steps that are no wrappers and read the same in every mode: T expressions, and callables (called with the item in Group mode)
PLAINSTEPS = {
    't-vals': (lambda: T['vals'],  lambda x: x['vals'],  ('row',), _const('ints')),
    't-n':    (lambda: T['n'],     lambda x: x['n'],     ('row',), _const('num')),
    't-mod2': (lambda: T % 2,      lambda x: x % 2,      ('num',), _const('num')),
    'fn-len': (lambda: len,        lambda x: len(x),     ('row', 'ints', 'acc'), _const('num')),
    'fn-snap': (lambda: snap,      lambda x: snap(x),    ('acc',), _same),
    'fn-inc': (lambda: inc,        lambda x: x + 1,      ('num',), _const('num')),
    'fn-sum': (lambda: sum,        lambda x: sum(x),     ('ints',), _const('num')),
}
AGGS = {   # name -> (build, initial accumulator, step)
    'sum':   (lambda: Sum(),   lambda: 0,    lambda acc, x: acc + x),
    'max':   (lambda: gg.Max(), lambda: None, lambda acc, x: x if acc is None or x > acc else acc),
    'min':   (lambda: gg.Min(), lambda: None, lambda acc, x: x if acc is None or x < acc else acc),
    'count': (lambda: Count(), lambda: 0,    lambda acc, x: acc + 1),
}
_STOP = object()
LEVELS = ('dict', 'limit', 'list')     # steps that return the accumulator they keep for the enclosing Group


class GroupRun(object):
    """one evaluation of Group(post) over `items`, as a hand-written loop: every collecting / bucketing / aggregating node of
    the spec owns one accumulator per bucket path, which lives as long as this Group runs and is updated once per item the
    node gets to see - wherever the node stands in its chain: a step that follows a {key: ..} level, a Limit or a [..] level
    in a Pipe is fed once per item of the enclosing Group like any other (the bucket a level sorted the item into is for that
    level's value spec only); the Group returns what its spec returned for the last item (for First: the first).
    `stats` (shared with nested runs) records, for the labels, which levels were followed by an accumulating step and how
    many buckets / items they saw."""
    def __init__(self, stats=None):
        self.accs = {}
        self.stats = stats if stats is not None else {'runs': 0, 'keys': {}, 'dicts': {}, 'followed': set(), 'limit-hit': set()}
        self.stats['runs'] += 1
        self.rid = self.stats['runs']

    def run(self, post, items):
        top = post
        while top[0] == 'limit':      # (a limited dict / list starts out empty, too)
            top = top[2] or ['list', ['T']]
        ret = {} if top[0] == 'dict' else [] if top[0] == 'list' else None
        for x in items:
            last, ret = ret, self.ev(post, x, (), ())
            if ret is _STOP:
                return last
        return ret

    def acc(self, path, bucket, init):
        key = (path, bucket)
        if key not in self.accs:
            self.accs[key] = init()
        return self.accs[key]

    def pure(self, n, x):
        """steps whose result is a function of the one value they receive"""
        k = n[0]
        if k == 'plain':
            return PLAINSTEPS[n[1]][1](x)
        if k == 'wrap':
            if n[1] == 'group':
                # a Group nested in the chain is a complete Group of its own over the value it receives
                if isinstance(x, (str, bytes, dict)) or not hasattr(x, '__iter__'):
                    raise ValueError('generator: nested Group over %r' % (x,))
                return GroupRun(self.stats).run(n[2], list(x))
            return WRAPSTEPS[n[1]][1](x)
        if k == 'fold':
            # Sum() below an aggregator of the same Group is an ordinary fold of the value it receives
            return sum(x)
        raise ValueError(n)

    def ev(self, n, x, path, bucket):
        k = n[0]
        if k in ('plain', 'wrap', 'fold'):
            return self.pure(n, x)
        if k == 'T':
            return x
        if k == 'list':
            r = self.ev(n[1], x, path + (0,), bucket)
            if r is _STOP:
                raise HarnessBug('generator: STOP below a list level is not modelled: %r' % (n,))
            acc = self.acc(path, bucket, list)
            acc.append(r)
            return acc
        if k == 'dict':
            key = x
            for i, step in enumerate(n[1]):
                key = self.ev(step, key, path + ('k', i), bucket)
            self.stats['keys'].setdefault((self.rid, path, bucket), set()).add(key)
            self.stats['dicts'].setdefault((self.rid, bucket), set()).add(path)
            r = self.ev(n[2], x, path + ('v',), bucket + (key,))
            if r is _STOP:
                raise HarnessBug('generator: STOP below a dict level is not modelled: %r' % (n,))
            acc = self.acc(path, bucket, dict)
            acc[key] = r
            return acc
        if k == 'limit':
            # Limit(n, sub): the first n items it gets to see go to sub (default [T]), then it answers STOP
            key = (path, bucket, 'limit')
            self.accs[key] = self.accs.get(key, 0) + 1
            if self.accs[key] > n[1]:
                self.stats['limit-hit'].add((self.rid, path, bucket))
                return _STOP
            return self.ev(n[2] or ['list', ['T']], x, path + ('l',), bucket)
        if k == 'agg':
            key = (path, bucket)
            init, step = AGGS[n[1]][1], AGGS[n[1]][2]
            self.accs[key] = step(self.accs[key] if key in self.accs else init(), x)
            return self.accs[key]
        if k == 'aggsub':
            # Sum(subspec) / Max-like aggregators with a sub-spec: aggregate subspec(item)
            v = x
            for i, step in enumerate(n[2]):
                v = self.ev(step, v, path + (i,), bucket)
            key = (path, bucket)
            self.accs[key] = (self.accs[key] if key in self.accs else 0) + v
            return self.accs[key]
        if k == 'first':
            key = (path, bucket)
            if key in self.accs:
                return _STOP
            self.accs[key] = True
            return x
        if k == 'pipe':
            cur = x
            for i, step in enumerate(n[1]):
                if step[0] in LEVELS and any(gc_accumulates(later) for later in n[1][i + 1:]):
                    self.stats['followed'].add((self.rid, path + (i,), bucket, step[0], 'level-then-accumulating-step'))
                r = self.ev(step, cur, path + (i,), bucket)
                if r is _STOP:
                    break             # "halt ... execution of a tuple of subspecs": the chain ends with the value it has
                cur = r
            return cur
        if k == 'switch':
            for i, (key, val) in enumerate(n[1]):
                if key[0] in LEVELS and gc_accumulates(val):
                    self.stats['followed'].add((self.rid, path + (i, 'k'), bucket, key[0], 'level-key-then-accumulating-value'))
                try:
                    r = self.ev(key, x, path + (i, 'k'), bucket)
                except Err:
                    continue
                if r is _STOP:
                    raise HarnessBug('generator: STOP from a Switch key is not modelled: %r' % (n,))
                return self.ev(val, x, path + (i, 'v'), bucket)
            raise Err('MatchError')
        raise ValueError(n)


def gc_build(n):
    k = n[0]
    if k == 'plain':
        return PLAINSTEPS[n[1]][0]()
    if k == 'wrap':
        if n[1] == 'group':
            return Group(gc_build(n[2]))
        return WRAPSTEPS[n[1]][0]()
    if k == 'fold':
        return Sum()
    if k == 'T':
        return T
    if k == 'list':
        return [gc_build(n[1])]
    if k == 'dict':
        steps = [gc_build(c) for c in n[1]]
        key = T if not steps else steps[0] if len(steps) == 1 else Pipe(*steps)
        return {key: gc_build(n[2])}
    if k == 'limit':
        return gg.Limit(n[1]) if n[2] is None else gg.Limit(n[1], gc_build(n[2]))
    if k == 'agg':
        return AGGS[n[1]][0]()
    if k == 'aggsub':
        steps = [gc_build(c) for c in n[2]]
        return Sum(steps[0] if len(steps) == 1 else Pipe(*steps))
    if k == 'first':
        return gg.First()
    if k == 'pipe':
        return Pipe(*[gc_build(c) for c in n[1]])
    if k == 'switch':
        return Switch([(gc_build(a), gc_build(b)) for a, b in n[1]])
    raise ValueError(n)


def gc_accumulates(n):
    """does evaluating this node update an accumulator of the Group it is (directly) part of"""
    k = n[0]
    if k in ('list', 'dict', 'agg', 'aggsub', 'limit'):
        return True
    if k == 'pipe':
        return any(gc_accumulates(c) for c in n[1])
    if k == 'switch':
        return any(gc_accumulates(b) for _, b in n[1])
    return False


def gen_gc_step(draw, kind, d, allow_fail=True):
    """one step whose result depends on its input only; -> (node, output kind)"""
    S_ = st.sampled_from
    opts = [('plain', nm) for nm, v in sorted(PLAINSTEPS.items()) if _accepts(v[2], kind)]
    wraps = [('wrap', nm) for nm, v in sorted(WRAPSTEPS.items()) if _accepts(v[2], kind) and (allow_fail or nm != 'match-fail')]
    opts += wraps + wraps
    if kind == 'ints' and d > 0:
        opts += [('wrap', 'group')] * 4
    what, nm = draw(S_(opts))
    if what == 'plain':
        return ['plain', nm], PLAINSTEPS[nm][3](kind)
    if nm == 'group':
        post, okind = gen_gc_post(draw, 'num', d - 1, top=True)
        return ['wrap', 'group', post], okind
    return ['wrap', nm], WRAPSTEPS[nm][3](kind)


def gen_gc_steps(draw, kind, d, lo, hi, allow_fail=True):
    steps = []
    for _ in range(draw(st.sampled_from(range(lo, hi + 1)))):
        node, kind = gen_gc_step(draw, kind, d, allow_fail)
        steps.append(node)
    return steps, kind


def gen_gc_key(draw, kind, d):
    """the key spec of a bucketing dict: steps giving a hashable value"""
    S_ = st.sampled_from
    if kind == 'num':
        return draw(S_([[], [['plain', 't-mod2']], [['wrap', 'fill-T']], [['plain', 'fn-inc'], ['wrap', 'match-num']]]))
    if kind == 'row':
        return draw(S_([[['plain', 't-n']], [['wrap', 'auto-n']], [['wrap', 'auto-chain']], [['plain', 't-vals'], ['wrap', 'group', ['agg', 'sum']]],
                        [['wrap', 'match-row'], ['wrap', 'fill-n']]]))
    if kind == 'ints':
        return draw(S_([[['plain', 'fn-len']], [['wrap', 'auto-sum']], [['wrap', 'group', ['agg', 'max']]], [['wrap', 'group', ['first']]]]))
    if kind == 'acc':
        return [['plain', 'fn-len']]
    return None


def gen_gc_post(draw, kind, d, top=False):
    """a Group-mode spec for items of `kind`; -> (node, kind of the value it returns per item)"""
    S_ = st.sampled_from
    opts = ['list', 'list', 'agg']
    if kind != 'other':
        opts += ['dict']
    if kind in ('row', 'ints'):
        opts += ['aggsub']
    if d > 0:
        opts += ['pipe', 'pipe', 'pipe', 'switch']
    if top and kind == 'num':
        opts += ['first']
    what = draw(S_(opts))
    if what == 'first':
        return ['first'], 'num'
    if what == 'agg':
        return ['agg', draw(S_(['sum', 'max', 'min', 'count'] if kind == 'num' else ['count']))], 'num'
    if what == 'list':
        if d > 0 and draw(S_([True, False, False])):
            elem, ek = gen_gc_post(draw, kind, d - 1)
            if elem[0] != 'dict':                 # (a dict inside a list is refused in Group mode)
                return ['list', elem], 'other'
        steps, ek = gen_gc_steps(draw, kind, d - 1, 0, 1)
        elem = ['T'] if not steps else steps[0]
        return ['list', elem], ('ints' if ek == 'num' else 'other')
    if what == 'dict':
        val, _ = gen_gc_post(draw, kind, d - 1)
        return ['dict', gen_gc_key(draw, kind, d), val], 'other'
    if what == 'aggsub':
        # the aggregator's sub-spec: a chain down to a number; Sum() inside it is a plain fold
        steps = [['plain', 't-vals']] if kind == 'row' else []
        tail = draw(S_(['group-sum', 'group-list-fold', 'fold', 'auto-sum', 'group-max', 'fill-fold']))
        steps += {'group-sum': [['wrap', 'group', ['agg', 'sum']]],
                  'group-max': [['wrap', 'group', ['agg', 'max']], ['wrap', 'match-num']],
                  'group-list-fold': [['wrap', 'group', ['list', ['T']]], ['fold']],
                  'fold': [['fold']],
                  'fill-fold': [['wrap', 'fill-T'], ['fold']],
                  'auto-sum': [['wrap', 'auto-sum']]}[tail]
        return ['aggsub', 'sum', steps], 'num'
    if what == 'pipe':
        steps, k2 = gen_gc_steps(draw, kind, d, 1, 2)
        last, ok = gen_gc_post(draw, k2, d - 1)
        return ['pipe', steps + [last]], ok
    cases = []
    oks = set()
    for _ in range(draw(S_([1, 1, 2]))):
        key, _k = gen_gc_step(draw, kind, d)
        val, ok = gen_gc_post(draw, kind, d - 1)
        cases.append([key, val])
        oks.add(ok)
    return ['switch', cases], (oks.pop() if len(oks) == 1 else 'other')


def gen_gc_nested(draw):
    """constructed class: T['vals'] -> Group(<inner>) -> <a step that accumulates in the enclosing Group>, chained by a Pipe
    or as key and value of a Switch case, at top level / below a bucket / as the element of a list"""
    S_ = st.sampled_from
    inner, ikind = gen_gc_post(draw, 'num', draw(S_([0, 0, 1])), top=True)
    inner_step = ['wrap', 'group', inner]
    d = draw(S_([0, 0, 1]))
    via = draw(S_(['pipe', 'pipe', 'switch', 'switch-pipe', 'pipe-more', 'aggsub-fold']))
    if via == 'aggsub-fold':
        # below an aggregator Sum() is a plain fold - also after a nested Group, which has aggregators of its own
        inner = draw(S_([['list', ['T']], ['list', ['plain', 'fn-inc']], ['list', ['wrap', 'fill-T']]]))
        steps = [['plain', 't-vals'], ['wrap', 'group', inner]]
        if draw(S_([True, False, False])):
            steps.append(['wrap', draw(S_(['match-ints', 'auto-each', 'fill-T']))])
        chain = ['aggsub', 'sum', steps + [['fold']]]
    elif via == 'pipe':
        post, _ = gen_gc_post(draw, ikind, d)
        chain = ['pipe', [['plain', 't-vals'], inner_step, post]]
    elif via == 'pipe-more':
        mid, k2 = gen_gc_steps(draw, ikind, 0, 1, 1, allow_fail=False)
        post, _ = gen_gc_post(draw, k2, d)
        chain = ['pipe', [['plain', 't-vals'], inner_step] + mid + [post]]
    elif via == 'switch':
        post, _ = gen_gc_post(draw, 'ints', d)
        cases = [[inner_step, post]]
        if draw(S_([True, False])):
            cases.insert(0, [['wrap', 'match-fail'], ['list', ['T']]])
        chain = ['pipe', [['plain', 't-vals'], ['switch', cases]]]
    else:
        post, _ = gen_gc_post(draw, 'row', d)
        chain = ['switch', [[['pipe', [['plain', 't-vals'], inner_step]], post]]]
    around = draw(S_(['top', 'top', 'bucket', 'list']))
    if around == 'bucket':
        return ['dict', gen_gc_key(draw, 'row', 1), chain]
    if around == 'list' and chain[0] != 'dict':
        return ['list', chain]
    return chain


def gen_groupchain(draw):
    S_ = st.sampled_from
    nrows = draw(S_([0, 1, 2, 2, 3, 3, 4]))
    rows = [[draw(S_([0, 1, 2])), draw(st.lists(S_(range(5)), min_size=1, max_size=3))] for _ in range(nrows)]
    form = draw(S_(['free', 'free', 'nested', 'nested', 'nested']))
    if form == 'nested':
        spec = gen_gc_nested(draw)
    else:
        spec, _ = gen_gc_post(draw, 'row', draw(S_([1, 2, 2, 3])))
    return {'rows': rows, 'spec': spec}


def gen_gc_level(draw):
    """constructed class (F104): a chain inside Group in which a LEVEL step - {key: ..} bucketing, Limit(n, ..), [..] collecting -
    is FOLLOWED by steps that accumulate in the same Group: Pipe(.., level, [len | snap | Fill(T) ..], collecting / bucketing /
    aggregating step), or the level as a Switch key with an accumulating value; the items are the rows, their 'n', or - inside
    a nested Group - the ints of their 'vals'; at top level / below a bucket / as a list element"""
    S_ = st.sampled_from
    src = draw(S_(['row', 'row', 'n', 'n', 'vals']))
    kind = 'row' if src == 'row' else 'num'
    what = draw(S_(['dict', 'dict', 'dict', 'dict', 'limit', 'limit', 'list']))
    if what == 'dict':
        val, _ = gen_gc_post(draw, kind, draw(S_([0, 0, 1])))
        level, lkind = ['dict', gen_gc_key(draw, kind, 1), val], 'acc'
    elif what == 'limit':
        sub = draw(S_([None, ['list', ['T']], 'dict', 'dict']))
        if sub == 'dict':
            val, _ = gen_gc_post(draw, kind, 0)
            sub = ['dict', gen_gc_key(draw, kind, 1), val]
        level, lkind = ['limit', draw(S_([1, 2, 3, 5])), sub], 'acc'
    else:
        steps, ek = gen_gc_steps(draw, kind, 0, 0, 1, allow_fail=False)
        level, lkind = ['list', steps[0] if steps else ['T']], 'acc'
    via = draw(S_(['pipe', 'pipe', 'pipe', 'switch']))
    # constructed class (F108): a SECOND dict level in the same chain - both levels keep their buckets in the same Group, and
    # their keys are equal: the same key spec on the same item (Switch key and value), or the number of buckets so far
    twin = what == 'dict' and draw(S_([True, False, False]))
    if via == 'switch' and what != 'limit':      # (a Limit key would answer STOP to the Switch: only modelled for chains)
        # the level is the key of a Switch case: the value sees the item, and accumulates in the enclosing Group
        post, _ = gen_gc_post(draw, kind, draw(S_([0, 0, 1])))
        if twin:
            val2, _ = gen_gc_post(draw, kind, 0)
            post = ['dict', level[1], val2]
        chain = [['switch', [[level, post]]]]
    elif twin:
        val2, _ = gen_gc_post(draw, 'num', 0)
        if draw(S_([True, False])):
            chain = [level, ['dict', [['plain', 'fn-len']], draw(S_([['list', ['T']], ['list', ['plain', 'fn-snap']], ['agg', 'count']]))]]
        else:
            chain = [level, ['plain', 'fn-len'], ['dict', draw(S_([[], [['wrap', 'fill-T']]])), val2]]
    else:
        mid = draw(S_([[], [], [['plain', 'fn-len']], [['plain', 'fn-len']], [['plain', 'fn-snap']], [['wrap', 'fill-T']], [['wrap', 'auto-T']]]))
        k2 = 'num' if mid and mid[0][1] == 'fn-len' else lkind
        post = draw(S_([None, None, ['agg', 'count'], ['list', ['plain', 'fn-snap']]])) if k2 == 'acc' else None
        if post is None:
            post, _ = gen_gc_post(draw, k2, draw(S_([0, 0, 1])))
        chain = [level] + mid + [post]
    if src == 'row':
        chain = ['pipe', chain] if len(chain) > 1 else chain[0]
    elif src == 'n':
        chain = ['pipe', [['plain', 't-n']] + chain]
    else:
        # the whole chain runs inside a nested Group over the ints of 'vals'; the enclosing Group goes on after it
        inner = ['pipe', chain] if len(chain) > 1 else chain[0]
        outer, _ = gen_gc_post(draw, 'other', 0)
        chain = ['pipe', [['plain', 't-vals'], ['wrap', 'group', inner], outer]]
    around = draw(S_(['top', 'top', 'bucket', 'list']))
    if around == 'bucket':
        return ['dict', gen_gc_key(draw, 'row', 1), chain]
    if around == 'list' and chain[0] != 'dict':
        return ['list', chain]
    return chain


def gen_grouplevel(draw):
    S_ = st.sampled_from
    nrows = draw(S_([1, 2, 3, 3, 4, 4, 5]))
    rows = [[draw(S_([0, 1, 2])), draw(st.lists(S_(range(5)), min_size=1, max_size=3))] for _ in range(nrows)]
    return {'rows': rows, 'spec': gen_gc_level(draw)}


def gc_chain_classes(n, acc, in_chain_after=None):
    """labels: which mode wrapper is followed, in the same chain, by a step that accumulates in the enclosing Group"""
    k = n[0]
    if k == 'pipe':
        for i, c in enumerate(n[1]):
            if c[0] == 'wrap' and any(gc_accumulates(later) for later in n[1][i + 1:]):
                acc.add('%s-then-accumulating-step' % ('nested-group' if c[1] == 'group' else c[1].split('-')[0]))
            gc_chain_classes(c, acc)
    elif k == 'switch':
        for key, val in n[1]:
            wrappers = [key] if key[0] == 'wrap' else [c for c in key[1] if c[0] == 'wrap'] if key[0] == 'pipe' else []
            for w in wrappers:
                if gc_accumulates(val):
                    acc.add('%s-key-then-accumulating-value' % ('nested-group' if w[1] == 'group' else w[1].split('-')[0]))
            gc_chain_classes(key, acc)
            gc_chain_classes(val, acc)
    elif k == 'aggsub':
        for i, c in enumerate(n[2]):
            if c[0] == 'wrap' and c[1] == 'group' and any(later[0] == 'fold' for later in n[2][i + 1:]):
                acc.add('nested-group-then-fold-below-aggregator')
            gc_chain_classes(c, acc)
    elif k == 'list':
        gc_chain_classes(n[1], acc)
    elif k == 'dict':
        for c in n[1]:
            gc_chain_classes(c, acc)
        gc_chain_classes(n[2], acc)
    elif k == 'wrap' and n[1] == 'group':
        gc_chain_classes(n[2], acc)
    return acc


def typed_eq(a, b):
    if type(a) is not type(b):
        return False
    if isinstance(a, (list, tuple)):
        return len(a) == len(b) and all(typed_eq(x, y) for x, y in zip(a, b))
    if isinstance(a, dict):
        return list(a.keys()) == list(b.keys()) and all(typed_eq(a[k], b[k]) for k in a)
    return a == b


def check_groupchain(recipe, ctx):
    rows = [{'n': n, 'vals': list(vals)} for n, vals in recipe['rows']]
    tree = recipe['spec']
    snap = tg.snapshot(rows)
    run = GroupRun()
    try:
        exp = ('ok', run.run(tree, rows))
    except Err as e:
        exp = ('err', e.cat)
    spec = Group(gc_build(tree))
    classes = gc_chain_classes(tree, set())
    # levels ({..}, Limit, [..]) that were followed, in their chain, by a step accumulating in the same Group
    for rid, path, bucket, kind, how in sorted(run.stats['followed'], key=repr):
        c = '%s-%s' % (kind, how)
        classes.add(c)
        if kind == 'dict' and len(run.stats['keys'].get((rid, path, bucket), ())) >= 2:
            classes.add(c + '/buckets>=2')
        if kind == 'limit' and (rid, path, bucket) in run.stats['limit-hit']:
            classes.add(c + '/limit-reached')
    # two dict levels of one Group run that file their buckets side by side (same run, same enclosing bucket) under equal keys
    for (rid, bucket), paths in sorted(run.stats['dicts'].items(), key=repr):
        paths = sorted(paths, key=repr)
        for i, p1 in enumerate(paths):
            for p2 in paths[i + 1:]:
                if run.stats['keys'][(rid, p1, bucket)] & run.stats['keys'][(rid, p2, bucket)]:
                    classes.add('two-dict-levels-side-by-side/equal-keys')
    many = len(rows) >= 2
    ctx.label('exp-' + exp[0], 'rows-%s' % ('many' if many else len(rows)))
    for c in sorted(classes):
        ctx.label(c)
        if many:
            ctx.label(c + '/rows>=2')
    if any(c.startswith('nested-group') for c in classes) and many:
        ctx.label('nested-group-then-outer-step/rows>=2')
    ctx.nontrivial(bool(classes) and many)
    where = 'glom(%r, %r)' % (rows, spec)
    try:
        got = ('ok', glom.glom(rows, spec))
    except GlomError as e:
        got = ('err', category(e))
    except Exception as e:
        got = ('err', 'non-glom:' + type(e).__name__)
    if exp[0] != got[0] or (exp[0] == 'err' and exp != got):
        raise Mismatch('group-chain-outcome', '%s: expected %r, got %r' % (where, exp, got))
    if exp[0] == 'ok' and not typed_eq(exp[1], got[1]):
        raise Mismatch('group-chain-value', '%s: expected %r, got %r' % (where, exp[1], got[1]))
    d = tg.snapshot_diff(snap, tg.snapshot(rows))
    if d:
        raise Mismatch('target-mutated', '%s: %s' % (where, d))
    ctx.outcome([repr(spec)[:160], exp if exp[0] == 'err' else repr(exp[1])[:80]])


# ---------------------------------------------------------------------------
# (iv) lazily evaluated sub-specs: a mode wrapper whose result CONTAINS Iter pipelines.  The sub-specs of the pipeline
# (Iter(sub), .map(sub), .filter(key), .takewhile(key), .unique(key)) are "nested inside" the wrapper, so they are read in the
# wrapper's mode - although they run only when the iterator is consumed, which is after the wrapper has returned: by a later
# step of the chain, by a later step of an enclosing Group's chain, or by the caller after glom() has returned.
# Reference: plain Python generators (map / filter / itertools.takewhile / a seen-set), one read function per mode.

def dbl(x):
    return x * 2


def odd(x):
    return x % 2


class Drained(object):
    """what an iterator yielded, as opposed to a list that was there from the start"""
    def __init__(self, items):
        self.items = items

    def __eq__(self, other):
        return type(other) is Drained and typed_eq(self.items, other.items)

    def __ne__(self, other):
        return not self == other

    __hash__ = None

    def __repr__(self):
        return 'iter(%r)' % (self.items,)


def _drain(v):
    """consume every iterator in a result (in order, depth first)"""
    if isinstance(v, dict):
        return dict((k, drain(x)) for k, x in v.items())
    if isinstance(v, list):
        return [drain(x) for x in v]
    if isinstance(v, tuple):
        return tuple(drain(x) for x in v)
    if hasattr(v, '__next__'):
        return Drained([drain(x) for x in v])
    return v


class _Drain(object):
    """drain() as a chain step: a plain callable (called with the target in Auto and in Group mode) with a stable repr"""
    __name__ = 'drain'

    def __call__(self, v):
        return _drain(v)

    def __repr__(self):
        return 'drain'


drain = _Drain()


# sub-specs of a pipeline; items are ints.  name -> (build, keeps-ints-in-every-mode)
LZ_SUBS = {
    'dbl':        (lambda: dbl, True),                       # a callable: called (Auto, Fill, Group) / a predicate (Match)
    'odd':        (lambda: odd, True),
    'T2':         (lambda: T * 2, True),                     # a T expression reads the same in every mode
    'Tmod':       (lambda: T % 2, True),
    'auto-dbl':   (lambda: Auto((inc, dbl)), True),          # a wrapper brings its own mode
    'auto-odd':   (lambda: Auto(odd), True),
    'match-int':  (lambda: Match(int), True),
    'fill-pair':  (lambda: Fill((inc, 'a')), False),
    'str':        (lambda: 'a', False),                      # the four readings of the probe string
    'tuple':      (lambda: (inc, dbl), False),               # chain / rebuilt tuple / positional pattern / BadSpec
}
LZ_NUM = sorted(nm for nm, v in LZ_SUBS.items() if v[1])
LZ_KEYS_ANY = ['Tmod', 'T2', 'auto-odd']
LZ_KEYS_CALL = ['odd', 'dbl']


def lz_read(name, x, mode):
    """the value of the sub-spec `name` for the int x, read in `mode`"""
    if name in ('dbl', 'odd'):
        v = dbl(x) if name == 'dbl' else odd(x)
        if mode == 'match':
            if not v:
                raise Err('MatchError')
            return x
        return v
    if name == 'T2':
        return x * 2
    if name == 'Tmod':
        return x % 2
    if name == 'auto-dbl':
        return (x + 1) * 2
    if name == 'auto-odd':
        return x % 2
    if name == 'match-int':
        return x
    if name == 'fill-pair':
        return (x + 1, 'a')
    if name == 'str':
        if mode == 'auto':
            raise Err('PathAccessError')       # an int has no attribute / item 'a'
        if mode == 'fill':
            return 'a'
        raise Err('MatchError' if mode == 'match' else 'BadSpec')
    if name == 'tuple':
        if mode == 'auto':
            return (x + 1) * 2
        if mode == 'fill':
            return (x + 1, x * 2)
        raise Err('MatchError' if mode == 'match' else 'BadSpec')
    raise ValueError(name)


def lz_ref(row, pipe, mode, count):
    """the pipeline over `row` as a plain generator; `count` counts the sub-spec readings (all of them happen on consumption)"""
    def read(name, x):
        count[0] += 1
        return lz_read(name, x, mode)

    def source():
        for x in row:
            yield x if pipe['sub'] is None else read(pipe['sub'], x)

    def stage(it, op, name):
        if op == 'map':
            for x in it:
                yield read(name, x)
        elif op == 'filter':
            for x in it:
                if read(name, x):
                    yield x
        elif op == 'takewhile':
            for x in it:
                if not read(name, x):
                    return
                yield x
        elif op == 'unique':
            seen = set()
            for x in it:
                k = read(name, x)
                if k not in seen:
                    seen.add(k)
                    yield x
        else:
            raise ValueError(op)
    it = source()
    for op, name in pipe['stages']:
        it = stage(it, op, name)
    return it


def lz_build_pipe(pipe):
    from glom import Iter
    it = Iter() if pipe['sub'] is None else Iter(LZ_SUBS[pipe['sub']][0]())
    for op, name in pipe['stages']:
        it = getattr(it, op)(LZ_SUBS[name][0]())
    return it


def _first(rows):
    if not rows:
        raise Err('PathAccessError')            # T[0] of an empty list
    return rows[0]


# (mode, form) -> (build(IT) -> the wrapper spec, reference(rows, P) -> its result with P(row) for the pipeline over a row)
def _group_bare(rows, P):
    last = None
    for row in rows:
        last = P(row)
    return last


def _group_bucket(rows, P):
    out = {}
    for row in rows:
        out.setdefault(len(row), []).append(P(row))
    return out


def _group_bucket_bare(rows, P):
    out = {}
    for row in rows:
        out[len(row)] = P(row)
    return out


LZ_FORMS = {
    # directly below the Group / below a list level: the sub-specs are read from the Group's own accumulator scope
    ('group', 'bare'):        (lambda IT: Group(IT),                    _group_bare),
    ('group', 'list'):        (lambda IT: Group([IT]),                  lambda rows, P: [P(r) for r in rows]),
    ('group', 'list-pipe'):   (lambda IT: Group([Pipe(T, IT)]),         lambda rows, P: [P(r) for r in rows]),
    ('group', 'pipe'):        (lambda IT: Group(Pipe(IT, T)),           _group_bare),
    # below a bucket / a Limit
    ('group', 'bucket'):      (lambda IT: Group({len: [IT]}),           _group_bucket),
    ('group', 'bucket-bare'): (lambda IT: Group({len: IT}),             _group_bucket_bare),
    ('group', 'limit'):       (lambda IT: Group(gg.Limit(2, [IT])),     lambda rows, P: [P(r) for r in rows[:2]]),
    ('auto', 'bare'):         (lambda IT: Auto((T[0], IT)),             lambda rows, P: P(_first(rows))),
    ('auto', 'list'):         (lambda IT: Auto([IT]),                   lambda rows, P: [P(r) for r in rows]),
    ('auto', 'dict'):         (lambda IT: Auto({'k': (T[0], IT), 'n': len}), lambda rows, P: {'k': P(_first(rows)), 'n': len(rows)}),
    ('fill', 'bare'):         (lambda IT: Fill(Pipe(T[0], IT)),         lambda rows, P: P(_first(rows))),
    ('fill', 'list'):         (lambda IT: Fill([Pipe(T[0], IT), 'lit']), lambda rows, P: [P(_first(rows)), 'lit']),
    ('fill', 'tuple'):        (lambda IT: Fill((Pipe(T[0], IT), 'lit')), lambda rows, P: (P(_first(rows)), 'lit')),
    ('fill', 'dict'):         (lambda IT: Fill({'k': Pipe(T[0], IT)}),  lambda rows, P: {'k': P(_first(rows))}),
    ('match', 'bare'):        (lambda IT: Match(Pipe(T[0], IT)),        lambda rows, P: P(_first(rows))),
    ('match', 'switch'):      (lambda IT: Match(Switch([(list, Pipe(T[0], IT))])), lambda rows, P: P(_first(rows))),
}
LZ_DIRECT = (('group', 'bare'), ('group', 'list'), ('group', 'list-pipe'), ('group', 'pipe'))
LZ_ENCLOSING = {
    # an enclosing Group evaluates the wrapper once per item of ITS target; its chain goes on after the wrapper
    'none':             None,
    'group-elem':       lambda W: Group([W]),
    'group-pipe':       lambda W: Group([Pipe(W, T)]),
    'group-pipe-drain': lambda W: Group([Pipe(W, drain)]),       # consumed by a later step of the enclosing Group's chain
}


def gen_lazywrap(draw):
    S_ = st.sampled_from
    mode = draw(S_(['group', 'group', 'group', 'auto', 'fill', 'match']))
    form = draw(S_(sorted(f for m, f in LZ_FORMS if m == mode)))
    if mode == 'group' and draw(S_([True, False])):
        form = draw(S_(['bare', 'list', 'list', 'list-pipe', 'pipe']))      # constructed class: directly below the Group (F97)
    enclosing = draw(S_(['none', 'none', 'none', 'group-elem', 'group-pipe', 'group-pipe-drain']))
    consumer = draw(S_(['step', 'step', 'pipe-step', 'caller', 'caller']))
    keys = LZ_KEYS_ANY + ([] if mode == 'match' else LZ_KEYS_CALL + LZ_KEYS_CALL)   # a callable key in Match mode is a pattern
    nst = draw(S_([0, 0, 1, 1, 2]))
    ops = [draw(S_(['map', 'map', 'filter', 'takewhile', 'unique'])) for _ in range(nst)]
    sub = draw(S_([None] + LZ_NUM + LZ_NUM)) if nst else draw(S_(LZ_NUM))
    stages = [[op, draw(S_(LZ_NUM + ['dbl', 'odd'] if op == 'map' else keys))] for op in ops]
    # a reading that leaves the ints (a pair, the probe string, an error) only in the last position of the pipeline
    if draw(S_([True, False, False])):
        last = draw(S_(['fill-pair', 'str', 'str', 'tuple', 'tuple']))
        if not stages:
            sub = last
        elif stages[-1][0] == 'map':
            stages[-1][1] = last
        else:
            stages.append(['map', last])

    def rows():
        return draw(st.lists(st.lists(S_(range(5)), min_size=0, max_size=4), min_size=0, max_size=3))
    targets = [rows()] if enclosing == 'none' else [rows() for _ in range(draw(S_([1, 2, 2])))]
    if draw(S_([True, True, False])):
        targets[-1] = targets[-1] + [[draw(S_(range(1, 5))) for _ in range(draw(S_([1, 2, 3])))]]     # something to evaluate lazily
    return {'mode': mode, 'form': form, 'pipe': {'sub': sub, 'stages': stages}, 'enclosing': enclosing,
            'consumer': consumer, 'targets': targets}


def check_lazywrap(recipe, ctx):
    mode, form, pipe = recipe['mode'], recipe['form'], recipe['pipe']
    enclosing, consumer = recipe['enclosing'], recipe['consumer']
    build_w, ref_w = LZ_FORMS[(mode, form)]
    targets = [[list(r) for r in rows] for rows in recipe['targets']]
    target = targets[0] if enclosing == 'none' else targets
    snap_before = tg.snapshot(target)
    count = [0]
    P = lambda row: lz_ref(row, pipe, mode, count)
    try:
        if enclosing == 'none':
            lazy = ref_w(recipe['targets'][0], P)
        elif enclosing == 'group-pipe-drain':
            lazy = [drain(ref_w(rows, P)) for rows in recipe['targets']]
        else:
            lazy = [ref_w(rows, P) for rows in recipe['targets']]
        exp = ('ok', drain(lazy))
    except Err as e:
        exp = ('err', e.cat)
    spec = build_w(lz_build_pipe(pipe))
    if enclosing != 'none':
        spec = LZ_ENCLOSING[enclosing](spec)
    if consumer == 'step':
        spec = (spec, drain)
    elif consumer == 'pipe-step':
        spec = Pipe(spec, drain)
    direct = (mode, form) in LZ_DIRECT
    evaluated = count[0] > 0
    ctx.label('mode-' + mode, 'form-%s-%s' % (mode, form), 'consumer-' + consumer, 'enclosing-' + enclosing, 'exp-' + exp[0])
    if evaluated:
        ctx.label('lazily-evaluated', 'lazily-evaluated/mode-' + mode, 'lazily-evaluated/consumer-' + consumer)
        if enclosing != 'none':
            ctx.label('lazily-evaluated/enclosing-group')
        if direct:
            ctx.label('lazily-evaluated/directly-below-group', 'lazily-evaluated/directly-below-group/consumer-' + consumer)
            ctx.label('lazily-evaluated/directly-below-group/' + ('enclosing-group' if enclosing != 'none' else 'no-enclosing-group'))
        elif mode == 'group':
            ctx.label('lazily-evaluated/below-bucket-or-limit')
    ctx.nontrivial(evaluated)
    where = 'drain(glom(%r, %r))' % (target, spec) if consumer == 'caller' else 'glom(%r, %r)' % (target, spec)
    try:
        got = glom.glom(target, spec)
        if consumer == 'caller':
            got = drain(got)           # the caller consumes the iterators after glom() has returned
        got = ('ok', got)
    except GlomError as e:
        got = ('err', category(e))
    except Exception as e:
        got = ('err', 'non-glom:%s: %s' % (type(e).__name__, str(e)[:80]))
    if exp[0] != got[0]:
        raise Mismatch('lazy-error-instead-of-value' if exp[0] == 'ok' else 'lazy-missing-error', '%s: expected %r, got %r' % (where, exp, got))
    if exp[0] == 'err' and exp != got:
        raise Mismatch('lazy-wrong-error', '%s: expected %r, got %r' % (where, exp, got))
    if exp[0] == 'ok' and not typed_eq(exp[1], got[1]):
        raise Mismatch('lazy-value', '%s: expected %r, got %r' % (where, exp[1], got[1]))
    d = tg.snapshot_diff(snap_before, tg.snapshot(target))
    if d:
        raise Mismatch('target-mutated', '%s: %s' % (where, d))
    ctx.outcome([repr(spec)[:160], exp if exp[0] == 'err' else repr(exp[1])[:80]])


SUBS = [
    Sub('modes', check_modes, gen=gen_modes, quick=5000, thorough=20000,
        floors={'wrapper-then-probe': 0.05, 'exp-ok': 0.15, 'exp-err': 0.15, 'star-with-failing-argument': 0.05}),
    Sub('groupchain', check_groupchain, gen=gen_groupchain, quick=1200, thorough=8000,
        floors={'nested-group-then-accumulating-step/rows>=2': 0.10, 'nested-group-key-then-accumulating-value/rows>=2': 0.05,
                'nested-group-then-fold-below-aggregator/rows>=2': 0.03, 'auto-then-accumulating-step/rows>=2': 0.03,
                'fill-then-accumulating-step/rows>=2': 0.05, 'match-then-accumulating-step/rows>=2': 0.025,
                'exp-ok': 0.5, 'exp-err': 0.015}),
    Sub('grouplevel', check_groupchain, gen=gen_grouplevel, quick=700, thorough=4000,
        floors={'dict-level-then-accumulating-step/buckets>=2/rows>=2': 0.14, 'dict-level-key-then-accumulating-value/buckets>=2/rows>=2': 0.02,
                'limit-level-then-accumulating-step/rows>=2': 0.085, 'limit-level-then-accumulating-step/limit-reached': 0.045,
                'list-level-then-accumulating-step/rows>=2': 0.025, 'two-dict-levels-side-by-side/equal-keys/rows>=2': 0.11,
                'exp-ok': 0.5, 'exp-err': 0.012}),
    Sub('lazywrap', check_lazywrap, gen=gen_lazywrap, quick=1200, thorough=8000,
        floors={'lazily-evaluated/directly-below-group/no-enclosing-group': 0.09, 'lazily-evaluated/directly-below-group/enclosing-group': 0.095,
                'lazily-evaluated/directly-below-group/consumer-caller': 0.07, 'lazily-evaluated/directly-below-group/consumer-step': 0.075,
                'lazily-evaluated/directly-below-group/consumer-pipe-step': 0.022, 'lazily-evaluated/below-bucket-or-limit': 0.045,
                'lazily-evaluated/mode-auto': 0.055, 'lazily-evaluated/mode-fill': 0.055, 'lazily-evaluated/mode-match': 0.05,
                'exp-ok': 0.4, 'exp-err': 0.09}),
    Sub('shape', check_shape, gen=gen_shape, quick=4000, thorough=15000, floors={'cyclic': 0.05, 'position-fill': 0.03, 'modal-leaf-in-match-default-ok': 0.025, 'modal-leaf-in-argument': 0.25,
                'outer-auto': 0.07, 'outer-fill': 0.065, 'outer-match': 0.06, 'outer-group': 0.055, 'exp-err': 0.05}),
]
