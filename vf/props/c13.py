"""C13 — Handlers are chosen by nearest registered type, immediately and in isolation.

Each case creates a fresh class family with type() (chains, a diamond, a mixin, an ABC with a
virtual subclass, slot-only classes, iterable classes, classes with an instance __dict__, builtin
subclasses) and replays a generated history of register() calls (exact / non-exact, all operations
or get only, re-registrations) interleaved with lookups, on one of three registries: Glommer(),
Glommer(register_default_types=False), and the module-level registry (inside a forked child, so
global registrations never leak between cases).  After every registration every class is looked up
again (so a stale memo is observable), and bystander registries are checked for isolation.

Sub-check `virtual` (F66): one ABC registered with handlers and plain classes attached to it with ABC.register()
(instances with / without __dict__, with / without __iter__, nominal subclasses of the attached classes, unattached
controls), looked up on all three registries; the module-level registry and a default Glommer must also agree on every
single lookup.  Sub-check `rereg` (F65): histories with the op "register an already registered type again N times"
(N up to 1100) followed by lookups of every class.

Sub-check `structural`: a type that matches only structurally (collections.abc.Sized / Iterable / Container / Callable, a
user ABC with __subclasshook__, an ABC the class was attached to) registered together with a real base class of the object,
whose subclass matches the ABC only through a method it adds itself; the SET of registrations is executed in every order on a
fresh registry: each order must be valid (admissible()), and where the covering registered types are one class of the
object's single inheritance chain and one structural type, the handler must be the same in every order ("the choice depends
[not] on registration order").  WHICH of the two wins is not asserted (neither is a subclass of the other; DESIGN.md 6).
Sub-check `rejected`: histories with register() calls that raise TypeError (a handler that is neither callable nor False next
to valid handlers for other operations; a register_op() support detection that raises for the type): such a call registers
nothing - no handler passed to it ever runs, every lookup stays as the accepted registrations say - and the outcomes after the
last call are the same when no lookup at all was made before ("nor on which lookups happened before": the cold twin).
Sub-check `reentrant`: glom calls made from INSIDE register() - the support detection (auto_func) of an extension operation,
the one user callable a registration runs, looks up instances of the class being registered on the same registry; once
register() has returned "the very next glom call" uses the registration, and the cold twin (no lookups) agrees.

Oracle: admissible() - a validity predicate: the handler that runs must belong to a minimal element
(under issubclass) of the registered types the object is an instance of; an exact registration of the
object's own type wins; glom's two internal duck types rank below every nominal type.
"""
import os
import abc
import sys
import json
import collections
import collections.abc

from hypothesis import strategies as st

import glom
from glom import Glommer, T, S, Assign, Delete, GlomError, UnregisteredTarget

from ..runner import Sub, Mismatch, HarnessBug
from .. import targets as tg

PROPERTY = 'C13'
RULE = ('class family of 20 fresh classes per case; histories of 1-6 registrations (exact in {True, False}; all operations or '
        'get only) each followed by lookups of every class through glom(obj, "x"), glom(obj, [T]), glom(obj, "*"), Assign and '
        'Delete, with warm-up lookups before registrations; registry in {Glommer(), bare Glommer, module-level registry in a '
        'forked child}. Non-trivial = >= 3 registrations over >= 2 related classes with a lookup between two of them. '
        'virtual: one ABC (with / without __iter__) registered for all five operations or a subset, 1-3 plain classes '
        '(__dict__ / slots x __iter__ / none) attached with ABC.register() or left unattached, optionally a nominal subclass each, '
        'optionally the ABC registered a second time with other handlers; every class x operation looked up on Glommer(), a bare Glommer and the '
        'module-level registry, and the module-level outcomes compared with the default Glommer\'s; non-trivial = an attached class '
        'that one of glom\'s duck types matches. rereg: 1-2 registrations, then one type registered again N times '
        '(N in 2..1100), optionally a registration of a subclass afterwards; non-trivial = N >= 1000. '
        'structural: one ABC that matches structurally / virtually only (4 collections.abc classes, a __subclasshook__ ABC, ABC.register) '
        'and a family Base [> Mid] > Sub [> Sub2], Plain(Base), Lone, Other with / without __dict__; 2-3 registrations (the ABC, Base or '
        'Mid, optionally a third class) executed in all 2 / 6 orders on one registry kind, lookups after every step or after the last only; '
        'non-trivial = some class x operation is covered by exactly one class of its chain and the structural type. '
        'rejected: 1-4 register() calls, at least one of them rejected (invalid handler for one operation x valid handlers for a subset '
        'of the others, or a raising support detection of an extension operation named aa_/hh_/zz_probe), warm-ups, watched classes = '
        'those named + covered subclasses + 2 others; cold twin; non-trivial = a rejected call that carries a valid handler. '
        'reentrant: 1-3 registrations, at least one with 1-3 lookups made from inside the call; non-trivial = the type is new to the registry.')
ASSUMPTIONS = [
    'observation only through glom(), Glommer.glom(), assign-/delete-specs; handlers are tagged with the class they were registered for',
    'for unrelated registered bases of one class (diamond, mixin) either handler is accepted',
    "glom's internal duck types (_AbstractIterable, _ObjStyleKeys) rank below every nominal registered type (DESIGN.md F14)",
    'operations that a registration leaves to autodiscovery are modelled as "auto" and not asserted',
    'virtual: an ABC covers its virtual subclasses (issubclass / isinstance are true) and, being a registered type, beats glom\'s '
    'two internal duck types; outcomes of "auto" operations are not asserted per registry but must be equal on the module-level '
    'registry and a default Glommer ("a default Glommer behaves like the module-level glom")',
    'virtual: an ABC that defines __iter__ covers virtual subclasses without __iter__ like any others (F91)',
    'no precedence is asserted between a virtual base and a registered nominal base (virtual: the only registered types are the '
    'ABC and the defaults; object is not registered with handlers either: the duck types are filed below object)',
    'structural: between ONE registered class of the object\'s single inheritance chain and ONE registered type that matches it by '
    '__subclasshook__ / ABC.register() only, either handler is accepted, but the same one in every order of the registrations; for two '
    'unrelated structural types (as for the two bases of a diamond) no order independence is asserted',
    'rejected: a register() call that raises TypeError registers nothing (a handler that is neither callable nor False, and a support '
    'detection that raises, are documented to be refused with TypeError); a call that was expected to raise and did not is reported',
    'reentrant: the outcome of the lookups made DURING a register() call is not asserted, only that of the calls after it returned; '
    'the extension operation is registered with the module-level register_op() before the registries are created (forked child)',
    'cold twin (rejected, reentrant): the same history on a fresh registry without warm-ups, intermediate and re-entrant lookups gives '
    'the same outcome for every watched class x operation after the last call, including outcomes left to autodiscovery',
]

OPS = ['get', 'iterate', 'keys', 'assign', 'delete']
NAMES = ['A', 'B', 'C', 'D', 'E', 'E2', 'M', 'F', 'F2', 'V', 'W', 'Q', 'W2', 'L', 'L2', 'DD', 'TT', 'It', 'P', 'P2']


def make_family():
    """fresh classes per case"""
    fam = {}
    fam['A'] = type('A', (object,), {'__slots__': ()})
    fam['B'] = type('B', (fam['A'],), {'__slots__': ()})
    fam['C'] = type('C', (fam['B'],), {'__slots__': ()})
    fam['D'] = type('D', (fam['A'],), {'__slots__': ()})
    fam['E'] = type('E', (fam['B'], fam['D']), {'__slots__': ()})           # diamond
    fam['E2'] = type('E2', (fam['E'],), {'__slots__': ()})                 # below the diamond
    fam['M'] = type('M', (object,), {'__slots__': ()})                      # mixin
    fam['F'] = type('F', (fam['C'], fam['M']), {'__slots__': ()})
    fam['F2'] = type('F2', (fam['F'],), {'__slots__': ()})
    # a duck type in the style of glom's own _ObjStyleKeys: only __instancecheck__, no __subclasscheck__
    fam['W2'] = type('W2', (object,), {'__slots__': (), 'quacks': True})
    qmeta = type('QMeta', (type,), {'__instancecheck__': lambda cls, obj: getattr(type(obj), 'quacks', False) is True})
    fam['Q'] = qmeta('Q', (object,), {'__slots__': ()})
    fam['V'] = abc.ABCMeta('V', (object,), {'__slots__': ()})               # ABC ...
    fam['W'] = type('W', (object,), {'__slots__': ()})
    fam['V'].register(fam['W'])                                             # ... with a virtual subclass
    fam['L'] = type('L', (list,), {'__slots__': ()})
    fam['L2'] = type('L2', (fam['L'],), {'__slots__': ()})
    fam['DD'] = type('DD', (dict,), {'__slots__': ()})
    fam['TT'] = type('TT', (tuple,), {'__slots__': ()})
    fam['It'] = type('It', (fam['A'],), {'__slots__': (), '__iter__': lambda self: iter(())})
    fam['P'] = type('P', (object,), {})                                     # has an instance __dict__
    fam['P2'] = type('P2', (fam['P'],), {})
    return fam


def gen(draw):
    steps = []
    n = draw(st.integers(1, 6))
    related = draw(st.sampled_from([['A', 'B', 'C', 'F', 'E', 'D', 'M'], ['A', 'B', 'D', 'E'], ['L', 'L2', 'DD', 'TT'], ['V', 'W', 'It', 'A', 'Q', 'W2'], ['Q', 'W2', 'Q'],
                                    ['P', 'P2', 'A', 'B'], NAMES]))
    for _ in range(n):
        if draw(st.integers(0, 2)) == 0:
            steps.append(['warm', draw(st.sampled_from(NAMES)), draw(st.sampled_from(OPS))])
        steps.append(['reg', draw(st.sampled_from(related)), draw(st.sampled_from(['all', 'all', 'get', 'all', 'get', 'off-get', 'off-iterate'])),
                      draw(st.sampled_from([False, False, True]))])
    return {'registry': draw(st.sampled_from(['glommer', 'glommer', 'bare', 'global'])), 'steps': steps}


# ---------------------------------------------------------------------------
# model

class Model(object):
    def __init__(self, fam, defaults):
        self.fam = fam
        self.defaults = defaults
        # op -> {cls: (tag, fuzzy)}   tag: ('user', serial, clsname) | 'auto'
        self.table = dict((op, collections.OrderedDict()) for op in OPS)
        self.serial = 0
        self.known = set()       # names of the classes with at least one accepted registration

    def reject(self):
        """a register() call that raised: nothing is registered (its handlers carry the serial of the attempt)"""
        self.serial += 1

    def register(self, name, kind, exact):
        cls = self.fam[name]
        self.serial += 1
        self.known.add(name)
        explicit = explicit_ops(kind)
        for op in OPS:
            if isinstance(kind, str) and kind.startswith('off-'):
                # register(cls, <op>=False): "this type does not support <op>" is the behaviour registered for it
                if op == kind[4:]:
                    tag = ('off', self.serial, name, op)
                elif op == 'keys':
                    continue
                else:
                    prev = self.table[op].get(cls)
                    tag = prev[0] if prev is not None else 'auto'
            elif op in explicit:
                tag = ('user', self.serial, name, op)
            elif op == 'keys':
                continue             # 'keys' has no autodiscovery: a get-only registration leaves it alone
            else:
                prev = self.table[op].get(cls)
                tag = prev[0] if prev is not None else 'auto'
            prev = self.table[op].get(cls)
            fuzzy = (not exact) or (prev is not None and prev[1])
            self.table[op][cls] = (tag, fuzzy)

    def admissible(self, obj, op):
        """set of acceptable outcomes: tags of user handlers, 'auto' (not asserted), 'default'"""
        t = type(obj)
        tab = self.table[op]
        if t in tab:
            return {tab[t][0]}
        mins = self.minimal(obj, op)
        if mins:
            # a nominal default type nearer than every user type? (e.g. list for an instance of a list subclass
            # when only an unrelated base is registered) - builtin defaults are ancestors here, never nearer
            return set(tab[c][0] for c in mins)
        return {'default'}

    def minimal(self, obj, op):
        """the registered covering types of obj that no other one is a subclass of (the object's own type not registered)"""
        tab = self.table[op]
        cands = [c for c, (tag, fuzzy) in tab.items() if fuzzy and isinstance(obj, c)]
        return [c for c in cands if not any(o is not c and issubclass(o, c) for o in cands)]


def explicit_ops(kind):
    """operations a registration of this kind passes a handler for: 'all' | 'get' | a list of operations ('off-<op>': none)"""
    if isinstance(kind, list):
        return list(kind)
    if kind == 'all':
        return list(OPS)
    if kind == 'get':
        return ['get']
    return []


def tagname(tag):
    if isinstance(tag, str):
        return tag
    if tag[0] == 'crash':
        return 'crash(%s)' % (tag[1],)
    if tag[0] == 'rejected':
        return 'REJECTED-CALL:%s#%d:%s' % (tag[2], tag[1], tag[3])
    return '%s#%d:%s' % (tag[2], tag[1], tag[3])


# ---------------------------------------------------------------------------
# real world

class ProbeHook(object):
    """Support detection (auto_func) of an extension operation registered with register_op(): the one user callable the
    registry calls in the middle of register() - once per operation and type, when a type is registered for the first
    time.  Unarmed it answers "not supported".  Armed for one register() call of one World it either raises (the call is
    then rejected with TypeError) or makes glom calls on that same registry: lookups DURING the registration."""
    def __init__(self):
        self.armed = None
        self.calls = 0

    def __call__(self, type_obj):
        a = self.armed
        if a is None or type_obj is not a['cls']:
            return False
        self.calls += 1
        if a['raises']:
            raise ValueError('no support detection for %s' % (type_obj.__name__,))
        self.armed = None          # the lookups below must not re-enter the hook
        try:
            for cname, op in a['lookups']:
                a['world'].observe(a['world'].inst(a['world'].fam, cname), op)
        finally:
            self.armed = a
        return False


class World(object):
    def __init__(self, kind, fam, hook=None, inst=None):
        self.kind = kind
        self.fam = fam
        self.log = []
        self.hook = hook
        self.inst = inst
        if kind == 'glommer':
            self.g = Glommer()
        elif kind == 'bare':
            self.g = Glommer(register_default_types=False)
        else:
            self.g = None

    def glom(self, target, spec):
        if self.g is None:
            return glom.glom(target, spec)
        return self.g.glom(target, spec)

    def register(self, name, kind, exact, serial, bad=None, rejected=False, reenter=None):
        """bad: None | ['handler', op, value] (a handler that is neither callable nor False) | ['auto'] (the support
        detection of the extension operation raises for this type); rejected: the call is expected to raise, its handlers
        are tagged as such; reenter: lookups [[class, op], ...] made from inside the call.  Returns the TypeError the
        call raised, else None."""
        cls = self.fam[name]

        def mk(op):
            tag = ('rejected' if rejected else 'user', serial, name, op)
            if op == 'get':
                return lambda obj, key: ('H', tag, key)
            if op == 'iterate':
                return lambda obj: iter([('H', tag)])
            if op == 'keys':
                return lambda obj: [('K', tag)]
            if op == 'assign':
                return lambda obj, key, val: self.log.append(('H', tag))
            return lambda obj, key: self.log.append(('H', tag))
        if isinstance(kind, str) and kind.startswith('off-'):
            kw = {kind[4:]: False}
        else:
            kw = dict((op, mk(op)) for op in explicit_ops(kind))
        if bad is not None and bad[0] == 'handler':
            kw[bad[1]] = bad[2]
        if self.hook is not None and (reenter or (bad is not None and bad[0] == 'auto')):
            self.hook.armed = {'cls': cls, 'raises': bad is not None and bad[0] == 'auto', 'lookups': reenter or [], 'world': self}
        try:
            if self.g is None:
                glom.register(cls, exact=exact, **kw)
            else:
                self.g.register(cls, exact=exact, **kw)
        except TypeError as e:
            if bad is None:
                raise
            return e
        finally:
            if self.hook is not None:
                self.hook.armed = None
        return None

    def observe(self, obj, op):
        """tag of the handler that ran | 'default' | 'unregistered' | ('crash', 'RecursionError')"""
        try:
            if op == 'get':
                r = self.glom(obj, 'x')
                if isinstance(r, tuple) and r and r[0] == 'H':
                    return r[1]
                return 'default'
            if op == 'iterate':
                r = self.glom(obj, [T])
                if r and isinstance(r[0], tuple) and r[0][0] == 'H':
                    return r[0][1]
                return 'default'
            if op == 'keys':
                r = self.glom(obj, '*')
                # children come from keys()+get(): [('H', gettag, ('K', keystag))] when both are user handlers
                for item in r:
                    if isinstance(item, tuple) and item and item[0] == 'H' and isinstance(item[2], tuple) and item[2][0] == 'K':
                        return item[2][1]
                return 'default'
            del self.log[:]
            if op == 'assign':
                self.glom(obj, Assign('x', 1))
            else:
                self.glom(obj, Delete('x'))
            if self.log:
                return self.log[-1][1]
            return 'default'
        except UnregisteredTarget:
            return 'unregistered'
        except RecursionError:
            # raw or as GlomError.wrap(RecursionError): the lookup itself died (F65: a type tree nested ~1000 levels deep)
            return ('crash', 'RecursionError')
        except GlomError as e:
            return 'default'       # the default handler ran and failed on this object (e.g. no such attribute)
        except Exception as e:
            return 'default'


def instance(fam, name):
    cls = fam[name]
    if name in ('L', 'L2'):
        return cls([1])
    if name == 'DD':
        return cls(x=1)
    if name == 'TT':
        return cls((1,))
    o = cls()
    if name in ('P', 'P2'):
        o.x = 1
    return o


DUCK_ITERABLE = ('L', 'L2', 'DD', 'TT', 'It')
DUCK_DICT = ('P', 'P2')


class default_stack(object):
    """The interpreter's default recursion budget (1000 frames), counted from the calling frame: what a program that
    calls glom() from its top level has.  Hypothesis raises the limit by some thousand frames while it runs a test, a
    replay does not: without this the outcome of a history with a deeply nested type tree (F65) would depend on who
    called the check."""
    def __enter__(self):
        self.old = sys.getrecursionlimit()
        depth, f = 0, sys._getframe()
        while f is not None:
            depth, f = depth + 1, f.f_back
        sys.setrecursionlimit(depth + 1000)

    def __exit__(self, *exc):
        sys.setrecursionlimit(self.old)


MUTATIONS = ('reg', 'rereg', 'badreg', 'reg-re')


def run_history(recipe, fam=None, names=None, inst=None, trace=None, lookups='all'):
    """executes the history; returns (violation | None, stats).  fam / names / inst: another class family than the
    default one (sub-checks virtual, structural); trace: a list that receives every (step index, class, op, outcome)
    looked up; lookups='final': the same registrations with NO lookup before the last one has returned (no warm-ups,
    no lookups between or during the registrations) - "nor on which lookups happened before" """
    with default_stack():
        return _run_history(recipe, fam, names, inst, trace, lookups)


def _run_history(recipe, fam, names, inst, trace, lookups):
    if fam is None:
        # 'watch': the classes looked up after every step (default: the whole family)
        fam, names, inst = make_family(), recipe.get('watch') or NAMES, instance
    kind = recipe['registry']
    hook = None
    if recipe.get('probe_op'):
        # an extension operation with a support-detection function, registered the public way (module-level
        # register_op(); every Glommer created afterwards carries it): the caller runs this history in a forked child
        hook = ProbeHook()
        glom.register_op(recipe['probe_op'], auto_func=hook)
    world = World(kind, fam, hook, inst)
    bystanders = [World('glommer', fam), World('bare', fam)]
    if kind != 'global':
        bystanders.append(World('global', fam))
    model = Model(fam, kind != 'bare')
    nreg = 0
    stats = {'lookups': 0, 'auto-skipped': 0, 'f14': 0, 'hook-calls': 0}
    last = max([i for i, s in enumerate(recipe['steps']) if s[0] in MUTATIONS] or [-1])
    for si, step in enumerate(recipe['steps']):
        if step[0] == 'warm':
            if lookups == 'all':
                world.observe(inst(fam, step[1]), step[2])
            continue
        if step[0] == 'warm-all':
            if lookups == 'all':
                for cname in names:
                    for op in OPS:
                        world.observe(inst(fam, cname), op)
            continue
        # ['reg', name, kind, exact] | ['rereg', name, kind, exact, n]: the same registration n times over
        # ['badreg', name, kind, exact, bad]: a call that carries handlers for the operations of kind and is REJECTED
        # ['reg-re', name, kind, exact, [[class, op], ...]]: lookups made from inside the call (ProbeHook)
        name, rkind, exact = step[1:4]
        if step[0] == 'badreg':
            bad = step[4]
            # the support detection is asked only for a type the registry does not know yet
            expected = bad[0] == 'handler' or name not in model.known
            if expected:
                model.reject()
            else:
                model.register(name, rkind, exact)
            exc = world.register(name, rkind, exact, model.serial, bad=bad, rejected=expected)
            if expected and exc is None:
                return ('invalid-register-accepted', 'registry=%s history %r: the register() call of step %d did not raise TypeError'
                        % (kind, recipe['steps'], si)), stats
            if not expected and exc is not None:
                return ('valid-register-rejected', 'registry=%s history %r: the register() call of step %d raised %r'
                        % (kind, recipe['steps'], si, exc)), stats
        else:
            try:
                for _ in range(step[4] if step[0] == 'rereg' else 1):
                    model.register(name, rkind, exact)
                    world.register(name, rkind, exact, model.serial,
                                   reenter=step[4] if step[0] == 'reg-re' and lookups == 'all' else None)
            except RecursionError as e:
                return ('register-crashed', 'registry=%s history %r: RecursionError in register() of step %d' % (kind, recipe['steps'], si)), stats
        nreg += 1
        if lookups == 'final' and si != last:
            continue
        # the very next calls must see the registration (and nothing of a rejected one): look every class up for every op
        for cname in names:
            for op in OPS:
                obj = inst(fam, cname)
                adm = model.admissible(obj, op)
                got = world.observe(obj, op)
                stats['lookups'] += 1
                if trace is not None:
                    trace.append((si, cname, op, got if isinstance(got, str) else tagname(got)))
                if isinstance(got, tuple) and got[0] == 'crash':
                    # no registration makes a lookup die (also not one whose outcome is left to autodiscovery)
                    return ('lookup-crashed', 'registry=%s after %r: %s of an instance of %s died with %s'
                            % (kind, recipe['steps'][:si + 1], op, cname, got[1])), stats
                if isinstance(got, tuple) and got[0] == 'rejected':
                    # (also where the outcome is otherwise left to autodiscovery)
                    return ('rejected-handler-ran', 'registry=%s after %r%s: %s of an instance of %s ran %s, a handler passed to a register() '
                            'call that raised TypeError' % (kind, recipe['steps'][:si + 1], ' without any earlier lookup' if lookups == 'final' else '',
                                                            op, cname, tagname(got))), stats
                if 'auto' in adm:
                    stats['auto-skipped'] += 1
                    continue
                if op == 'keys' and any(a == 'auto' or (isinstance(a, tuple) and a[0] == 'off') for a in model.admissible(obj, 'get')):
                    stats['auto-skipped'] += 1      # '*' fetches the children through get(): keys() is only observable through a tagged get handler
                    continue
                ok = got in adm
                if not ok and got == 'unregistered' and any(isinstance(a, tuple) and a[0] == 'off' for a in adm):
                    ok = True      # the nearest registration says "unsupported"
                if not ok and adm == {'default'} and got == 'unregistered':
                    ok = True      # no registered type covers the object (bare registry / non-iterable object)
                if not ok and got == 'unregistered' and op == 'keys':
                    ok = adm == {'default'}
                if not ok:
                    detail = ('registry=%s after %r%s: %s of an instance of %s ran %s; admissible: %s'
                              % (kind, [s for s in recipe['steps']], ' without any earlier lookup' if lookups == 'final' else '', op, cname,
                                 tagname(got) if not isinstance(got, str) else got, sorted(tagname(a) for a in adm)))
                    f14 = (kind != 'bare' and isinstance(got, str) and got in ('default', 'unregistered')
                           and (cname in DUCK_ITERABLE or cname in DUCK_DICT))
                    if f14:
                        # known finding F14: count it and keep going, so that the search continues behind it
                        stats['f14'] += 1
                        stats.setdefault('f14-detail', detail)
                        continue
                    return ('wrong-handler', detail), stats
    if hook is not None:
        stats['hook-calls'] = hook.calls
    # isolation: bystander registries behave as if nothing had been registered
    for w in (bystanders if lookups == 'all' else []):
        for cname in names:
            for op in ('get', 'iterate'):
                got = w.observe(inst(fam, cname), op)
                if not isinstance(got, str):
                    return ('isolation', 'registrations on the %s registry are visible on a %s registry: %s of %s ran %s'
                            % (kind, w.kind, op, cname, tagname(got))), stats
    if stats['f14']:
        return ('duck-type-shadowing', stats['f14-detail']), stats
    return None, stats


def history_outcome(arg):
    """one execution of a history: ({'res': violation | None, 'final': the lookups after the last registration,
    'hook': calls of the support detection that made lookups / raised}, stats)"""
    recipe, lookups = arg
    trace = []
    res, stats = run_history(recipe, trace=trace, lookups=lookups)
    last = max([i for i, s in enumerate(recipe['steps']) if s[0] in MUTATIONS] or [-1])
    return {'res': res, 'final': [list(t[1:]) for t in trace if t[0] == last], 'hook': stats['hook-calls']}, stats


def check(recipe, ctx):
    kind = recipe['registry']
    steps = recipe['steps']
    regs = [s for s in steps if s[0] in ('reg', 'reg-re')]
    names = set(s[1] for s in regs)
    ctx.label('registry-' + kind, 'regs-%d' % min(len(regs), 4))
    ctx.nontrivial(len(regs) >= 3 and len(names) >= 2)
    seen = set()
    labels = set()           # every label once per case: the shares are shares of cases
    for i, s in enumerate(steps):
        if s[0] == 'rereg':
            # F65: the same type registered again s[4] times; >= 1000 is the depth at which a nested tree kills the lookups
            ctx.label('rereg', 'rereg-deep' if s[4] >= 1000 else 'rereg-shallow', 'rereg-' + ('exact' if s[3] else 'fuzzy'))
            ctx.nontrivial(s[4] >= 1000)
        if s[0] == 'badreg' and (s[4][0] == 'handler' or s[1] not in seen):
            # a call that is rejected although it carries valid handlers, too: nothing of it may stay behind
            valid = explicit_ops(s[2])
            offending = s[4][1] if s[4][0] == 'handler' else recipe.get('probe_op')
            labels.update(['badreg', 'badreg-' + s[4][0], 'badreg-on-registered' if s[1] in seen else 'badreg-on-new-type'])
            if valid:
                labels.add('badreg-partial')
            if any(v < offending for v in valid):
                # (the operations are worked through in sorted order)
                labels.add('badreg-valid-sorts-first')
            if any(t[0] in ('reg', 'reg-re') for t in steps[i + 1:]):
                labels.add('badreg-then-reg')
            ctx.nontrivial(bool(valid))
        if s[0] == 'reg-re':
            labels.update(['reentrant', 'reentrant-' + ('first-registration' if s[1] not in seen else 'known-type')])
            if any(l[0] != s[1] for l in s[4]):
                labels.add('reentrant-other-class')
            ctx.nontrivial(s[1] not in seen)
        if s[0] in ('reg', 'rereg', 'reg-re') or (s[0] == 'badreg' and s[4][0] == 'auto' and s[1] in seen):
            seen.add(s[1])
    ctx.label(*sorted(labels))
    child = kind == 'global' or bool(recipe.get('probe_op'))
    full = in_child((recipe, 'all'), history_outcome, raw=True) if child else history_outcome((recipe, 'all'))[0]
    if full['res'] is not None:
        raise Mismatch(full['res'][0], full['res'][1])
    if full['hook']:
        ctx.label('hook-ran')
    nmut = len([s for s in steps if s[0] in MUTATIONS])
    if not recipe.get('twin') or (nmut <= 1 and not any(s[0] in ('warm', 'warm-all', 'reg-re') for s in steps)):
        ctx.outcome([kind, len(regs)])
        return
    # "the choice depends [not] on which lookups happened before": the same registrations on a fresh registry with no
    # lookup at all before the last one has returned - every outcome (also those left to autodiscovery) is the same
    ctx.label('cold-twin')
    cold = in_child((recipe, 'final'), history_outcome, raw=True) if child else history_outcome((recipe, 'final'))[0]
    if cold['res'] is not None:
        raise Mismatch(cold['res'][0], cold['res'][1])
    if len(cold['final']) != len(full['final']):
        raise HarnessBug('cold twin: %d final lookups, %d in the full run' % (len(cold['final']), len(full['final'])))
    for a, b in zip(full['final'], cold['final']):
        if list(a) != list(b):
            raise Mismatch('lookup-history-dependent', 'registry=%s history %r: after the last registration %s of an instance of %s ran %s, '
                           'but %s when no lookup was made before it (no warm-ups, no lookups between or during the registrations)'
                           % (kind, steps, a[1], a[0], a[2], b[2]))
    ctx.outcome([kind, len(regs)])


def in_child(recipe, fn=None, raw=False):
    """run the history in a forked child so that module-level registrations never leak; raw: fn's first result as it is"""
    r, w = os.pipe()
    pid = os.fork()
    if pid == 0:
        code = 0
        try:
            os.close(r)
            try:
                res, stats = (fn or run_history)(recipe)
                payload = json.dumps({'res': res})
            except BaseException as e:
                payload = json.dumps({'crash': '%s: %s' % (type(e).__name__, e)})
            os.write(w, payload.encode('utf8'))
            os.close(w)
        finally:
            os._exit(code)
    os.close(w)
    chunks = []
    while True:
        c = os.read(r, 65536)
        if not c:
            break
        chunks.append(c)
    os.close(r)
    os.waitpid(pid, 0)
    data = json.loads(b''.join(chunks).decode('utf8') or '{"crash": "no output from child"}')
    if 'crash' in data:
        raise Mismatch('unexpected-exception', 'child: ' + data['crash'])
    if raw:
        return data['res']
    return tuple(data['res']) if data['res'] else None


def is_f14(recipe, mm):
    return mm.kind == 'duck-type-shadowing'


# ---------------------------------------------------------------------------
# a default Glommer behaves like the module-level glom

def lambda_div(x):
    return 100.0 / x


EQUIV_POOL = [
    ({'a': {'b': [1, 2, 3]}}, 'a.b.1'),
    ({'a': {'b': [1, 2, 3]}}, {'x': 'a.b', 'y': ('a.b', [T * 2])}),
    ([{'k': 1}, {'k': 2}], [T['k']]),
    ({'a': 1}, 'missing'),
    ({'a': [1, {'b': 2}]}, 'a.*'),
    ({'a': [1, {'b': 2}]}, '**'),
    (tg.Obj(a=tg.Obj(b=3)), 'a.b'),
    (5, [T]),
    ({'a': {}}, Assign('a.b', 1)),
    ({'a': [1, 2]}, Assign('a.0', 9)),
    ({'a': {'b': 1}, 'c': 2}, Delete('a.b')),
    ([1, 2, 3], Delete('1')),
    (tg.Obj(a=1), Assign('b', 2)),
    ({}, Assign('a.b.c', 1, missing=dict)),
    # keyword arguments of glom() (F68): (target, spec, kwargs, documented result)
    ({'a': 1}, S['v'], {'scope': {'v': 3}}, 3),
    ({'a': 1}, {'x': 'a', 'y': S['v']}, {'scope': {'v': [1, 2]}}, {'x': 1, 'y': [1, 2]}),
    ({'a': [1, 2]}, ('a', [T + 1], S['w']['k']), {'scope': {'w': {'k': 'deep'}, 'u': 0}}, 'deep'),
    ({'a': 1}, S(v=T['a']), {'scope': {'v': 3}}, {'a': 1}),
    ({'a': 1}, 'b', {'default': 7, 'scope': {'v': 3}}, 7),
    ({'a': 1}, 'b', {'default': 7}, 7),
    ({}, len, {'default': 0.0, 'skip_exc': ZeroDivisionError}, 0),
    (0, (lambda_div, ), {'default': 0.5, 'skip_exc': ZeroDivisionError}, 0.5),
]


def enum_equiv(tier):
    for i in range(len(EQUIV_POOL)):
        yield {'case': i}


def check_equiv(recipe, ctx):
    import copy
    entry = EQUIV_POOL[recipe['case']]
    target, spec = entry[:2]
    kwargs = entry[2] if len(entry) > 2 else {}
    ctx.label('with-scope-kwarg' if 'scope' in kwargs else 'with-kwargs' if kwargs else 'plain')
    ctx.nontrivial(True)
    outs = []
    for runner in (lambda t, s: glom.glom(t, s, **copy.deepcopy(kwargs)), lambda t, s: Glommer().glom(t, s, **copy.deepcopy(kwargs))):
        t = copy.deepcopy(target)
        try:
            outs.append(('ok', repr(runner(t, spec)), repr(t)))
        except GlomError as e:
            outs.append(('err', type(e).__name__))
        except Exception as e:
            outs.append(('exc', type(e).__name__))
    if outs[0] != outs[1]:
        raise Mismatch('glommer-differs', 'glom(%r, %r%s) -> %r but Glommer().glom(...) -> %r'
                       % (target, spec, ''.join(', %s=%r' % kv for kv in sorted(kwargs.items())), outs[0], outs[1]))
    if len(entry) > 3 and outs[0][:2] != ('ok', repr(entry[3])):
        # the pool entry states its documented result: two equal failures are no agreement
        raise Mismatch('wrong-result', 'glom(%r, %r%s) -> %r, documented result %r'
                       % (target, spec, ''.join(', %s=%r' % kv for kv in sorted(kwargs.items())), outs[0], entry[3]))
    ctx.outcome(outs[0])


# ---------------------------------------------------------------------------
# objects created by Assign(missing=...) inside Glommer.glom are handled by THAT Glommer's registry

class Box(object):
    __slots__ = ('store',)

    def __init__(self):
        self.store = {}

    def __repr__(self):
        return 'Box(%r)' % (self.store,)


def enum_missing(tier):
    for depth in (1, 2, 3):
        for glob_reg in (False, True):
            yield {'depth': depth, 'global_dict_handler': glob_reg}


def check_missing(recipe, ctx):
    """run in a forked child: registers on the module-level registry"""
    def body():
        log = []
        g = Glommer()
        g.register(Box, get=lambda o, k: o.store[k], assign=lambda o, k, v: (log.append(('box-assign', k)), o.store.__setitem__(k, v)))
        if recipe['global_dict_handler']:
            glom.register(dict, assign=lambda o, k, v: (log.append(('GLOBAL-dict-assign', k)), o.__setitem__(k, v)))
        path = '.'.join('s%d' % i for i in range(recipe['depth'] + 1))
        root = Box()
        g.glom(root, Assign(path, 'leaf', missing=Box))
        want = [('box-assign', 's%d' % i) for i in range(recipe['depth'], -1, -1)]
        if log != want:
            return ('glommer-registry-bypassed', 'Glommer with an assign handler for Box: Assign(%r, missing=Box) ran %r, expected %r; result %r'
                    % (path, log, want, root))
        cur = root
        for i in range(recipe['depth'] + 1):
            cur = cur.store['s%d' % i]
        if cur != 'leaf':
            return ('glommer-registry-bypassed', 'value not stored: %r' % (root,))
        # dicts created by missing=dict inside a Glommer must not use a handler registered globally afterwards
        del log[:]
        t = {}
        g.glom(t, Assign('a.b.c', 1, missing=dict))
        if any(x[0].startswith('GLOBAL') for x in log):
            return ('isolation', 'a module-level registration ran inside Glommer.glom: %r' % (log,))
        if t != {'a': {'b': {'c': 1}}}:
            return ('wrong-effect', repr(t))
        return None
    r, w = os.pipe()
    pid = os.fork()
    if pid == 0:
        try:
            os.close(r)
            try:
                res = body()
            except BaseException as e:
                res = ('unexpected-exception', '%s: %s' % (type(e).__name__, e))
            os.write(w, json.dumps(res).encode('utf8'))
            os.close(w)
        finally:
            os._exit(0)
    os.close(w)
    data = b''
    while True:
        c = os.read(r, 65536)
        if not c:
            break
        data += c
    os.close(r)
    os.waitpid(pid, 0)
    res = json.loads(data.decode('utf8') or 'null')
    ctx.nontrivial(True)
    if res:
        raise Mismatch(res[0], res[1])
    ctx.outcome(recipe)


# ---------------------------------------------------------------------------
# F65: a type registered again (and again) keeps covering its subclasses

REREG_BASES = ['A', 'B', 'C', 'D', 'M', 'P', 'L', 'V']          # every one has (nominal or virtual) subclasses in the family
REREG_AFTER = {'A': ['B', 'It', 'E'], 'B': ['C', 'E'], 'C': ['F'], 'D': ['E', 'E2'], 'M': ['F', 'F2'], 'P': ['P2'], 'L': ['L2'], 'V': ['W']}


def gen_rereg(draw):
    steps = []
    base = draw(st.sampled_from(REREG_BASES))
    if draw(st.booleans()):
        steps.append(['warm', draw(st.sampled_from(NAMES)), draw(st.sampled_from(OPS))])
    steps.append(['reg', base, draw(st.sampled_from(['all', 'get'])), draw(st.sampled_from([False, False, False, True]))])
    if draw(st.integers(0, 2)) == 0:
        steps.append(['reg', draw(st.sampled_from(NAMES)), draw(st.sampled_from(['all', 'get'])), draw(st.booleans())])
    # deep counts first: a failing case shrinks towards 1100, beyond the interpreter's default recursion budget
    # (run_history pins that budget with default_stack(), whoever calls the check)
    n = draw(st.sampled_from([1100, 1100, 1050, 1010, 300, 40, 7, 2]))
    steps.append(['rereg', base, draw(st.sampled_from(['all', 'get', 'get'])), draw(st.sampled_from([False, False, False, True])), n])
    if draw(st.booleans()):
        # a subclass registered into the tree afterwards
        steps.append(['reg', draw(st.sampled_from(REREG_AFTER[base])), draw(st.sampled_from(['all', 'get'])), False])
    return {'registry': draw(st.sampled_from(['glommer', 'bare', 'global'])), 'steps': steps}


# ---------------------------------------------------------------------------
# register() calls that are REJECTED (TypeError) register nothing; lookups made DURING a register() call

RELATED = [['A', 'B', 'C', 'F', 'E', 'D', 'M'], ['A', 'B', 'D', 'E'], ['L', 'L2', 'DD', 'TT'], ['V', 'W', 'It', 'A', 'Q', 'W2'],
           ['P', 'P2', 'A', 'B'], NAMES]
_FAM0 = make_family()
# every class and the classes of the family its registration covers
COVERED = dict((n, [n] + [m for m in NAMES if m != n and issubclass(_FAM0[m], _FAM0[n])]) for n in NAMES)
BAD_VALUES = ['children', 42, 0, None, [1]]        # neither callable nor False
PROBE_OPS = ['aa_probe', 'hh_probe', 'zz_probe']   # sorts before / between / after the built-in operations


def _draw_kind(draw):
    k = draw(st.sampled_from(['all', 'all', 'get', 'subset']))
    if k == 'subset':
        ops = [op for op in OPS if draw(st.booleans())]
        return ops or ['get']
    return k


def _draw_watch(draw, steps):
    """the classes looked up after every step: those the history names, up to two classes each of them covers, two others"""
    watch = []
    for s in steps:
        if s[0] in MUTATIONS or s[0] == 'warm':
            watch.append(s[1])
        if s[0] in MUTATIONS and len(COVERED[s[1]]) > 1:
            watch.append(draw(st.sampled_from(COVERED[s[1]][1:])))
            watch.append(draw(st.sampled_from(COVERED[s[1]][1:])))
        if s[0] == 'reg-re':
            watch.extend(l[0] for l in s[4])
    watch.append(draw(st.sampled_from(NAMES)))
    watch.append(draw(st.sampled_from(NAMES)))
    return [n for n in NAMES if n in watch]


def gen_rejected(draw):
    """histories with at least one register() call that raises TypeError: a handler that is neither callable nor False
    next to valid handlers for other operations, or a support detection (register_op auto_func) that raises for the type"""
    related = draw(st.sampled_from(RELATED))
    probe_op = draw(st.sampled_from([None, None] + PROBE_OPS))
    n = draw(st.sampled_from([1, 2, 2, 3, 3, 4]))
    k = draw(st.sampled_from(range(n)))
    steps, registered = [], []
    for i in range(n):
        if draw(st.sampled_from([0, 1, 2])) == 0:
            steps.append(['warm', draw(st.sampled_from(related)), draw(st.sampled_from(OPS))])
        name = draw(st.sampled_from(related))
        exact = draw(st.sampled_from([False, False, True]))
        if i == k or draw(st.sampled_from([False, False, True])):
            if registered and draw(st.sampled_from([True, True, True, False])):
                name = draw(st.sampled_from(registered))      # a rejected call for a type that has handlers already
            if probe_op is not None and draw(st.sampled_from([False, True])):
                steps.append(['badreg', name, _draw_kind(draw), exact, ['auto']])
            else:
                badop = draw(st.sampled_from(OPS))
                valid = [op for op in OPS if op != badop and draw(st.sampled_from([True, True, False]))]
                steps.append(['badreg', name, valid, exact, ['handler', badop, draw(st.sampled_from(BAD_VALUES))]])
        else:
            steps.append(['reg', name, _draw_kind(draw), exact])
            registered.append(name)
    recipe = {'registry': draw(st.sampled_from(['glommer', 'bare', 'global'])), 'steps': steps, 'twin': True, 'watch': _draw_watch(draw, steps)}
    if probe_op is not None:
        recipe['probe_op'] = probe_op
    return recipe


def gen_reentrant(draw):
    """histories in which glom calls are made from inside register(): the support detection of an extension operation looks
    up instances of the class being registered (or of classes it covers, or of any class) on the same registry"""
    related = draw(st.sampled_from(RELATED))
    n = draw(st.sampled_from([1, 2, 2, 3]))
    k = draw(st.sampled_from(range(n)))
    steps = []
    for i in range(n):
        if draw(st.sampled_from([0, 1, 2])) == 0:
            steps.append(['warm', draw(st.sampled_from(related)), draw(st.sampled_from(OPS))])
        name = draw(st.sampled_from(related))
        kind = _draw_kind(draw)
        exact = draw(st.sampled_from([False, False, False, True]))
        if i == k or draw(st.booleans()):
            lookups = [[draw(st.sampled_from(COVERED[name][:1] * 2 + COVERED[name])), draw(st.sampled_from(explicit_ops(kind)))]]
            for _ in range(draw(st.sampled_from([0, 0, 1, 2]))):
                lookups.append([draw(st.sampled_from(COVERED[name] + NAMES)), draw(st.sampled_from(OPS))])
            steps.append(['reg-re', name, kind, exact, lookups])
        else:
            steps.append(['reg', name, kind, exact])
    return {'registry': draw(st.sampled_from(['glommer', 'bare', 'global'])), 'probe_op': draw(st.sampled_from(PROBE_OPS)), 'steps': steps,
            'twin': True, 'watch': _draw_watch(draw, steps)}


# ---------------------------------------------------------------------------
# F66: ONE registered ABC covers its virtual subclasses on every registry; module-level glom == default Glommer
#
# recipe: {'abc_iter': bool                      the ABC itself defines __iter__ (like collections.abc.Mapping)
#          'classes': [{'dict': bool,            instances have a __dict__ (else slots)
#                       'iter': bool,            the class defines __iter__
#                       'attach': bool,          ABC.register(cls)
#                       'sub': bool}, ...]       plus a nominal subclass of it
#          'steps': ['warm-all'] | ['reg', 'V', kind, exact]}

def make_vfamily(recipe):
    ns = {'__slots__': ()}
    if recipe['abc_iter']:
        ns['__iter__'] = lambda self: iter(())
    fam = collections.OrderedDict()
    fam['V'] = abc.ABCMeta('V', (object,), ns)
    names = []
    for i, c in enumerate(recipe['classes']):
        cns = {} if c['dict'] else {'__slots__': ('x',)}
        if c['iter']:
            cns['__iter__'] = lambda self: iter(())
        name = 'K%d' % i
        fam[name] = type(name, (object,), cns)
        names.append(name)
        if c['attach']:
            fam['V'].register(fam[name])
        if c['sub']:
            fam[name + 's'] = type(name + 's', (fam[name],), {} if c['dict'] else {'__slots__': ()})
            names.append(name + 's')
    return fam, names


def vinstance(fam, name):
    o = fam[name]()
    o.x = 1
    return o


V_KINDS = ['all', 'all', 'all', ['get'], ['assign', 'delete'], ['get', 'iterate'], ['get', 'keys'], ['get', 'keys', 'assign'], ['iterate', 'delete']]


def gen_virtual(draw):
    abc_iter = draw(st.booleans())
    classes = []
    for i in range(draw(st.sampled_from([1, 2, 2, 3]))):
        attach = i == 0 or draw(st.sampled_from([True, True, False]))
        c = {'dict': draw(st.sampled_from([True, True, False])), 'iter': draw(st.booleans()), 'attach': attach, 'sub': draw(st.sampled_from([False, False, True]))}
        if abc_iter and i == 0:
            # the shape of F66 (2): both duck types match, the ABC is a subclass of one of them;
            # the shape of F91: the ABC is iterable, its virtual subclass is not
            c['dict'], c['iter'] = draw(st.sampled_from([(True, True), (True, True), (True, False), (False, False)]))
        classes.append(c)
    steps = []
    if draw(st.sampled_from([False, False, True])):
        steps.append(['warm-all'])
    steps.append(['reg', 'V', draw(st.sampled_from(V_KINDS)), draw(st.sampled_from([False] * 7 + [True]))])
    if draw(st.sampled_from([False, False, False, True])):
        # the same type again, with other handlers: the newest ones are used, for the same objects
        steps.append(['reg', 'V', draw(st.sampled_from(V_KINDS)), False])
    return {'abc_iter': abc_iter, 'classes': classes, 'steps': steps}


def run_virtual(recipe):
    """(violation | None, stats); runs inside a forked child: the last history registers on the module-level registry"""
    traces = {}
    for kind in ('glommer', 'bare', 'global'):
        fam, names = make_vfamily(recipe)
        traces[kind] = []
        res, stats = run_history({'registry': kind, 'steps': recipe['steps']}, fam=fam, names=names, inst=vinstance, trace=traces[kind])
        if res is not None and kind != 'global':
            return res, stats
    # "a default Glommer behaves like the module-level glom": every single lookup, also those left to autodiscovery
    # (when the module-level history stopped at a wrong handler, the trace ends with that lookup: if the default
    # Glommer - which passed - did something else there, the disagreement is the finding)
    for a, b in zip(traces['global'], traces['glommer']):
        if a != b:
            return ('glommer-differs', 'classes %r, ABC %s __iter__, history %r: after step %d %s of an instance of %s ran %s on the '
                    'module-level registry but %s on a default Glommer'
                    % (recipe['classes'], 'with' if recipe['abc_iter'] else 'without', recipe['steps'], a[0], a[2], a[1], a[3], b[3])), stats
    if res is not None:
        return res, stats
    if len(traces['global']) != len(traces['glommer']):
        return ('harness', 'virtual: traces of different length'), stats
    return None, stats


def check_virtual(recipe, ctx):
    attached = [c for c in recipe['classes'] if c['attach']]
    vregs = [s for s in recipe['steps'] if s[0] == 'reg' and s[1] == 'V']
    vreg = vregs[0]
    ops = sorted(set(sum([explicit_ops(s[2]) for s in vregs], [])))
    covering = not all(s[3] for s in vregs)
    # the class of F66 (1): a virtual subclass that one of glom's duck types matches (__dict__ -> _ObjStyleKeys, __iter__ -> _AbstractIterable)
    duck = covering and any(c['dict'] or c['iter'] for c in attached)
    # the class of F66 (2): both duck types match, the ABC is itself iterable, assign / delete registered
    both = covering and recipe['abc_iter'] and any(c['dict'] and c['iter'] for c in attached) and ('assign' in ops or 'delete' in ops)
    ctx.label('abc-iterable' if recipe['abc_iter'] else 'abc-plain', 'ops-all' if len(ops) == 5 else 'ops-subset',
              'exact' if vreg[3] else 'covering')
    if duck:
        ctx.label('virtual-duck')
    if both:
        ctx.label('virtual-both-ducks-mutation')
    if covering and any(c['dict'] and not c['iter'] for c in attached):
        ctx.label('virtual-dict-only')
    if covering and any(c['iter'] and not c['dict'] for c in attached):
        ctx.label('virtual-iter-only')
    if covering and recipe['abc_iter'] and any(not c['iter'] for c in attached):
        # F91: the ABC is a subclass of the _AbstractIterable duck type, the attached class is no instance of it
        ctx.label('virtual-noniterable-of-iterable-abc')
    if covering and any(c['sub'] for c in attached):
        ctx.label('virtual-nominal-sub')
    if len([s for s in recipe['steps'] if s[0] == 'reg']) > 1:
        ctx.label('abc-registered-twice')
    if any(not c['attach'] for c in recipe['classes']):
        ctx.label('with-unattached')
    ctx.nontrivial(duck)
    res = in_child(recipe, run_virtual)
    if res is not None and res[0] == 'harness':
        raise HarnessBug(res[1])
    if res is not None:
        raise Mismatch(res[0], res[1])
    ctx.outcome([len(recipe['classes']), ops])


# ---------------------------------------------------------------------------
# a type that matches only STRUCTURALLY (collections.abc.Sized / Iterable / ..., a user ABC with __subclasshook__, an ABC
# the class was attached to with ABC.register()) registered together with a real base class of the object
#
# recipe: {'abc': 'Sized' | 'Iterable' | 'Container' | 'Callable' | 'hook' | 'attach',
#          'base_dict': bool       instances of Base (and below) have a __dict__ (else slots)
#          'mid': bool             a class Mid between Base and Sub
#          'base_matches': bool    control: Base itself matches the ABC (then Base is the more specific type: issubclass(Base, ABC))
#          'sub2': bool            a subclass Sub2 of Sub
#          'warm': bool            every class looked up before the first and after every registration (else: after the last one only)
#          'registry': 'glommer' | 'bare' | 'global'
#          'regs': [[name, kind, exact], ...]}     a SET of registrations (distinct names): executed in every order
#
# classes: V (the ABC); Base; [Mid(Base)]; Sub(Mid | Base) - matches V only through the method it adds / through V.register(Sub);
#          [Sub2(Sub)]; Plain(Base) - does not match V; Lone - matches V, unrelated to Base; Other - unrelated to both

S_ABCS = {'Sized': (collections.abc.Sized, '__len__', lambda self: 1),
          'Iterable': (collections.abc.Iterable, '__iter__', lambda self: iter(())),
          'Container': (collections.abc.Container, '__contains__', lambda self, item: False),
          'Callable': (collections.abc.Callable, '__call__', lambda self: None)}


def make_sfamily(recipe):
    fam = collections.OrderedDict()
    kind = recipe['abc']
    if kind in S_ABCS:
        fam['V'], meth, impl = S_ABCS[kind]
    elif kind == 'hook':
        meth, impl = 'quack', (lambda self: 'quack')

        def hook(cls, C):
            if cls is fam['V'] and any('quack' in B.__dict__ for B in C.__mro__):
                return True
            return NotImplemented
        fam['V'] = abc.ABCMeta('V', (object,), {'__slots__': (), '__subclasshook__': classmethod(hook)})
    else:
        meth, impl = None, None
        fam['V'] = abc.ABCMeta('V', (object,), {'__slots__': ()})

    def ns(first, matching):
        d = {} if recipe['base_dict'] else {'__slots__': ('x',) if first else ()}
        if matching and meth is not None:
            d[meth] = impl
        return d
    fam['Base'] = type('Base', (object,), ns(True, recipe['base_matches']))
    top = fam['Base']
    if recipe['mid']:
        top = fam['Mid'] = type('Mid', (fam['Base'],), ns(False, False))
    fam['Sub'] = type('Sub', (top,), ns(False, True))
    if recipe['sub2']:
        fam['Sub2'] = type('Sub2', (fam['Sub'],), ns(False, False))
    fam['Plain'] = type('Plain', (fam['Base'],), ns(False, False))
    fam['Lone'] = type('Lone', (object,), ns(True, True))
    fam['Other'] = type('Other', (object,), ns(True, False))
    if meth is None:
        fam['V'].register(fam['Sub'])
        fam['V'].register(fam['Lone'])
        if recipe['base_matches']:
            fam['V'].register(fam['Base'])
    names = [n for n in fam if n != 'V']
    # the family is what the recipe says (a wrong generator must not pass for a quiet check)
    for n in names:
        want = n in ('Sub', 'Sub2', 'Lone') or (recipe['base_matches'] and n in ('Base', 'Mid', 'Plain'))
        if issubclass(fam[n], fam['V']) != want or isinstance(vinstance(fam, n), fam['V']) != want or fam['V'] in fam[n].__mro__:
            raise HarnessBug('structural: class %s of %r: issubclass(%s, V) is %r' % (n, recipe, n, not want))
    return fam, names


def gen_structural(draw):
    recipe = {'abc': draw(st.sampled_from(['Sized', 'Iterable', 'Container', 'Callable', 'hook', 'hook', 'attach'])),
              'base_dict': draw(st.booleans()), 'mid': draw(st.booleans()),
              'base_matches': draw(st.sampled_from([False, False, False, False, True])),
              'sub2': draw(st.sampled_from([False, True])), 'warm': draw(st.sampled_from([False, False, True])),
              'registry': draw(st.sampled_from(['glommer', 'bare', 'global']))}
    kinds = ['all', 'all', 'all', ['get'], ['get', 'iterate'], ['iterate', 'assign'], ['get', 'keys', 'delete']]
    nominal = draw(st.sampled_from(['Base', 'Base', 'Mid'] if recipe['mid'] else ['Base']))
    names = ['V', nominal]
    third = draw(st.sampled_from([None, None, 'Other', 'Lone', 'Plain'] + (['Base', 'Mid'] * 2 if recipe['mid'] else [])))
    if third is not None and third not in names:
        names.append(third)
    kind0 = draw(st.sampled_from(kinds))
    regs = []
    for i, n in enumerate(names):
        # the ABC and the base class mostly for the same operations, and covering their subclasses
        kind = kind0 if i < 2 and draw(st.sampled_from([True, True, True, False])) else draw(st.sampled_from(kinds))
        regs.append([n, kind, draw(st.sampled_from([False] * 7 + [True]))])
    recipe['regs'] = regs
    return recipe


def structural_one(arg):
    """one order of the registrations on one registry: ({'res': violation | None, 'final': lookups after the last one}, stats)"""
    recipe, kind, order = arg
    fam, names = make_sfamily(recipe)
    steps = ([['warm-all']] if recipe['warm'] else []) + [['reg'] + recipe['regs'][i] for i in order]
    trace = []
    # 'warm': every class is looked up before the first and after every registration, else only after the last one
    res, stats = run_history({'registry': kind, 'steps': steps}, fam=fam, names=names, inst=vinstance, trace=trace,
                             lookups='all' if recipe['warm'] else 'final')
    # outcomes without the serial number of the registration: the names of a set of registrations are distinct
    final = [[t[1], t[2], t[3].split('#')[0] + ':' + t[3].split(':')[-1] if '#' in t[3] else t[3]] for t in trace if t[0] == len(steps) - 1]
    return {'res': res, 'final': final}, stats


def structural_pairs(recipe):
    """(class, op) -> 'chain' | 'versus' for the lookups whose outcome must not depend on the order of the registrations:
    the handler is a registered one (nothing left to autodiscovery) and the registered types that cover the object
    without a more specific registered one below them are at most ONE class of its (single) inheritance chain and at most
    ONE type that matches it structurally / virtually only ('versus': one of each).  Two unrelated structural types, like
    the two unrelated bases of a diamond, have no order the statement would name."""
    import itertools
    fam, names = make_sfamily(recipe)
    model = Model(fam, True)
    for name, kind, exact in recipe['regs']:
        model.register(name, kind, exact)
    pairs = {}
    for cname in names:
        obj = vinstance(fam, cname)
        for op in OPS:
            adm = model.admissible(obj, op)
            if 'auto' in adm:
                continue
            if op == 'keys' and any(a == 'auto' or (isinstance(a, tuple) and a[0] == 'off') for a in model.admissible(obj, 'get')):
                continue
            if type(obj) in model.table[op]:
                pairs[(cname, op)] = 'chain'
                continue
            mins = model.minimal(obj, op)
            nominal = [c for c in mins if c in type(obj).__mro__]
            if len(nominal) <= 1 and len(mins) - len(nominal) <= 1:
                pairs[(cname, op)] = 'versus' if len(mins) == 2 else 'chain'
    return pairs


def check_structural(recipe, ctx):
    import itertools
    pairs = structural_pairs(recipe)
    versus = sorted(k for k, v in pairs.items() if v == 'versus')
    ctx.label('abc-' + recipe['abc'], 'abc-stdlib' if recipe['abc'] in S_ABCS else 'abc-user', 'regs-%d' % len(recipe['regs']))
    if versus:
        # the class of seeded change C13-I: a real base class and a type that matches by __subclasshook__ / ABC.register() only
        ctx.label('structural-vs-base')
        if any(c == 'Sub2' for c, op in versus):
            ctx.label('structural-vs-base-deeper')
        if any(r[0] == 'Mid' for r in recipe['regs']) and any(r[0] == 'Base' for r in recipe['regs']):
            ctx.label('structural-vs-chain-of-two')
    if recipe['base_matches']:
        ctx.label('base-matches-abc')
    ctx.nontrivial(bool(versus))
    orders = list(itertools.permutations(range(len(recipe['regs']))))
    ctx.label('registry-' + recipe['registry'], 'lookups-all' if recipe['warm'] else 'lookups-final')
    for kind in (recipe['registry'],):
        finals = []
        for order in orders:
            arg = (recipe, kind, list(order))
            out = in_child(arg, structural_one, raw=True) if kind == 'global' else structural_one(arg)[0]
            if out['res'] is not None:
                raise Mismatch(out['res'][0], out['res'][1])
            finals.append(out['final'])
        for order, final in zip(orders[1:], finals[1:]):
            if len(final) != len(finals[0]):
                raise HarnessBug('structural: %d lookups in order %r, %d in order %r' % (len(final), order, len(finals[0]), orders[0]))
            for a, b in zip(finals[0], final):
                if (a[0], a[1]) in pairs and list(a) != list(b):
                    regs = recipe['regs']
                    raise Mismatch('registration-order-dependent',
                                   'registry=%s family %r: %s of an instance of %s ran %s after the registrations %r, but %s after the same '
                                   'registrations in the order %r' % (kind, dict((k, v) for k, v in recipe.items() if k != 'regs'), a[1], a[0], a[2],
                                                                     [regs[i] for i in orders[0]], b[2], [regs[i] for i in order]))
    ctx.outcome([recipe['abc'], len(recipe['regs']), len(versus)])


CLASSIFIERS = {'F14-duck-type-shadowing': is_f14}

SUBS = [
    Sub('history', check, gen=gen, quick=600, thorough=2500,
        floors={'registry-global': 0.1, 'registry-bare': 0.1}),
    Sub('virtual', check_virtual, gen=gen_virtual, quick=240, thorough=400,
        floors={'virtual-duck': 0.4, 'virtual-both-ducks-mutation': 0.08, 'virtual-dict-only': 0.2, 'virtual-iter-only': 0.06,
                'virtual-noniterable-of-iterable-abc': 0.09}),
    Sub('rereg', check, gen=gen_rereg, quick=64, thorough=100,
        floors={'rereg-deep': 0.25}),
    Sub('structural', check_structural, gen=gen_structural, quick=160, thorough=400,
        floors={'structural-vs-base': 0.3, 'abc-stdlib': 0.22, 'abc-user': 0.18, 'registry-global': 0.1, 'lookups-all': 0.1}),
    Sub('rejected', check, gen=gen_rejected, quick=160, thorough=500,
        floors={'badreg-partial': 0.45, 'badreg-valid-sorts-first': 0.3, 'badreg-handler': 0.3, 'badreg-auto': 0.09,
                'badreg-then-reg': 0.15, 'badreg-on-registered': 0.1, 'cold-twin': 0.4}),
    Sub('reentrant', check, gen=gen_reentrant, quick=100, thorough=300,
        floors={'reentrant-first-registration': 0.45, 'hook-ran': 0.45, 'reentrant-other-class': 0.28, 'cold-twin': 0.5}),
    Sub('equiv', check_equiv, enum=enum_equiv),
    Sub('missing', check_missing, enum=enum_missing),
]
