"""C07 — Scope bindings are lexically scoped, chain forward, never outlive the call.

Sub-checks
  scope      spec trees over {tuple, Pipe, dict, list, Coalesce, And, Or, Switch} with binders
             (S(k=Val(v)), A.k, A.globals.k, S(v=Vars()) + A.v.x, Spec(sub, scope={..})) and readers
             (S.k, S['k'], S.globals.k, S.v.x, each wrapped as Coalesce(reader, default='<unbound>'))
             placed at every position; two names only, so shadowing is frequent; every binder binds a
             unique value; each spec evaluated twice, with and without a caller scope; a share of the programs is run
             through Glommer().glom(target, spec, scope=...) as well (same expectations);
             a scope name d bound to a fresh dict, written through A.d[<T expr / Spec over the step's target>] and
             read back (the index of an A path is an argument like any other: it is evaluated on the target)
             Iter(sub) steps whose sub-spec binds, consumed by the next step of the chain - completely (list, .all()) or only in
             part (next, First(), .first(), a shorter zip, islice; a .limit / .slice / .takewhile stage that stops pulling) -
             followed by readers: constructed chains ('lazychain') and random placements.  The reference evaluates the items in a
             plain generator under the itertools composition and the plain-Python consumer
  matchdict  Match-dict keys that bind (Regex named groups, A.k, S(k=T); A.k nested in a compound key as the control), as they
             stand or marked Required(<binder>), with several entries, optionally below an outer binding of the same name
             (an earlier chain step or the caller's scope=); the reader directly in the value or one level down
  ref        Ref definitions / uses: nearest enclosing definition, recursion over trees, no leak
             from sibling definitions
  specchain  a Spec(x, scope={..}) step or a Ref(name, spec) definition step of a tuple / Pipe followed by readers (S.name,
             Coalesce(S.name, default), S['name'], Ref(name), also nested one level down), with and without an outer binding of
             the same name (caller scope=, earlier S(name=..) step, enclosing Ref definition); controls: the binder as a
             dict sibling / inside a 1-tuple.  The later steps must not see the Spec's scope / the definition.  The unchanged
             library shows them (known finding F93): a mismatch is attributed to F93 only when the observed outcome equals the
             "leaky" model (both write into the frame the next step chains from) and differs from the statement's model

Oracle: refscope - a static environment calculus transcribed from the statement.
"""
import itertools

from hypothesis import strategies as st

import glom
from glom import Iter
from glom.streaming import First
from glom import (T, S, A, Val, Coalesce, Pipe, Spec, Vars, Ref, Match, Auto, Switch, And, Or, M, Regex, GlomError, Invoke)

from ..runner import Sub, Mismatch, HarnessBug
from .. import targets as tg

PROPERTY = 'C07'
RULE = ('scope: trees of depth <= 4 over chains and branching containers with binders/readers of the names k, j (plus a Vars '
        'object v and the globals namespace) at every position; failing leaves make Coalesce/Or/Switch pass over branches. '
        'A third of the programs also run through Glommer().glom(.., scope=..); chains that bind d to a fresh dict, write '
        'A.d[<T expr / Spec over a known target>] and read the dict back; chains (outer binding, Iter(<binder>) consumed in part by the next step, readers). '
        'Non-trivial = >= 1 binder and >= 1 reader in different subtrees (visibility is decided by a rule, not adjacency).')
ASSUMPTIONS = [
    'refscope: a chain step sees the bindings made *directly* by earlier steps of the same chain; nested specs see their '
    'parent\'s environment; dict values, list elements, Coalesce/And/Or children see only their parent\'s environment; a '
    'Switch / Match-dict value additionally sees the direct bindings of its own key',
    'sub scope: Spec(x, scope=...) and Ref definitions are generated wrapped in a 1-tuple when they are chain steps; their visibility to later '
    'steps is asserted by sub specchain (must be invisible: a later step is neither in the Spec\'s subtree nor enclosed by the definition)',
    'specchain: bodies of Ref definitions hold no scope readers that a use site reaches, so the environment of the definition and of the '
    'use cannot be told apart; Ref(name) without an enclosing definition is an error that no Coalesce inside the spec skips',
    'binders nested inside a compound Switch/Match key are invisible to the value; Required(k) is not a compound key but the key k '
    'with a marker (docstring: "marks that a key ... should raise MatchError if the key in the target does not match"): the value '
    'sees the bindings of k, and a pattern whose Required entry takes no item fails',
    'the sub-spec of an Iter is nested in the Iter step: its bindings are invisible to the later steps however much of the stream '
    'the next step pulls; items are evaluated when pulled (side effects on globals / Vars of the items never pulled do not happen): '
    'Iter.limit / .slice = itertools.islice, .takewhile = itertools.takewhile, First() / .first() = the first truthy item or None '
    '(their docstrings)',
    'Glommer().glom(target, spec, scope=m) is held to the expectations of glom(target, spec, scope=m) (Glommer docstring: the same '
    'function with a registry of its own); neither m nor the Glommer\'s own scope may change',
    'A.d[x] with d bound to a dict stores the step\'s target under the VALUE of x evaluated on that target when x is a T expression / '
    'Spec (arguments of T steps are specs in argument mode, whatever their position), under x itself when x is a plain constant; '
    'when d is unbound or x fails nothing is written. The dict is an ordinary object reached through the scope: writes made in a '
    'branch that fails afterwards stay (as for Vars). Keys are strings by construction (an unhashable key would be a harness error)',
]
UNB = '<unbound>'


class RVars(object):
    def __init__(self):
        self.d = {}


class RDict(dict):
    """reference counterpart of the fresh dict bound by S(d=Invoke(dict)); remembers which keys were computed"""
    def __init__(self):
        dict.__init__(self)
        self.computed = set()


def typename(t):
    return type(t).__name__


# forms of the last index of A.d[...]:  form -> (spec-level index, needs evaluation)
DKEY_FORMS = {
    't': lambda c: T,                           # the target itself
    't0': lambda c: T[0],                       # first item of the target
    'tf0': lambda c: T['f0'],                   # field f0 of the target
    'spec-t': lambda c: Spec(T),
    'spec-type': lambda c: Spec(typename),      # total: the name of the target's type
    'spec-val': lambda c: Spec(Val(c)),
    'const': lambda c: c,                       # control: a plain constant is the key as it stands
}
DKEY_TOTAL = ['spec-type', 'spec-val', 'const']          # usable on any target (the key is always a string)


def dkey_value(form, c, target):
    """plain-Python meaning of the index expression on `target`; Fail when the expression cannot be evaluated"""
    if form in ('const', 'spec-val'):
        return c
    if form == 'spec-type':
        return typename(target)
    if form in ('t', 'spec-t'):
        return target
    try:
        return target[0] if form == 't0' else target['f0']
    except (LookupError, TypeError):
        raise Fail()


class Fail(Exception):
    pass


# ---------------------------------------------------------------------------
# generation

NAMES = ['k', 'j']


def gen_node(draw, d, is_list, counter):
    S_ = st.sampled_from
    leafs = ['bind', 'abind', 'read', 'read', 'readitem', 'gbind', 'gread', 'id', 'vbind', 'vset', 'vread', 'const',
             'dnew', 'dset', 'dread']
    comps = ['tuple', 'tuple', 'pipe', 'dict', 'coal', 'or', 'and', 'switch', 'specscope', 'varschain', 'lazy', 'dictchain',
             'lazychain']
    if is_list:
        comps.append('list')
    kind = draw(S_(leafs if d <= 0 else leafs + comps + comps))
    name = draw(S_(NAMES))
    if kind == 'bind':
        counter[0] += 1
        return ['bind', name, 'v%d' % counter[0]]
    if kind in ('abind', 'gbind', 'read', 'readitem', 'gread'):
        return [kind, name]
    if kind in ('vset', 'vread'):
        return [kind, draw(S_(['x', 'y']))]
    if kind in ('id', 'vbind', 'dnew', 'dread'):
        return [kind]
    if kind == 'dset':
        # anywhere in a tree the target is not known: only the index forms that are total
        return ['dset', draw(S_(DKEY_TOTAL)), draw(S_(['ka', 'kb']))]
    if kind == 'const':
        counter[0] += 1
        return ['const', 'c%d' % counter[0]]
    if kind in ('tuple', 'pipe', 'dict', 'and'):
        return [kind, [gen_node(draw, d - 1, is_list, counter) for _ in range(draw(st.integers(1, 3)))]]
    if kind in ('coal', 'or'):
        kids = []
        for _ in range(draw(st.integers(1, 3))):
            kids.append(['fail', gen_node(draw, d - 1, is_list, counter)] if draw(st.integers(0, 3)) == 0
                        else gen_node(draw, d - 1, is_list, counter))
        return [kind, kids]
    if kind == 'list':
        return ['list', gen_node(draw, d - 1, False, counter)]
    if kind == 'lazy':
        # three chain steps: Val(items), Iter(sub), list -- the sub-spec runs while the LATER step `list` consumes it
        return ['lazy', gen_node(draw, d - 1, False, counter), gen_lazy_how(draw, False)]
    if kind == 'lazychain':
        # CONSTRUCTED: [outer binding of the name,] Iter(<sub-spec that binds the name>) consumed by the next step WITHOUT draining
        # the source, then readers of the name in the later steps of the same chain (directly, and nested in a dict step)
        steps = []
        if draw(st.integers(0, 2)) > 0:
            counter[0] += 1
            steps.append(['bind', name, 'v%d' % counter[0]])
        bk = draw(st.integers(0, 5))
        va = None
        if bk <= 1:
            sub = ['abind', name]
        elif bk <= 3:
            counter[0] += 1
            sub = ['bind', name, 'v%d' % counter[0]]
        elif bk == 4:
            # a Vars object per item; outside, a Vars of the chain that holds a value under the attribute read afterwards
            sub = ['vbind']
            va = draw(S_(['x', 'y']))
            counter[0] += 1
            steps = [['vbind'], ['const', 'c%d' % counter[0]], ['vset', va]]
        else:
            sub = gen_node(draw, d - 1, False, counter)
        steps.append(['lazy', sub, gen_lazy_how(draw, True)])
        between = draw(S_(['none', 'none', 'id', 'node']))
        if between == 'id':
            steps.append(['id'])
        elif between == 'node':
            steps.append(gen_node(draw, d - 1, False, counter))
        rd = ['vread', va] if va is not None else [draw(S_(['read', 'read', 'readitem'])), name]
        form = draw(S_(['step', 'dict', 'dict', 'nested-tuple']))
        if form == 'step':
            steps.append(rd)
        elif form == 'dict':
            steps.append(['dict', [rd, ['id'], ['read', [n for n in NAMES if n != name][0]]]])
        else:
            steps.append(['tuple', [['id'], ['dict', [rd, ['id']]]]])
        return [draw(S_(['tuple', 'tuple', 'pipe'])), steps]
    if kind == 'switch':
        cases = []
        for _ in range(draw(st.integers(1, 3))):
            kk = draw(st.integers(0, 5))
            if kk <= 1:
                counter[0] += 1
                key = ['bind', name, 'v%d' % counter[0]]
            elif kk == 2:
                key = ['abind', draw(S_(NAMES))]
            elif kk == 3:
                key = ['keyfail']
            elif kk == 4:
                counter[0] += 1
                key = ['tuple', [['bind', name, 'v%d' % counter[0]], ['id']]]       # binder nested in a compound key
            else:
                key = ['id']
            cases.append([key, gen_node(draw, d - 1, is_list, counter)])
        return ['switch', cases]
    if kind == 'varschain':
        # read-before-write on a fresh Vars: anything that survives an earlier evaluation shows up in the first read
        a = draw(S_(['x', 'y']))
        counter[0] += 1
        steps = [['vbind'], ['vread', a], ['const', 'c%d' % counter[0]], ['vset', a], ['vread', a]]
        if draw(st.booleans()):
            steps.insert(2, gen_node(draw, d - 1, is_list, counter))
        if draw(st.booleans()):
            return ['tuple', steps]
        # the first read is kept in the result: {'f0': read, 'f1': (write, read)} below one Vars binding
        return ['tuple', [['vbind'], ['dict', [['vread', a], ['tuple', steps[2:]]]]]]
    if kind == 'dictchain':
        # d bound to a fresh dict, then (a known target, A.d[<index computed from that target>]) once or twice, then read back.
        # The write sits directly in the chain, in a dict value, or in a Coalesce branch that fails after the write.
        steps = [['dnew']]
        if draw(st.integers(0, 2)) == 0:
            steps.append(gen_node(draw, d - 1, is_list, counter))
        for _ in range(draw(S_([1, 1, 2]))):
            form = draw(S_(['t', 't0', 'tf0', 'spec-t', 't', 't0', 'tf0', 'spec-t', 'spec-type', 'spec-val', 'const']))
            counter[0] += 1
            known = ['const', 'c%d' % counter[0]]
            if form == 'tf0':
                known = ['dict', [known]]                    # target {'f0': 'cN'}
            pair = [known, ['dset', form, draw(S_(['ka', 'kb']))]]
            place = draw(S_(['chain', 'chain', 'dict', 'failed-branch']))
            if place == 'chain':
                steps.extend(pair)
            elif place == 'dict':
                steps.append(['dict', [['tuple', pair], ['dread']]])
            else:
                steps.append(['coal', [['fail', ['tuple', pair]], ['id']]])
        steps.append(['dread'])
        return [draw(S_(['tuple', 'pipe'])), steps]
    if kind == 'specscope':
        counter[0] += 1
        return ['specscope', {name: 'v%d' % counter[0]}, gen_node(draw, d - 1, is_list, counter)]
    raise ValueError(kind)


def gen_lazy_how(draw, partial_only):
    """how an Iter(sub) step is consumed.  Old forms ('iter', 'map', 'all'): the whole stream.  New form
    '<source>|<stage>|<consumer>|<wrap>': a stage of the Iter and / or the consumer stop before the source is spent."""
    S_ = st.sampled_from
    if not partial_only and draw(st.integers(0, 2)) < 2:
        return draw(S_(['iter', 'iter', 'map', 'all']))
    src = draw(S_(['iter', 'iter', 'iter', 'map']))
    stage = draw(S_(['none', 'none', 'none', 'limit1', 'slice1', 'limit2', 'tw-never', 'tw-first']))
    if stage == 'none':
        cons = draw(S_(['next', 'next', 'first', 'zip1', 'islice1', '.first']))
    elif stage in LAZY_STAGES_NONEMPTY:
        cons = draw(S_(['list', 'list', 'next', 'first', 'zip1', '.first']))
    else:
        cons = draw(S_(['list', 'list', 'first', 'zip1', '.first']))        # (next() of an empty stream is no glom matter)
    wrap = 'plain' if cons == '.first' else draw(S_(['plain', 'plain', 'plain', 'tuple', 'dict']))
    return '|'.join([src, stage, cons, wrap])


def gen(draw):
    counter = [0]
    return {'tree': gen_node(draw, draw(st.sampled_from([2, 3, 3, 4])), True, counter),
            'caller': draw(st.sampled_from([None, {'k': 'caller-k'}, {'k': 'caller-k', 'j': 'caller-j'}])),
            # also run the program through a Glommer of its own: Glommer().glom(target, spec, scope=caller)
            'glommer': draw(st.integers(0, 2)) == 2}


# ---------------------------------------------------------------------------
# glom builder

def build(r, in_chain=False):
    k = r[0]
    if k == 'bind':
        return S(**{r[1]: Val(r[2])})
    if k == 'abind':
        return getattr(A, r[1])
    if k == 'gbind':
        return getattr(A.globals, r[1])
    if k == 'read':
        return Coalesce(getattr(S, r[1]), default=UNB)
    if k == 'readitem':
        return Coalesce(S[r[1]], default=UNB)
    if k == 'gread':
        return Coalesce(getattr(S.globals, r[1]), default=UNB)
    if k == 'vbind':
        return S(v=Vars())
    if k == 'vset':
        return Coalesce(getattr(A.v, r[1]), default=T)
    if k == 'vread':
        return Coalesce(getattr(S.v, r[1]), default=UNB)
    if k == 'dnew':
        return S(d=Invoke(dict))                 # a fresh dict per evaluation
    if k == 'dset':
        return Coalesce(A.d[DKEY_FORMS[r[1]](r[2])], default=T)
    if k == 'dread':
        return Coalesce((S.d, dict), default=UNB)      # a copy: what the dict holds at this moment
    if k == 'id':
        return T
    if k == 'const':
        return Val(r[1])
    if k == 'keyfail':
        return M == 'never-equal'
    if k == 'fail':
        return (build(r[1]), T['nope']['nope'])
    if k == 'lazy':
        return tuple(lazy_steps(r))
    if k == 'tuple':
        return tuple(chain_steps(r[1]))
    if k == 'pipe':
        return Pipe(*chain_steps(r[1]))
    if k == 'dict':
        return dict(('f%d' % i, build(x)) for i, x in enumerate(r[1]))
    if k == 'list':
        return [build(r[1])]
    if k == 'coal':
        return Coalesce(*[build(x) for x in r[1]])
    if k == 'or':
        return Or(*[build(x) for x in r[1]])
    if k == 'and':
        return And(*[build(x) for x in r[1]])
    if k == 'switch':
        return Switch([(build(a), build(b)) for a, b in r[1]])
    if k == 'specscope':
        sp = Spec(build(r[2]), scope=dict(r[1]))
        return (sp,) if in_chain else sp
    raise ValueError(r)


LAZY_ITEMS = ['i1', 'i2']


def lazy_never(v):
    return False


def lazy_is_first(v):
    return v == LAZY_ITEMS[0]


def lazy_zip1(it):
    """zip with a shorter iterable: one item is pulled"""
    return [b for _, b in zip(['z'], it)]


def lazy_islice1(it):
    return list(itertools.islice(it, 1))


def first_truthy(it):
    """First() / Iter.first() with the default key: 'the first element which matches key' = the first truthy one, else None"""
    for v in it:
        if v:
            return v
    return None


# stage name -> (applied to an Iter spec, the itertools composition it is documented as)
LAZY_STAGES = {
    'none': (lambda it: it, lambda g: g),
    'limit1': (lambda it: it.limit(1), lambda g: itertools.islice(g, 1)),
    'limit2': (lambda it: it.limit(2), lambda g: itertools.islice(g, 2)),       # (all items, but the end of the source is never seen)
    'slice1': (lambda it: it.slice(1), lambda g: itertools.islice(g, 1)),
    'tw-never': (lambda it: it.takewhile(lazy_never), lambda g: itertools.takewhile(lazy_never, g)),
    'tw-first': (lambda it: it.takewhile(lazy_is_first), lambda g: itertools.takewhile(lazy_is_first, g)),
}
LAZY_STAGES_NONEMPTY = ('limit1', 'limit2', 'slice1')
# consumer name -> (the step that follows the Iter, what it computes from a plain iterator)
LAZY_CONSUMERS = {
    'list': (lambda: list, list),
    'next': (lambda: next, next),
    'first': (lambda: First(), first_truthy),
    'zip1': (lambda: lazy_zip1, lazy_zip1),
    'islice1': (lambda: lazy_islice1, lazy_islice1),
}


def lazy_how(how):
    """-> (source, stage, consumer, wrap, consumed in part)"""
    if how in ('iter', 'map'):
        return how, 'none', 'list', 'plain', False
    if how == 'all':
        return 'iter', 'none', '.all', 'plain', False
    parts = how.split('|')
    if (len(parts) != 4 or parts[0] not in ('iter', 'map') or parts[1] not in LAZY_STAGES
            or (parts[2] not in LAZY_CONSUMERS and parts[2] != '.first') or parts[3] not in ('plain', 'tuple', 'dict')):
        raise HarnessBug('C07: lazy form %r' % (how,))
    return parts[0], parts[1], parts[2], parts[3], True


def lazy_steps(r):
    sub = build(r[1])
    src, stage, cons, wrap, _ = lazy_how(r[2])
    it = LAZY_STAGES[stage][0](Iter(sub) if src == 'iter' else Iter().map(sub))
    if cons == '.all':
        return [Val(list(LAZY_ITEMS)), it.all()]
    if cons == '.first':
        return [Val(list(LAZY_ITEMS)), it.first()]
    step = LAZY_CONSUMERS[cons][0]()
    if wrap == 'tuple':
        step = (T, step)
    elif wrap == 'dict':
        step = {'c': step}
    return [Val(list(LAZY_ITEMS)), it, step]


def chain_steps(rs):
    out = []
    for x in rs:
        if x[0] == 'lazy':
            out.extend(lazy_steps(x))          # spliced: Iter and its consumer are steps of THIS chain
        else:
            out.append(build(x, True))
    return out


# ---------------------------------------------------------------------------
# reference: static environment calculus

def ev(r, target, env, state):
    """returns (value, bindings made directly in the step's own frame)"""
    k = r[0]
    if k == 'bind':
        return target, {r[1]: r[2]}
    if k == 'abind':
        return target, {r[1]: target}
    if k == 'gbind':
        state['glob'][r[1]] = target
        return target, {}
    if k == 'read' or k == 'readitem':
        return env.get(r[1], UNB), {}
    if k == 'gread':
        return state['glob'].get(r[1], UNB), {}
    if k == 'vbind':
        return target, {'v': RVars()}
    if k == 'vset':
        v = env.get('v')
        if isinstance(v, RVars):
            v.d[r[1]] = target
        return target, {}
    if k == 'vread':
        v = env.get('v')
        if isinstance(v, RVars):
            return v.d.get(r[1], UNB), {}
        return UNB, {}
    if k == 'dnew':
        return target, {'d': RDict()}
    if k == 'dset':
        dd = env.get('d')
        if isinstance(dd, RDict):
            try:
                key = dkey_value(r[1], r[2], target)
            except Fail:
                return target, {}                # Coalesce(A.d[...], default=T): nothing written
            try:
                hash(key)
            except TypeError:
                raise HarnessBug('C07 generator: A.d[%s] on target %r gives an unhashable key' % (r[1], target))
            dd[key] = target
            if r[1] != 'const':
                dd.computed.add(key)
        return target, {}
    if k == 'dread':
        dd = env.get('d')
        if isinstance(dd, RDict):
            if any(key in dd.computed for key in dd):
                state['computed_read_back'] = True
            return dict(dd), {}
        return UNB, {}
    if k == 'id':
        return target, {}
    if k == 'const':
        return r[1], {}
    if k == 'keyfail':
        raise Fail()
    if k == 'fail':
        ev(r[1], target, env, state)        # evaluated (side effects on globals / Vars), then the branch fails
        raise Fail()
    if k in ('tuple', 'pipe'):
        cur, e = target, env
        for x in r[1]:
            cur, db = ev(x, cur, e, state)
            if db:
                e = dict(e)
                e.update(db)
        return cur, {}
    if k == 'lazy':
        # nested in the chain: sees the environment of the chain at the Iter step, binds nothing outside itself - however much
        # of the stream the next step pulls.  The items are evaluated when they are pulled: a plain generator under the
        # itertools composition of the stage and the plain-Python consumer.
        src, stage, cons, wrap, partial = lazy_how(r[2])
        last = [{}]

        def stream():
            for item in LAZY_ITEMS:
                v, last[0] = ev(r[1], item, env, state)
                yield v
        g = stream()
        consume = {'.all': list, '.first': first_truthy}.get(cons) or LAZY_CONSUMERS[cons][1]
        try:
            value = consume(LAZY_STAGES[stage][1](g))
        except StopIteration:
            raise HarnessBug('C07 generator: %r calls next() on an empty stream' % (r[2],))
        finally:
            g.close()
        if wrap == 'dict':
            value = {'c': value}
        # (state['leaky'] is set for the distribution label only: the model in which the item evaluated last hands its
        # bindings to the later steps of the chain)
        return value, (dict(last[0]) if partial and state.get('leaky') else {})
    if k == 'dict':
        return dict(('f%d' % i, ev(x, target, env, state)[0]) for i, x in enumerate(r[1])), {}
    if k == 'list':
        if isinstance(target, (str, bytes)) or not hasattr(target, '__iter__'):
            raise Fail()          # glom does not iterate strings / scalars: a GlomError
        return [ev(r[1], t, env, state)[0] for t in list(target)], {}
    if k in ('coal', 'or'):
        for x in r[1]:
            try:
                return ev(x, target, env, state)[0], {}
            except Fail:
                continue
        raise Fail()
    if k == 'and':
        res = target
        for x in r[1]:
            res = ev(x, target, env, state)[0]
        return res, {}
    if k == 'switch':
        for key, val in r[1]:
            try:
                _, db = ev(key, target, env, state)
            except Fail:
                continue
            e = dict(env)
            e.update(db)
            return ev(val, target, e, state)[0], {}
        raise Fail()
    if k == 'specscope':
        e = dict(env)
        e.update(r[1])
        return ev(r[2], target, e, state)[0], {}
    raise ValueError(r)


def leaves(r, acc):
    k = r[0]
    if k in ('bind', 'abind', 'gbind', 'vbind', 'vset', 'specscope', 'dnew', 'dset'):
        acc['binders'] += 1
    if k in ('read', 'readitem', 'gread', 'vread', 'dread'):
        acc['readers'] += 1
    for x in r[1:]:
        if isinstance(x, list):
            if x and isinstance(x[0], str):
                leaves(x, acc)
            else:
                for y in x:
                    if isinstance(y, list) and y and isinstance(y[0], str):
                        leaves(y, acc)
                    elif isinstance(y, list):
                        for z in y:
                            if isinstance(z, list) and z and isinstance(z[0], str):
                                leaves(z, acc)
    return acc


def has_partial_lazy(r):
    if isinstance(r, list):
        if len(r) == 3 and r[0] == 'lazy' and isinstance(r[2], str) and '|' in r[2]:
            return True
        return any(has_partial_lazy(x) for x in r)
    return False


def canon(v):
    if isinstance(v, RVars):
        return '<vars>'
    if isinstance(v, dict):
        return dict((k, canon(x)) for k, x in v.items())
    if isinstance(v, list):
        return [canon(x) for x in v]
    if type(v).__name__ == 'ScopeVars':
        return '<vars>'
    return v


def check(recipe, ctx):
    tree = recipe['tree']
    acc = leaves(tree, {'binders': 0, 'readers': 0})
    ctx.nontrivial(acc['binders'] >= 1 and acc['readers'] >= 1)
    ctx.label('caller-scope' if recipe['caller'] else 'no-caller-scope')
    if "'lazy'" in repr(tree):
        ctx.label('lazy-iter')
        if has_partial_lazy(tree):
            ctx.label('lazy-partial')
            # would a binding that escapes from the item evaluated last be SEEN by this program?  (the statement's model against
            # the model in which it escapes; used for the label only)
            outs = []
            for leaky in (False, True):
                try:
                    outs.append(canon(ev(tree, [1, 2], dict(recipe['caller'] or {}), {'glob': {}, 'leaky': leaky})[0]))
                except Fail:
                    outs.append(Fail)
            if outs[0] != outs[1]:
                ctx.label('lazy-partial-leak-would-show')
    spec = build(tree)
    where = 'spec=%r caller scope=%r' % (spec, recipe['caller'])
    vias = ['glom']
    if recipe.get('glommer'):
        # "Values passed via scope= are readable through S" holds for the method of a Glommer as for the function
        vias.append('glommer')
        ctx.label('glommer-with-scope' if recipe['caller'] else 'glommer-no-scope')
    for via in vias:
        pre = '' if via == 'glom' else 'glommer-'
        glommer = gl_before = None
        if via == 'glommer':
            glommer = glom.Glommer()
            gl_before = list(glommer.scope.items())
        for rep in range(2):
            target = [1, 2]
            caller = dict(recipe['caller']) if recipe['caller'] else None
            snap = dict(caller) if caller is not None else None
            state = {'glob': {}}
            try:
                exp = ('ok', canon(ev(tree, target, dict(caller or {}), state)[0]))
            except Fail:
                exp = ('fail',)
            if via == 'glom':
                if rep == 0 and state.get('computed_read_back'):
                    ctx.label('a-index-computed-read-back')
                how = where
            else:
                how = 'Glommer().glom(target, spec, scope=...): ' + where
            try:
                kw = {'scope': caller} if caller is not None else {}
                got = ('ok', canon((glom.glom if via == 'glom' else glommer.glom)(target, spec, **kw)))
            except GlomError as e:
                got = ('fail', type(e).__name__)
            except Exception as e:
                raise Mismatch(pre + 'unexpected-exception', '%s: %s: %r' % (how, type(e).__name__, e))
            if via == 'glom':
                ctx.label('exp-' + exp[0])
            if exp[0] != got[0]:
                raise Mismatch(pre + 'outcome', '%s (evaluation #%d): expected %r, got %r' % (how, rep + 1, exp, got))
            if exp[0] == 'ok' and exp[1] != got[1]:
                kind = 'visibility' if rep == 0 else 'outlives-call'
                raise Mismatch(pre + kind, '%s (evaluation #%d of the same spec object): expected %r, got %r'
                               % (how, rep + 1, exp[1], got[1]))
            if caller is not None and (caller != snap or list(caller) != list(snap)):
                raise Mismatch(pre + 'caller-scope-modified', '%s: caller mapping is now %r' % (how, caller))
            if glommer is not None:
                now = list(glommer.scope.items())
                if len(now) != len(gl_before) or any(a[0] is not b[0] or a[1] is not b[1] for a, b in zip(now, gl_before)):
                    raise Mismatch('glommer-scope-modified', '%s: the Glommer\'s own scope changed from %r to %r' % (how, gl_before, now))
    # the method form: Spec(spec, scope=base).glom(target, scope=per_call) - per-call values override the Spec's own,
    # and neither mapping nor the Spec object may remember anything from one call to the next
    base = {'k': 'spec-k'}
    sp = Spec(spec, scope=base)
    for rep, per_call in enumerate(({'j': 'call1-j'}, {'k': 'call2-k'}, {})):
        env = dict(base)
        env.update(per_call)
        state = {'glob': {}}
        try:
            exp = ('ok', canon(ev(tree, [1, 2], env, state)[0]))
        except Fail:
            exp = ('fail',)
        given = dict(per_call)
        try:
            got = ('ok', canon(sp.glom([1, 2], scope=given)))
        except GlomError as e:
            got = ('fail',)
        except Exception as e:
            raise Mismatch('unexpected-exception', '%s via Spec.glom: %s: %r' % (where, type(e).__name__, e))
        if exp != got:
            raise Mismatch('spec-glom-scope', '%s: Spec(spec, scope=%r).glom(t, scope=%r) (call #%d on the same Spec): expected %r, got %r'
                           % (where, {'k': 'spec-k'}, per_call, rep + 1, exp, got))
        if given != per_call or base != {'k': 'spec-k'} or sp.scope != {'k': 'spec-k'}:
            raise Mismatch('caller-scope-modified', '%s: after Spec.glom the mappings are base=%r per-call=%r spec.scope=%r'
                           % (where, base, given, sp.scope))
    ctx.outcome([repr(spec)[:140], exp])


# ---------------------------------------------------------------------------
# Match-dict key bindings

# forms of the binder key:  (the key spec, does it take the item with this key, does the VALUE see k = the key)
#   regex / direct / sbind are binders themselves ("a Match-dict key passes its bindings to its own value spec");
#   in 'abind' the binder is nested in a compound key: invisible to the value
MD_BINDERS = {
    'regex': (lambda keys: Regex('(?P<k>x.*)'), lambda key, keys: key.startswith('x'), True),
    'direct': (lambda keys: A.k, lambda key, keys: True, True),
    'sbind': (lambda keys: S(k=T), lambda key, keys: True, True),
    'abind': (lambda keys: And(M == keys[0], A.k), lambda key, keys: key == keys[0], False),
}


def gen_matchdict(draw):
    keys = draw(st.lists(st.sampled_from(['x1', 'x2', 'y1', 'zz', 'x3']), min_size=1, max_size=4, unique=True))
    return {'keys': keys, 'outer': draw(st.sampled_from([None, 'outer-k'])),
            'first_key': draw(st.sampled_from(['regex', 'regex', 'abind', 'direct', 'sbind'])),
            'optional': draw(st.booleans()),
            # entries of the pattern whose key is a plain constant (they bind nothing), listed before or after the binder
            # entry; the target lists its items in an order of its own
            'const': draw(st.lists(st.sampled_from(keys), max_size=2, unique=True)),
            'const_pos': 'before',       # (keys are tried in the order the pattern lists them; a constant after the binder would never match)
            'target_order': draw(st.permutations(keys)),
            # the binder key as it stands, or marked Required(<binder>): the marker says that some item must fit the key; the key
            # - and what passes its bindings to the value - is the wrapped spec
            'wrap': draw(st.sampled_from(['plain', 'required', 'required'])),
            # where the outer binding of the same name comes from: an earlier step of the chain, or the caller's scope=
            'outer_via': draw(st.sampled_from(['step', 'step', 'caller'])),
            # the reader in the value: directly in the value's dict, or one level further down
            'reader': draw(st.sampled_from(['flat', 'flat', 'nested']))}


def check_matchdict(recipe, ctx):
    from glom import Optional, Required
    keys = recipe['keys']
    target = dict((k, keys.index(k)) for k in recipe.get('target_order', keys))
    const = recipe.get('const', [])
    wrap = recipe.get('wrap', 'plain')
    nested = recipe.get('reader', 'flat') == 'nested'

    def value_spec():
        rd = Coalesce(S.k, default=UNB)
        return Auto({'saw': (T, {'r': rd}, 'r') if nested else rd, 'val': T})
    mk, takes, visible = MD_BINDERS[recipe['first_key']]
    binder = mk(keys)
    pattern = {}
    if recipe.get('const_pos') == 'before':
        for c in const:
            pattern[c] = value_spec()
    if wrap == 'required':
        pattern[Required(binder)] = value_spec()
    elif wrap == 'plain':
        pattern[binder] = value_spec()
    else:
        raise HarnessBug('C07 matchdict: wrap %r' % (wrap,))
    pattern[str] = value_spec()
    if recipe.get('const_pos') == 'after':
        for c in const:
            pattern[c] = value_spec()
    if recipe['optional']:
        pattern[Optional('opt', default=Auto(Coalesce(S.k, default=UNB)))] = object
    spec = Match(pattern)
    caller = None
    if recipe['outer']:
        if recipe.get('outer_via', 'step') == 'caller':
            caller = {'k': recipe['outer']}
        else:
            spec = (S(k=Val(recipe['outer'])), spec)
    outer = recipe['outer'] or UNB
    exp = {}
    taken = 0
    for key in keys:
        # (an item whose key equals a constant key of the pattern is matched by that entry: constants go first)
        by_binder = key not in const and takes(key, keys)
        taken += by_binder
        exp[key] = {'saw': key if by_binder and visible else outer, 'val': target[key]}
    if recipe['optional']:
        exp['opt'] = outer
    # Required(key): "should raise MatchError if the key in the target does not match" - no item fits the marked entry
    exp = ('ok', exp) if taken or wrap != 'required' else ('fail',)
    ctx.nontrivial(len(keys) >= 2)
    ctx.label('entries-%d' % len(keys), 'outer' if recipe['outer'] else 'no-outer')
    if const and len(keys) > len(const):
        ctx.label('constant-key-beside-binder')
    if visible and taken:
        ctx.label('value-reads-key-binding', 'binder-' + recipe['first_key'])
        if wrap == 'required':
            ctx.label('required-binder-key-read')
        if recipe['outer']:
            ctx.label('key-binding-shadows-outer')
    if exp[0] == 'fail':
        ctx.label('required-key-unmatched')
    where = 'glom(%r, %r%s)' % (target, spec, ', scope=%r' % (caller,) if caller else '')
    given = dict(caller) if caller is not None else None
    try:
        got = ('ok', glom.glom(target, spec, **({'scope': given} if given is not None else {})))
    except GlomError as e:
        got = ('fail',)
        if exp[0] == 'ok':
            raise Mismatch('unexpected-exception', '%s: %s: %s' % (where, type(e).__name__, str(e).splitlines()[-1][:200]))
    except Exception as e:
        raise Mismatch('unexpected-exception', '%s: %s: %s' % (where, type(e).__name__, str(e).splitlines()[-1][:200]))
    if got != exp:
        raise Mismatch('key-binding-visibility', '%s: expected %r, got %r' % (where, exp, got))
    if given is not None and (given != caller or list(given) != list(caller)):
        raise Mismatch('caller-scope-modified', '%s: caller mapping is now %r' % (where, given))
    ctx.outcome([keys, got])


# ---------------------------------------------------------------------------
# Ref: nearest enclosing definition, recursion, no leak from siblings

def gen_tree(draw, d):
    kids = [gen_tree(draw, d - 1) for _ in range(draw(st.integers(0, 2)))] if d > 0 else []
    return {'v': draw(st.integers(0, 9)), 'kids': kids}


def gen_ref(draw):
    return {'tree': gen_tree(draw, 3), 'inner': draw(st.sampled_from(['none', 'dict-sibling', 'coalesce-branch', 'list-elem-sibling', 'nested-shadow',
                                                                      'shared-use', 'shared-use-two-calls'])),
            'twice': draw(st.booleans())}


def check_ref(recipe, ctx):
    tree = recipe['tree']
    inner = recipe['inner']
    if inner.startswith('shared-use'):
        # ONE referring Ref object placed under two different definitions of its name: each use resolves to the
        # definition that encloses it
        r = Ref('node')
        def_a = Ref('node', {'A': ('kids', [r]), 'v': 'v'})
        def_b = Ref('node', {'B': ('kids', [r]), 'v': 'v'})

        def exp_of(tag, t):
            return {tag: [exp_of(tag, c) for c in t['kids']], 'v': t['v']}
        ctx.nontrivial(len(tree['kids']) >= 1)
        ctx.label('inner-' + inner)
        try:
            if inner == 'shared-use':
                got = glom.glom(tree, {'a': def_a, 'b': def_b})
                exp = {'a': exp_of('A', tree), 'b': exp_of('B', tree)}
            else:
                got = [glom.glom(tree, def_a), glom.glom(tree, def_b), glom.glom(tree, def_a)]
                exp = [exp_of('A', tree), exp_of('B', tree), exp_of('A', tree)]
        except Exception as e:
            raise Mismatch('unexpected-exception', 'shared Ref: %s: %s' % (type(e).__name__, str(e).splitlines()[-1][:200]))
        if got != exp:
            raise Mismatch('ref-resolution', 'one Ref(\'node\') object used under two definitions (%s) on %r: expected %r, got %r'
                           % (inner, tree, exp, got))
        ctx.outcome([inner, len(tree['kids'])])
        return
    body = {'v': 'v', 'kids': ('kids', [Ref('node')])}
    if inner == 'dict-sibling':
        body['other'] = Ref('node', Val('inner-definition'))         # a sibling definition must not capture 'kids'
    elif inner == 'coalesce-branch':
        body['other'] = Coalesce((Ref('node', Val('inner-definition')), T['nope']), Val('fallback'))
    elif inner == 'list-elem-sibling':
        body['other'] = ('kids', [Ref('node', Val('inner-definition'))])
    elif inner == 'nested-shadow':
        # an inner definition of the same name shadows the outer one for its own subtree only
        body['other'] = Ref('node', {'again': Val(1), 'self': Coalesce(('nope', Ref('node')), Val('inner-body'))})
    spec = Ref('node', body)

    def expect(t):
        out = {'v': t['v'], 'kids': [expect(c) for c in t['kids']]}
        if inner == 'dict-sibling':
            out['other'] = 'inner-definition'
        elif inner == 'coalesce-branch':
            out['other'] = 'fallback'
        elif inner == 'list-elem-sibling':
            out['other'] = ['inner-definition' for _ in t['kids']]
        elif inner == 'nested-shadow':
            out['other'] = {'again': 1, 'self': 'inner-body'}
        return out
    ctx.nontrivial(inner != 'none' and len(tree['kids']) >= 1)
    ctx.label('inner-' + inner)
    where = 'glom(%r, %r)' % (tree, spec)
    for rep in range(2 if recipe['twice'] else 1):
        try:
            got = glom.glom(tree, spec)
        except Exception as e:
            raise Mismatch('unexpected-exception', '%s: %s: %s' % (where, type(e).__name__, str(e).splitlines()[-1][:200]))
        if got != expect(tree):
            raise Mismatch('ref-resolution', '%s: expected %r, got %r' % (where, expect(tree), got))
    # an undefined name does not resolve (no definition outlives its call)
    try:
        glom.glom(tree, Ref('node'))
    except GlomError:
        pass
    except KeyError:
        pass
    except Exception as e:
        raise Mismatch('unexpected-exception', 'Ref without definition: %r' % (e,))
    else:
        raise Mismatch('ref-outlives-call', 'Ref("node") resolved although no definition encloses it')
    ctx.outcome([inner, len(tree['kids'])])


# ---------------------------------------------------------------------------
# specchain: Spec(x, scope={..}) / Ref(name, spec) as a STEP of a tuple / Pipe, followed by readers
#
# Statement: "Spec(scope=) overrides for its subtree", "Ref(name) resolves to the nearest enclosing Ref(name, spec)".  A later
# step of the chain is not in the subtree / not enclosed: it sees what it would see without that step.  Only S(name=..) and
# A.name chain forward.  The unchanged library writes both into the frame the next step chains from (known finding F93);
# sc_model(leaky=True) describes exactly that and is used by the classifier only.

class Unresolved(Exception):
    """Ref(name) without an enclosing definition: a KeyError that no Coalesce inside the spec skips"""


SC_READERS_SPEC = ['read', 'readc', 'readitem', 'nested-dict', 'nested-tuple', 'nested-list']
SC_READERS_REF = ['refuse', 'refuse', 'nested-dict', 'nested-tuple', 'nested-list']


def gen_specchain(draw):
    S_ = st.sampled_from
    binder = draw(S_(['spec', 'refdef']))
    r = {'binder': binder, 'name': draw(S_(NAMES)), 'chain': draw(S_(['tuple', 'pipe'])),
         # 'step' is the form under test; the other two are the controls (the binder is a sibling / one level down)
         'placement': draw(S_(['step', 'step', 'step', 'dict-sibling', 'one-tuple'])),
         'layout': draw(S_(['steps', 'dict']))}
    if binder == 'spec':
        r['outer'] = draw(S_(['none', 'caller', 'earlier-step', 'both']))
        r['body'] = draw(S_(['id', 'readc', 'const', 'chain-bind']))
        r['both_names'] = draw(st.booleans())            # the Spec's scope carries the other name, too
        r['between'] = draw(S_(['none', 'none', 'id', 'const', 'rebind']))
        r['readers'] = draw(st.lists(S_(SC_READERS_SPEC), min_size=1, max_size=3))
    else:
        r['outer'] = draw(S_(['none', 'enclosing-ref']))
        r['body'] = draw(S_(['const', 'id', 'dict']))
        r['between'] = draw(S_(['none', 'none', 'id', 'const']))
        r['readers'] = draw(st.lists(S_(SC_READERS_REF), min_size=1, max_size=3))
    return r


def sc_program(recipe):
    """recipe -> (tree, target, caller scope)"""
    name = recipe['name']
    isspec = recipe['binder'] == 'spec'
    if isspec:
        body = {'id': ['id'], 'readc': ['readc', name], 'const': ['const', 'spec-body'],
                'chain-bind': ['chain', 'tuple', [['bind', name, 'inner-v'], ['readc', name]]]}[recipe['body']]
        scope = {name: 'spec-v'}
        if recipe.get('both_names'):
            scope[[n for n in NAMES if n != name][0]] = 'spec-other'
        binder = ['spec', scope, body]
        simple = {'read': ['read', name], 'readc': ['readc', name], 'readitem': ['readitem', name]}
        inner = ['readc', name]
    else:
        body = {'const': ['const', 'inner-def'], 'id': ['id'], 'dict': ['dict', [['id']]]}[recipe['body']]
        binder = ['refdef', name, body]
        simple = {'refuse': ['refuse', name]}
        inner = ['refuse', name]
    readers = []
    for form in recipe['readers']:
        if form in simple:
            readers.append(simple[form])
        elif form == 'nested-dict':
            readers.append(['dict', [inner]])
        elif form == 'nested-tuple':
            readers.append(['chain', 'tuple', [['id'], inner]])
        elif form == 'nested-list':
            readers.append(['list', inner])
        else:
            raise HarnessBug('C07 specchain: reader form %r' % (form,))
    steps = []
    if recipe['outer'] in ('earlier-step', 'both'):
        steps.append(['bind', name, 'chain-v'])
    between = {'none': [], 'id': [['id']], 'const': [['const', 'between']], 'rebind': [['bind', name, 'later-v']]}[recipe['between']]
    placement = recipe['placement']
    if placement == 'dict-sibling':
        steps.extend(between)
        steps.append(['dict', [binder] + readers])
    else:
        steps.append(binder if placement == 'step' else ['wrap1', binder])
        steps.extend(between)
        if recipe['layout'] == 'dict':
            steps.append(['dict', readers])
        else:
            steps.extend(readers)
    tree = ['chain', recipe['chain'], steps]
    target = [1, 2]
    if recipe['outer'] == 'enclosing-ref':
        # an enclosing definition of the same name; its body descends only where the target has the key 'go', so that a use
        # which resolves to it terminates: on anything else the body gives 'outer-leaf'
        tree = ['refdef', name, ['guard', tree]]
        target = {'go': [1, 2]}
    caller = {'k': 'caller-k', 'j': 'caller-j'} if recipe['outer'] in ('caller', 'both') else None
    return tree, target, caller


def sc_build(r):
    k = r[0]
    if k == 'spec':
        return Spec(sc_build(r[2]), scope=dict(r[1]))
    if k == 'refdef':
        return Ref(r[1], sc_build(r[2]))
    if k == 'refuse':
        return Ref(r[1])
    if k == 'bind':
        return S(**{r[1]: Val(r[2])})
    if k == 'read':
        return getattr(S, r[1])
    if k == 'readc':
        return Coalesce(getattr(S, r[1]), default=UNB)
    if k == 'readitem':
        return Coalesce(S[r[1]], default=UNB)
    if k == 'id':
        return T
    if k == 'const':
        return Val(r[1])
    if k == 'chain':
        steps = [sc_build(x) for x in r[2]]
        return tuple(steps) if r[1] == 'tuple' else Pipe(*steps)
    if k == 'wrap1':
        return (sc_build(r[1]),)
    if k == 'dict':
        return dict(('f%d' % i, sc_build(x)) for i, x in enumerate(r[1]))
    if k == 'list':
        return [sc_build(r[1])]
    if k == 'guard':
        return Coalesce((T['go'], sc_build(r[1])), default='outer-leaf')
    raise HarnessBug('C07 specchain: node %r' % (r,))


def sc_ev(r, target, env, leaky, depth=0):
    """(value, bindings that the LATER steps of the enclosing chain see).  env: name -> value, ('ref', name) -> body.
    leaky=False is the statement; leaky=True additionally hands the Spec's scope / the Ref definition to the later steps."""
    if depth > 60:
        raise HarnessBug('C07 specchain: the reference recursed without end on %r' % (r,))
    k = r[0]
    sub = lambda x, t, e: sc_ev(x, t, e, leaky, depth + 1)
    if k == 'spec':
        e = dict(env)
        e.update(r[1])
        return sub(r[2], target, e)[0], (dict(r[1]) if leaky else {})
    if k == 'refdef':
        e = dict(env)
        e[('ref', r[1])] = r[2]
        return sub(r[2], target, e)[0], ({('ref', r[1]): r[2]} if leaky else {})
    if k == 'refuse':
        body = env.get(('ref', r[1]))
        if body is None:
            raise Unresolved(r[1])
        return sub(body, target, env)[0], {}
    if k == 'bind':
        return target, {r[1]: r[2]}
    if k == 'read':
        if r[1] not in env:
            raise Fail()
        return env[r[1]], {}
    if k in ('readc', 'readitem'):
        return env.get(r[1], UNB), {}
    if k == 'id':
        return target, {}
    if k == 'const':
        return r[1], {}
    if k == 'chain':
        cur, e = target, env
        for x in r[2]:
            cur, db = sub(x, cur, e)
            if db:
                e = dict(e)
                e.update(db)
        return cur, {}
    if k == 'wrap1':
        return sub(r[1], target, env)[0], {}
    if k == 'dict':
        return dict(('f%d' % i, sub(x, target, env)[0]) for i, x in enumerate(r[1])), {}
    if k == 'list':
        if not isinstance(target, (list, dict)):
            raise Fail()          # glom iterates neither strings nor scalars
        return [sub(r[1], t, env)[0] for t in list(target)], {}          # (a dict gives its keys)
    if k == 'guard':
        if not (isinstance(target, dict) and 'go' in target):
            return 'outer-leaf', {}
        try:
            return sub(r[1], target['go'], env)[0], {}
        except Fail:
            return 'outer-leaf', {}
    raise HarnessBug('C07 specchain: node %r' % (r,))


def sc_model(tree, target, caller, leaky):
    try:
        return ('ok', sc_ev(tree, target, dict(caller or {}), leaky)[0])
    except (Fail, Unresolved):
        return ('fail',)


def sc_run(spec, target, caller):
    kw = {'scope': caller} if caller is not None else {}
    try:
        return ('ok', glom.glom(target, spec, **kw))
    except GlomError:
        return ('fail',)


def check_specchain(recipe, ctx):
    tree, target, caller = sc_program(recipe)
    isstep = recipe['placement'] == 'step'
    if isstep:
        ctx.label('spec-scope-step-then-reader' if recipe['binder'] == 'spec' else 'ref-def-step-then-reader')
    else:
        ctx.label('controls', 'control-' + recipe['placement'])
    if recipe['outer'] != 'none':
        ctx.label('with-outer-binding', 'outer-' + recipe['outer'])
    ctx.label('chain-' + recipe['chain'])
    lex = sc_model(tree, target, caller, False)
    ctx.label('leak-would-show' if sc_model(tree, target, caller, True) != lex else 'models-agree')
    ctx.nontrivial(isstep or recipe['outer'] != 'none')
    spec = sc_build(tree)
    where = 'glom(%r, %r%s)' % (target, spec, ', scope=%r' % (caller,) if caller else '')
    for rep in range(2):
        given = dict(caller) if caller is not None else None
        exp = sc_model(tree, target, given, False)
        try:
            got = sc_run(spec, target, given)
        except Exception as e:
            raise Mismatch('chain-unexpected-exception', '%s: %s: %r' % (where, type(e).__name__, e))
        if exp != got:
            raise Mismatch('chain-outcome' if exp[0] != got[0] else 'chain-visibility',
                           '%s (evaluation #%d of the same spec object): expected %r (the later steps are outside the subtree of the '
                           'Spec / not enclosed by the definition), got %r' % (where, rep + 1, exp, got))
        if given is not None and (given != caller or list(given) != list(caller)):
            raise Mismatch('caller-scope-modified', '%s: caller mapping is now %r' % (where, given))
    ctx.outcome([repr(spec)[:140], lex])


def is_f93(recipe, mm):
    """known finding F93: the observed outcome is exactly what the model predicts in which Spec(scope=) / Ref(name, spec) write
    into the frame the next step chains from, and that differs from the statement's model"""
    if 'binder' not in recipe or mm.kind not in ('chain-outcome', 'chain-visibility'):
        return False
    tree, target, caller = sc_program(recipe)
    lex = sc_model(tree, target, caller, False)
    leak = sc_model(tree, target, caller, True)
    got = sc_run(sc_build(tree), target, dict(caller) if caller is not None else None)
    return got == leak and got != lex


CLASSIFIERS = {'F93-spec-scope-chains': is_f93}


SUBS = [
    Sub('scope', check, gen=gen, quick=5000, thorough=20000, floors={'caller-scope': 0.3, 'exp-ok': 0.5, 'lazy-iter': 0.05,
                'glommer-with-scope': 0.07, 'a-index-computed-read-back': 0.05,
                'lazy-partial': 0.08, 'lazy-partial-leak-would-show': 0.04}),
    Sub('matchdict', check_matchdict, gen=gen_matchdict, quick=800, thorough=3000,
        floors={'value-reads-key-binding': 0.3, 'required-binder-key-read': 0.15, 'key-binding-shadows-outer': 0.09}),
    Sub('ref', check_ref, gen=gen_ref, quick=600, thorough=2500),
    Sub('specchain', check_specchain, gen=gen_specchain, quick=800, thorough=3000,
        # (shares of the cases that PASS: while F93 is open most step cases are known-finding hits and not counted in the
        # denominator; the floors are set against the shares of all generated cases, so they also hold once it is repaired)
        floors={'spec-scope-step-then-reader': 0.15, 'ref-def-step-then-reader': 0.15, 'with-outer-binding': 0.3, 'controls': 0.18}),
]
