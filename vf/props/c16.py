"""C16 — Group builds exactly the buckets and aggregates of a hand-written loop.

Sub-checks
  group        item sequences x Group spec trees with 1-3 key levels (T expressions, callables,
               SKIP-producing callables, constant Val) ending in [value_spec] / First (top level
               only) / Max / Min / Avg / Sum / Count / Flatten / Merge / dict-of-aggregators / a
               top-level Limit(n[, sub]); the same spec object evaluated repeatedly, per row of a
               list spec, and nested inside another Group's aggregator.
               Two constructed classes on top of the general one:
                 idkey   an item whose bucket key is id(<the dict spec of that level>) (the item is a placeholder
                         ['id', path] in the recipe; the number is spliced in once the spec objects exist) - F61
                 num-*   big ints (beyond 2**53), Fractions, Decimals routed to Avg leaves - F62
                 vec     items of a sum()-friendly user class (0 + v is v itself, += works in place, v / n divides the components)
                         routed to Avg leaves (bare, below key levels, inside a dict of aggregators); the reference runs on copies
                         of the items, and the items handed to glom are compared with a snapshot after every evaluation - F103
  nested       rows {'k': int, 'vals': [ints]} x an enclosing Group whose chain holds an inner Group over row['vals']:
               Pipe(T['vals'], Group(<inner tree>), <leaf of the enclosing Group>) at top level, below a key level, under
               two constant keys that share one inner Group object, inside the leaf's own sub-spec, or as the key spec.
               Constructed class: the inner Group ENDS BY STOP (First() over >= 2 values, Limit(n) over > n values) and
               the step after it accumulates over >= 2 rows of the enclosing Group.
               Reference: per row the inner Group is a complete Group of its own (refgroup over row['vals']); the leaf
               of the enclosing Group is the plain-Python aggregate of those per-row results ("nesting a Group spec
               object never carries data over"; "accumulation state lives ... for the duration of one evaluation").
  pipelevel    ints x an enclosing Group whose spec is a Pipe that STARTS with a level of its own - a {key: ...} tree of 1-2
               levels, the same inside a Limit(n) that is never used up, or a bare Limit(n) - and goes on with an accumulating
               step: Count(), [snapshot], (len, Sum()), or a dict of both; at top level, below a key level, inside a top-level
               Limit.  Reference: the hand-written loop - every item updates the buckets of the level, then the later step sees
               the level's present value, once per item (F104-nested).
  first-under-key   First() below one key level (known finding F15 lives here, by construction)

Oracle: refgroup() - an explicit bucketing loop with insertion-ordered dicts.
"""
import copy
import functools
import operator
from decimal import Decimal
from fractions import Fraction

from hypothesis import strategies as st

import glom
from glom import T, Val, SKIP, Sum, Flatten, Merge, GlomError, Pipe
from glom.grouping import Group, First, Max, Min, Avg, Limit
from glom.reduction import Count

from ..runner import Sub, Mismatch, HarnessBug
from .. import targets as tg

PROPERTY = 'C16'
RULE = ('items: 0-8 small ints (negative, zero, positive), in constructed classes also id(<dict spec>), ints beyond 2**53, Fractions, Decimals; '
        'spec trees: 0-3 key levels over {T, T % 2, T % 3, callable, SKIP-producing callable, Val} '
        '(key specs of one level have disjoint key ranges) and the listed leaves; every spec object is evaluated twice and '
        'also per row / inside another Group. Non-trivial = >= 2 key levels or an aggregator leaf, with >= 2 buckets of >= 2 items. '
        'nested: 0-5 rows {k, vals: 0-5 small ints} x an inner Group (First / Limit(n[, tree]) / tree of 0-2 key levels) in the chain of an '
        'enclosing Group (top level / below one key level / shared under two constant keys / inside the leaf / as key spec) x the '
        'leaves [T], Count, Sum, Max, Min, Avg, Flatten, Merge of the enclosing Group; non-trivial = >= 2 rows reach one accumulator. '
        'group, class vec: 1-8 two-component vectors of a sum()-friendly class (4 variants) x trees over {T.xs[0] % 2, T.xs[1] % 3, callable, '
        'SKIP-producing callable, Val} with the leaves Avg, {Val: Avg(), Val: Count(), Val: [T]}, Sum, Count, [T]. '
        'pipelevel: 0-8 small ints x Pipe(<level>, <later step>) in an enclosing Group (top / below one key level / in a top-level Limit); '
        'non-trivial = >= 2 items reach one accumulator of the later step.')
ASSUMPTIONS = [
    'Avg reference: functools.reduce(operator.add, xs, 0) / len(xs) - exact for ints (true division rounds once), Fractions and Decimals',
    'Avg over items of a user class: the same reference, computed on copies of the items (+ and / are the class\'s own); an aggregator reads its '
    'items and never writes to them (C15 says so for Sum / Fold / Flatten; for the leaves of a Group it follows from "equal their Python references": '
    'sum(xs) / len(xs) leaves xs alone, and from "re-using a Group spec object never carries data over": the second evaluation gets the same items)',
    'pipelevel: a {key: ...} level that is a step of a Pipe yields, per item, the dictionary built so far (what the level returns at the end is the '
    'value of its last item); the next step of the Pipe is a step of the enclosing Group and sees one value per item; a key spec answering SKIP keeps '
    'the item out of that key spec\'s buckets only. A Limit as the first step is generated only with n >= the number of items it sees (a used-up '
    'Limit answers STOP inside the Pipe: see the last assumption)',
    'an item that stands for id(<dict spec>) is known only after the spec is built: its value differs between processes, its position and the dict it names do not',
    'top-level aggregators on empty input, Limit below a key level and two key specs producing the same bucket key are outside the statement and not generated',
    'First/STOP-producing leaves below a key level are generated only in the first-under-key sub-check (known finding F15)',
    'nested: a Group in the chain of another Group is read as a complete Group of its own over the value it receives (what Group means '
    'everywhere else); the leaf of the enclosing Group after it aggregates the per-row results like any leaf aggregates items',
    'nested: the enclosing leaf after the inner Group is never First / Limit: a STOP answered by a step of a Pipe ends that Pipe (documented '
    'meaning of STOP in a chain) and never reaches the Group - Group(Pipe(T, First())) over [1, 2, 3] gives 3 - so the statement has no say there',
]


def big(x):
    return 'big' if x > 4 else 'small'


def skipodd(x):
    return SKIP if x % 2 else x % 4


def dup(x):
    return [x, x + 1]


def asdict(x):
    return {x % 2: x, 'last': x}


def skip3(x):
    return SKIP if x == 3 else x


class Vec(object):
    """item class with the common "make sum() work" idiom: 0 + v is v itself; += works in place; v / n divides the components"""
    def __init__(self, *xs):
        self.xs = list(xs)

    def _zero(self):
        return not any(self.xs)

    def __add__(self, other):
        if not isinstance(other, Vec):
            return NotImplemented
        return type(self)(*[a + b for a, b in zip(self.xs, other.xs)])

    def __radd__(self, other):
        if not isinstance(other, Vec) and other == 0:
            return self
        return NotImplemented

    def __iadd__(self, other):
        if not isinstance(other, Vec):
            return NotImplemented
        self.xs[:] = [a + b for a, b in zip(self.xs, other.xs)]
        return self

    def __truediv__(self, n):
        if isinstance(n, Vec):
            return NotImplemented
        return type(self)(*[a / n for a in self.xs])

    def __eq__(self, other):
        # (components by repr: 3 is not 3.0, 0.0 is not -0.0)
        return type(other) is type(self) and [repr(a) for a in self.xs] == [repr(b) for b in other.xs]

    def __ne__(self, other):
        return not self == other

    __hash__ = None

    def __repr__(self):
        return '%s%r' % (type(self).__name__, tuple(self.xs))


class VecR(Vec):
    """as Vec, += rebinds the component list instead of filling it"""
    def __iadd__(self, other):
        if not isinstance(other, Vec):
            return NotImplemented
        self.xs = [a + b for a, b in zip(self.xs, other.xs)]
        return self


class VecA(Vec):
    """as Vec, + hands back an operand where the other one is the zero vector"""
    def __add__(self, other):
        if not isinstance(other, Vec):
            return NotImplemented
        if other._zero():
            return self
        if self._zero():
            return other
        return Vec.__add__(self, other)


class VecC(Vec):
    """the careful variant: 0 + v is a copy of v (its += is in place all the same)"""
    def __radd__(self, other):
        if not isinstance(other, Vec) and other == 0:
            return type(self)(*self.xs)
        return NotImplemented


VECS = {'radd0': Vec, 'radd0-rebind': VecR, 'add-operand': VecA, 'radd-copy': VecC}
RADD_SELF = ('radd0', 'radd0-rebind', 'add-operand')


def vbig(v):
    return 'big' if v.xs[0] > 4 else 'small'


def vskip(v):
    return SKIP if v.xs[1] % 2 else v.xs[1] % 4


# third field: the range of keys (None: any value at all, so no second key spec can sit at the same level)
KEYS = {
    'ident': (lambda: T, lambda x: x, None),
    'mod2': (lambda: T % 2, lambda x: x % 2, {0, 1}),
    'mod3': (lambda: T % 3, lambda x: x % 3, {0, 1, 2}),
    'big': (lambda: big, big, {'big', 'small'}),
    'skipodd': (lambda: skipodd, skipodd, {0, 2}),
    'const': (lambda: Val('all'), lambda x: 'all', {'all'}),
    # over Vec items
    'vx2': (lambda: T.xs[0] % 2, lambda v: v.xs[0] % 2, {0, 1}),
    'vy3': (lambda: T.xs[1] % 3, lambda v: v.xs[1] % 3, {0, 1, 2}),
    'vbig': (lambda: vbig, vbig, {'big', 'small'}),
    'vskip': (lambda: vskip, vskip, {0, 2}),
}
INTKEYS = ['big', 'const', 'ident', 'mod2', 'mod3', 'skipodd']
VECKEYS = ['const', 'vbig', 'vskip', 'vx2', 'vy3']
LEAVES = ['list', 'listx2', 'max', 'min', 'avg', 'sum', 'count', 'aggdict', 'listskip', 'flatten', 'merge']


VECLEAVES = ['avg', 'avg', 'vaggdict', 'vaggdict', 'sum', 'count', 'list']
NUMLEAVES = ['avg', 'avg', 'avg', 'sum', 'max', 'min', 'count', 'list', 'aggdict']
SMALL = list(range(-4, 10))
BIGINTS = [2 ** 53, 2 ** 53 + 1, 2 ** 53 + 3, 2 ** 54 + 2, 2 ** 60 + 1, 2 ** 63 - 1, 2 ** 64 + 1, 10 ** 17 + 1, 3 ** 40, -(2 ** 53) - 1,
           -(2 ** 62) - 3, 2 ** 80 + 12345]
DECIMALS = ['0.1', '0.2', '1.5', '2.50', '-3.25', '1E+2', '7', '0.333', '-0.5', '12.125']


def gen_tree(draw, levels, top=True, leaves=LEAVES, names=INTKEYS):
    if levels == 0:
        return ['leaf', draw(st.sampled_from(leaves + (['first'] if top and leaves is LEAVES else [])))]
    k1 = draw(st.sampled_from(names))
    entries = [[k1, gen_tree(draw, levels - 1, False, leaves, names)]]
    if draw(st.integers(0, 4)) == 0:
        others = [k for k in names if KEYS[k][2] is not None and KEYS[k1][2] is not None and not (KEYS[k][2] & KEYS[k1][2])]
        if others:
            entries.append([draw(st.sampled_from(others)), gen_tree(draw, levels - 1, False, leaves, names)])
    return ['dict', entries]


def gen_idkey(draw):
    """an item whose key at one dict level is id(<that dict spec>): the level's key spec is T itself, the item a placeholder"""
    nlev = draw(st.sampled_from([1, 1, 2, 2, 3]))
    tree = gen_tree(draw, nlev, False)
    path, node = [], tree
    for _ in range(draw(st.sampled_from(range(nlev)))):
        i = draw(st.sampled_from(range(len(node[1]))))
        path.append(i)
        node = node[1][i][1]
    node[1] = [['ident', node[1][0][1]]]
    n = draw(st.integers(2, 7))
    items = [draw(st.sampled_from(SMALL)) for _ in range(n)]
    # always followed by at least one more item: the lost accumulator shows in what is returned for the NEXT item of that level
    items.insert(draw(st.sampled_from(range(n))), ['id', path])
    if draw(st.booleans()):
        items.insert(draw(st.sampled_from(range(n + 2))), ['id', path])
    return tree, items


def gen_numeric(draw, kind):
    """big ints / Fractions / Decimals as the inputs of Avg (first leaf of the tree is Avg, the others are drawn)"""
    tree = gen_tree(draw, draw(st.integers(0, 3)), False, NUMLEAVES)
    node = tree
    while node[0] == 'dict':
        node = node[1][0][1]
    node[1] = 'avg'
    items = []
    for _ in range(draw(st.integers(1, 8))):
        if draw(st.integers(0, 3)) == 0:
            items.append(draw(st.sampled_from(SMALL)))
        elif kind == 'bigint':
            if draw(st.booleans()):
                items.append(draw(st.sampled_from(BIGINTS)))
            else:
                items.append(2 ** draw(st.sampled_from(range(53, 90))) + draw(st.sampled_from([-3, -1, 1, 3, 5, 7])))
        elif kind == 'fraction':
            items.append(['F', draw(st.sampled_from(range(-9, 30))), draw(st.sampled_from([2, 3, 4, 5, 7, 10, 49]))])
        else:
            items.append(['D', draw(st.sampled_from(DECIMALS))])
    return tree, items


def gen_vecitems(draw, kind, sizes):
    comp = st.sampled_from(range(-4, 10))
    return [['V', kind, draw(comp), draw(comp)] for _ in range(draw(st.sampled_from(sizes)))]


def gen_vec(draw):
    """vectors of one sum()-friendly class as the inputs of Avg (first leaf of the tree is Avg - bare or in a dict of aggregators)"""
    tree = gen_tree(draw, draw(st.sampled_from([0, 0, 0, 1, 1, 1, 2, 2, 3])), False, VECLEAVES, VECKEYS)
    node = tree
    while node[0] == 'dict':
        node = node[1][0][1]
    node[1] = draw(st.sampled_from(['avg', 'avg', 'vaggdict']))
    kind = draw(st.sampled_from(sorted(RADD_SELF) * 2 + ['radd-copy']))
    return tree, gen_vecitems(draw, kind, [1, 2, 3, 3, 4, 4, 5, 6, 7, 8]), kind


def gen(draw):
    cls = draw(st.sampled_from(['plain'] * 5 + ['vec'] * 2 + ['idkey'] * 2 + ['bigint', 'fraction', 'decimal']))
    if cls == 'idkey':
        tree, items = gen_idkey(draw)
    elif cls == 'vec':
        tree, items, kind = gen_vec(draw)
    elif cls != 'plain':
        tree, items = gen_numeric(draw, cls)
    else:
        tree = gen_tree(draw, draw(st.integers(0, 3)))
        n = draw(st.integers(0, 8))
        # ints plus a few equal-but-distinguishable values (1 / 1.0 / True, 2 / 2.0, 0 / 0.0 / False): ties must go to the first
        items = [draw(st.sampled_from(SMALL + [1.0, 2.0, 0.0, True, False, 4.0])) for _ in range(n)]
    if draw(st.integers(0, 7)) == 0:
        tree = ['limit', draw(st.integers(0, 5)), tree if draw(st.booleans()) else None]
    summable = tree[0] == 'leaf' and tree[1] in ('count', 'sum', 'max', 'min')
    # (the constructed classes rarely are a bare aggregator: the nested evaluation gets a larger share of those that are)
    nest = draw(st.sampled_from(['plain', 'plain', 'rows', 'sum-of-groups'] + (['sum-of-groups'] * 2 if summable else [])))
    if nest == 'sum-of-groups' and not summable:
        nest = 'plain'
    if cls == 'vec':
        rows = [gen_vecitems(draw, kind, [1, 2, 3, 4]) for _ in range(draw(st.integers(0, 3)))]
        return {'tree': tree, 'items': items, 'nest': nest, 'rows': rows, 'cls': 'vec'}
    rows = [[draw(st.integers(-4, 9)) for _ in range(draw(st.integers(1, 4)))] for _ in range(draw(st.integers(0, 3)))]
    return {'tree': tree, 'items': items, 'nest': nest, 'rows': rows}


def dict_at(tree, spec, path):
    """(recipe node, built object) of the dict spec that `path` (entry indexes, a top-level Limit is looked through) names:
    the deepest dict on the way if the path runs past a leaf; (None, None) if there is no dict at all"""
    found = (None, None)
    path = list(path)
    while True:
        if tree[0] == 'limit':
            if tree[2] is None:
                return found
            tree, spec = tree[2], (spec.subspec if spec is not None else None)
            continue
        if tree[0] != 'dict':
            return found
        found = (tree, spec)
        if not path:
            return found
        i = path.pop(0) % len(tree[1])
        tree, spec = tree[1][i][1], (list(spec.values())[i] if spec is not None else None)


def decode_items(items, tree, built):
    """recipe items -> values; ['id', path] becomes id() of the built dict spec object (0 if the tree has no dict)"""
    out = []
    for v in items:
        if isinstance(v, list):
            if v[0] == 'F':
                v = Fraction(v[1], v[2])
            elif v[0] == 'D':
                v = Decimal(v[1])
            elif v[0] == 'V':
                v = VECS[v[1]](*v[2:])
            elif v[0] == 'id':
                obj = dict_at(tree, built, v[1])[1]
                v = id(obj) if obj is not None else 0
            else:
                raise ValueError(v)
        out.append(v)
    return out


def route(tree, path, x):
    """bucket keys above the dict that `path` names for item x, None when a key spec on the way drops x"""
    keys = []
    path = list(path)
    if tree[0] == 'limit':
        tree = tree[2] or ['leaf', 'list']
    while path and tree[0] == 'dict':
        i = path.pop(0) % len(tree[1])
        nxt = tree[1][i][1]
        if nxt[0] != 'dict':
            break
        k = KEYS[tree[1][i][0]][1](x)
        if k is SKIP:
            return None
        keys.append(k)
        tree = nxt
    return keys


def idkey_labels(recipe, tree, items):
    """'idkey': an item equals id() of a dict spec whose own key spec is T (so the id is the bucket key at that very level);
    'idkey-followed': a later item reaches the same accumulator (same buckets above, inside a top-level Limit)"""
    labs = set()
    seen = items[:tree[1]] if tree[0] == 'limit' else items
    for i, v in enumerate(recipe['items'][:len(seen)]):
        if not (isinstance(v, list) and v[0] == 'id'):
            continue
        node = dict_at(tree, None, v[1])[0]
        if node is None or not any(k == 'ident' for k, _ in node[1]):
            continue
        mine = route(tree, v[1], seen[i])
        if mine is None:
            continue
        labs.add('idkey')
        if any(route(tree, v[1], y) == mine for y in seen[i + 1:]):
            labs.add('idkey-followed')
    return labs


def build(r):
    if r[0] == 'leaf':
        k = r[1]
        return {'list': lambda: [T], 'listx2': lambda: [T * 2], 'first': First, 'max': Max, 'min': Min, 'avg': Avg,
                'sum': Sum, 'count': Count, 'flatten': lambda: Flatten(dup), 'merge': lambda: Merge(asdict),
                'aggdict': lambda: {Val('mx'): Max(), Val('n'): Count(), Val('all'): [T]},
                'vaggdict': lambda: {Val('avg'): Avg(), Val('n'): Count(), Val('all'): [T]},
                'listskip': lambda: [skip3]}[k]()
    if r[0] == 'limit':
        return Limit(r[1]) if r[2] is None else Limit(r[1], build(r[2]))
    return dict((KEYS[k][0](), build(sub)) for k, sub in r[1])


EMPTY = object()


def refleaf(kind, items, zero=0):
    if kind == 'list':
        return list(items)
    if kind == 'listx2':
        return [x * 2 for x in items]
    if kind == 'first':
        return items[0]
    if kind == 'max':
        return max(items)
    if kind == 'min':
        return min(items)
    if kind == 'avg':
        # sum(xs) / len(xs), the sum started from an exact zero (zero=0.0 only measures which cases depend on that)
        return functools.reduce(operator.add, items, zero) / len(items)
    if kind == 'sum':
        return sum(items)
    if kind == 'count':
        return len(items)
    if kind == 'flatten':
        out = []
        for x in items:
            out += dup(x)
        return out
    if kind == 'merge':
        out = {}
        for x in items:
            out.update(asdict(x))
        return out
    if kind == 'aggdict':
        return {'mx': max(items), 'n': len(items), 'all': list(items)}
    if kind == 'vaggdict':
        return {'avg': functools.reduce(operator.add, items, zero) / len(items), 'n': len(items), 'all': list(items)}
    if kind == 'listskip':
        return [x for x in items if x != 3]
    raise ValueError(kind)


def refgroup(r, items, zero=0):
    """the dictionary a hand-written bucketing loop builds"""
    if r[0] == 'leaf':
        return refleaf(r[1], items, zero)
    if r[0] == 'limit':
        sub = r[2] if r[2] is not None else ['leaf', 'list']
        return refgroup(sub, items[:r[1]], zero)
    buckets = {}
    order = []
    for x in items:
        for k, sub in r[1]:
            key = KEYS[k][1](x)
            if key is SKIP:
                continue
            if key not in buckets:
                buckets[key] = (sub, [])
                order.append(key)
            buckets[key][1].append(x)
    out = {}
    for key in order:
        sub, xs = buckets[key]
        out[key] = refgroup(sub, xs, zero)
    return out


def leaf_inputs(r, items):
    """[(leaf kind, the items routed to that leaf)] for every accumulator of the tree"""
    if r[0] == 'leaf':
        return [(r[1], list(items))]
    if r[0] == 'limit':
        return leaf_inputs(r[2] if r[2] is not None else ['leaf', 'list'], items[:r[1]])
    out = []
    for k, sub in r[1]:
        order, buckets = [], {}
        for x in items:
            key = KEYS[k][1](x)
            if key is SKIP:
                continue
            if key not in buckets:
                buckets[key] = []
                order.append(key)
            buckets[key].append(x)
        for key in order:
            out += leaf_inputs(sub, buckets[key])
    return out


def snap(values):
    """class and contents of every item (the statement's leaves read their items; none of them writes to one)"""
    return [(type(x).__name__, repr(x)) for x in values]


def needs_items(r):
    """specs whose result on an empty input is outside the statement"""
    if r[0] == 'leaf':
        return r[1] not in ('list', 'listx2', 'listskip')
    if r[0] == 'limit':
        # a limited list / dict starts out as the empty list / dict like an unlimited one
        return needs_items(r[2]) if r[2] is not None else False
    return False


def levels(r):
    if r[0] == 'dict':
        return 1 + max(levels(s) for _, s in r[1])
    if r[0] == 'limit':
        return levels(r[2]) if r[2] is not None else 0
    return 0


def has_agg(r):
    if r[0] == 'leaf':
        return r[1] not in ('list', 'listx2', 'listskip')
    if r[0] == 'limit':
        return has_agg(r[2]) if r[2] is not None else False
    return any(has_agg(s) for _, s in r[1])


def same_with_order(a, b):
    if type(a) is not type(b):
        return False
    if isinstance(a, float) and repr(a) != repr(b):
        return False
    if isinstance(a, dict):
        return list(a.keys()) == list(b.keys()) and all(same_with_order(a[k], b[k]) for k in a)
    if isinstance(a, list):
        return len(a) == len(b) and all(same_with_order(x, y) for x, y in zip(a, b))
    return a == b


def mutable_ids(v, acc=None):
    acc = set() if acc is None else acc
    if isinstance(v, (list, dict)):
        acc.add(id(v))
        for x in (v.values() if isinstance(v, dict) else v):
            mutable_ids(x, acc)
    return acc


def has_leaf(r, kind):
    if r[0] == 'leaf':
        return r[1] == kind
    if r[0] == 'limit':
        return has_leaf(r[2], kind) if r[2] is not None else False
    return any(has_leaf(s, kind) for _, s in r[1])


def check(recipe, ctx):
    tree, ritems = recipe['tree'], list(recipe['items'])
    if tree[0] == 'limit' and tree[1] == 0 and needs_items(tree):
        tree = ['limit', 1, tree[2]]       # an aggregator over no items at all is outside the statement
    vec = recipe.get('cls') == 'vec'
    veckind = ritems[0][1] if vec and ritems else 'radd0'
    if not ritems and needs_items(tree):
        ritems = [['V', 'radd0', 1, 2]] if vec else [4]
    built = build(tree)
    spec = Group(built)
    items = decode_items(ritems, tree, built)      # id(<dict spec>) items exist only now
    ref_items = decode_items(ritems, tree, built)  # the reference works on copies of its own
    before = snap(items)
    exp = refgroup(tree, ref_items)
    nbuckets = len(exp) if isinstance(exp, dict) else 0
    ctx.label('levels-%d' % levels(tree), 'nest-' + recipe['nest'], 'leaf-agg' if has_agg(tree) else 'leaf-list')
    # the constructed classes; the mismatch kind carries the class so that each is shrunk and reported on its own
    suffix = ''
    idlabs = idkey_labels(dict(recipe, items=ritems), tree, items)
    if idlabs:
        ctx.label(*sorted(idlabs))
        suffix = '-idkey'
    if has_leaf(tree, 'avg'):
        kinds = set('bigint' if type(x) is int and abs(x) >= 2 ** 53 else type(x).__name__ for x in items)
        kinds = sorted(kinds & {'bigint', 'Fraction', 'Decimal'})
        for k in kinds:
            ctx.label('avg-num-' + k)
        try:
            from_float = same_with_order(refgroup(tree, ref_items, 0.0), exp)
        except TypeError:
            from_float = False
        if not from_float:
            ctx.label('avg-needs-exact-sum')       # a sum started from the float 0.0 gives another answer (or none)
            suffix = suffix or '-avg-' + ('+'.join(kinds) or 'exact')
    if vec:
        suffix = '-vec'
        kind = veckind
        avgs = [xs for leaf, xs in leaf_inputs(tree, ref_items) if leaf in ('avg', 'vaggdict')]
        if avgs:
            ctx.label('avg-vec', 'avg-vec-' + kind)
        # the sum of such a leaf has a second term that changes it: 0 + first is the first item itself, the next + decides
        if kind in RADD_SELF and any(len(xs) >= 2 and not all(x._zero() for x in xs[1:]) for xs in avgs):
            ctx.label('avg-vec-radd-self/items>=2')
    ctx.nontrivial((levels(tree) >= 2 or has_agg(tree)) and nbuckets >= 2 and len(items) >= 4)
    where = 'spec=%r items=%r' % (spec, items)
    if snap(ref_items) != before:
        raise HarnessBug('the reference changed its items: %s' % where)
    results = []
    for rep in range(2):
        try:
            got = glom.glom(list(items), spec)
        except Exception as e:
            raise Mismatch('unexpected-error' + suffix, '%s (evaluation #%d): %s: %r' % (where, rep + 1, type(e).__name__, e))
        if snap(items) != before:
            raise Mismatch('input-modified' + suffix, '%s (evaluation #%d): the items are %r afterwards (result %r, expected %r)'
                           % (where, rep + 1, items, got, exp))
        if not same_with_order(got, exp):
            raise Mismatch(('wrong-result' if rep == 0 else 'carry-over') + suffix,
                           '%s (evaluation #%d of the same spec object): expected %r, got %r' % (where, rep + 1, exp, got))
        results.append(got)
    if mutable_ids(results[0]) & mutable_ids(results[1]):
        raise Mismatch('results-share-state', '%s: two evaluations share a mutable object' % where)
    # evaluation on a different input in between must not leak either
    other = [VECS[veckind](9, 9), VECS[veckind](9, 1), VECS[veckind](8, 0)] if vec else [9, 9, 8]
    try:
        glom.glom(other, spec)
        again = glom.glom(list(items), spec)
    except Exception as e:
        raise Mismatch('unexpected-error' + ('-vec' if vec else ''), '%s: %r' % (where, e))
    if snap(items) != before:
        raise Mismatch('input-modified' + suffix, '%s (evaluation #3): the items are %r afterwards' % (where, items))
    if not same_with_order(again, exp):
        raise Mismatch('carry-over' + ('-vec' if vec else ''), '%s: after evaluating other data, expected %r, got %r' % (where, exp, again))
    if recipe['nest'] == 'rows':
        rows = [decode_items(r, tree, built) for r in recipe['rows']]
        rows_before = [snap(r) for r in rows]
        exp_rows = [refgroup(tree, decode_items(r, tree, built)) for r in recipe['rows']]
        try:
            got_rows = glom.glom([list(r) for r in rows], [spec])
        except Exception as e:
            raise Mismatch('unexpected-error' + ('-vec' if vec else ''), '%s rows=%r: %r' % (where, rows, e))
        if [snap(r) for r in rows] != rows_before:
            raise Mismatch('input-modified' + suffix, '%s applied per row to %r: the rows are %r afterwards'
                           % (where, recipe['rows'], rows))
        if not same_with_order(got_rows, exp_rows):
            raise Mismatch('carry-over-rows' + ('-vec' if vec else ''), '%s applied per row to %r: expected %r, got %r'
                           % (where, rows, exp_rows, got_rows))
    if recipe['nest'] == 'sum-of-groups' and recipe['rows']:
        rows = recipe['rows']
        outer = Group(Sum(spec))
        exp_sum = sum(refgroup(tree, r) for r in rows)
        try:
            got_sum = glom.glom([list(r) for r in rows], outer)
        except Exception as e:
            raise Mismatch('nested-group-error', '%r on %r: %s: %r' % (outer, rows, type(e).__name__, e))
        if got_sum != exp_sum:
            raise Mismatch('nested-group', '%r on %r: expected %r, got %r' % (outer, rows, exp_sum, got_sum))
        ctx.label('nested-group-evaluated')
    ctx.outcome([repr(spec)[:100], repr(exp)[:100]])


# ---------------------------------------------------------------------------
# a Group nested in the chain of an enclosing Group

def skipk(row):
    return SKIP if row['k'] == 3 else row['k']


def keep(x):
    return x


# key specs of the enclosing Group over a row {'k': int, 'vals': [...]}: name -> (build, reference)
OKEYS = {
    'k': (lambda: T['k'], lambda row: row['k']),
    'kmod2': (lambda: T['k'] % 2, lambda row: row['k'] % 2),
    'skipk': (lambda: skipk, skipk),
    'const': (lambda: Val('all'), lambda row: 'all'),
}
# leaves of the enclosing Group, by the kind of value the inner Group hands them
OLEAVES = {'any': ['list', 'list', 'count'], 'num': ['sum', 'sum', 'max', 'min', 'avg'], 'list': ['flatten', 'flatten'],
           'dict': ['merge', 'merge']}
OBUILD = {'list': lambda sub: [sub], 'count': lambda sub: Count(), 'sum': Sum, 'max': lambda sub: Max(),
          'min': lambda sub: Min(), 'avg': lambda sub: Avg(), 'flatten': Flatten, 'merge': Merge}
INLEAF = ('list', 'sum', 'flatten', 'merge')      # leaves that take a sub-spec: the chain with the inner Group may sit inside them


def result_kind(r):
    """what Group(<tree r>) returns: a number, a list or a dict"""
    if r[0] == 'limit':
        return result_kind(r[2]) if r[2] is not None else 'list'
    if r[0] == 'dict':
        return 'dict'
    return 'list' if r[1] in ('list', 'listx2', 'listskip', 'flatten') else 'dict' if r[1] in ('merge', 'aggdict') else 'num'


def ends_by_stop(r, n):
    """does Group(<tree r>) over n items end because its spec answers STOP (and not because the input is used up)?
    returns None / 'first' / 'limit'"""
    if r[0] == 'limit':
        if n > r[1]:
            return 'limit'
        return ends_by_stop(r[2], n) if r[2] is not None else None
    return 'first' if r[0] == 'leaf' and r[1] == 'first' and n >= 2 else None


def gen_nested(draw):
    S = st.sampled_from
    end = draw(S(['first', 'first', 'limit', 'limit', 'limit-sub', 'limit-sub', 'free', 'free', 'free']))
    if end == 'first':
        inner = ['leaf', 'first']
    elif end == 'limit':
        inner = ['limit', draw(S([0, 1, 1, 2, 2, 3])), None]
    elif end == 'limit-sub':
        inner = ['limit', draw(S([1, 1, 2, 2, 3])), gen_tree(draw, draw(S([0, 0, 1, 2])))]
    else:
        inner = gen_tree(draw, draw(S([0, 0, 1, 1, 2])))
    kind = result_kind(inner)
    form = draw(S(['top', 'top', 'bucket', 'bucket', 'bucket', 'share'] + (['key'] if kind == 'num' else [])))
    leaf = draw(S(OLEAVES['any'] + OLEAVES[kind]))
    if form == 'key':
        leaf = 'list'
    pos = 'in-leaf' if form != 'key' and leaf in INLEAF and draw(S(range(4))) == 0 else 'chain'
    lo = 1 if needs_items(inner) else 0
    rows = [[draw(S([0, 0, 1, 1, 2, 3])), [draw(S(SMALL)) for _ in range(draw(S([lo, 1, 2, 3, 3, 4, 5])))]]
            for _ in range(draw(S([0, 1, 2, 3, 3, 4, 4, 5])))]
    return {'inner': inner, 'form': form, 'okey': draw(S(sorted(OKEYS))), 'leaf': leaf, 'pos': pos, 'mid': draw(S([False, False, True])),
            'olimit': draw(S([None] * 5 + [1, 2, 3])), 'rows': rows}


def build_nested(recipe, inner_group):
    steps = [T['vals'], inner_group] + ([keep] if recipe['mid'] else [])
    form, leaf = recipe['form'], recipe['leaf']
    if form == 'key':
        spec = {Pipe(*steps): [T['k']]}
    else:
        if recipe['pos'] == 'in-leaf':
            chain = OBUILD[leaf](Pipe(*steps))
        else:
            chain = Pipe(*(steps + [OBUILD[leaf](T)]))
        if form == 'top':
            spec = chain
        elif form == 'bucket':
            spec = {OKEYS[recipe['okey']][0](): chain}
        elif form == 'share':
            # the same inner Group object once more, under a second constant key
            spec = {Val('x'): chain, Val('y'): Pipe(T['vals'], inner_group, [T])}
        else:
            raise HarnessBug('nested: form %r' % (form,))
    return spec if recipe['olimit'] is None else Limit(recipe['olimit'], spec)


def refouter(leaf, rs):
    """the leaf of the enclosing Group over the per-row results routed to it (a hand-written loop per leaf)"""
    if leaf == 'list':
        return list(rs)
    if leaf == 'count':
        return len(rs)
    if leaf == 'sum':
        return functools.reduce(operator.add, rs, 0)        # tot = 0; for r in rs: tot += r
    if leaf == 'max':
        return max(rs)
    if leaf == 'min':
        return min(rs)
    if leaf == 'avg':
        return functools.reduce(operator.add, rs, 0) / len(rs)
    if leaf == 'flatten':
        out = []
        for r in rs:
            out += r
        return out
    if leaf == 'merge':
        out = {}
        for r in rs:
            out.update(r)
        return out
    raise HarnessBug('nested: leaf %r' % (leaf,))


def nested_groups(recipe, rows):
    """the rows (as indexes) that reach one and the same accumulator of the enclosing Group, per accumulator"""
    if recipe['form'] != 'bucket':
        return [list(range(len(rows)))]
    groups = {}
    for i, (k, _) in enumerate(rows):
        key = OKEYS[recipe['okey']][1]({'k': k})
        if key is not SKIP:
            groups.setdefault(key, []).append(i)
    return list(groups.values())


def ref_nested(recipe, rows):
    inner, form, leaf = recipe['inner'], recipe['form'], recipe['leaf']
    per_row = [refgroup(inner, list(vals)) for _, vals in rows]        # a complete Group of its own for every row
    if form == 'top':
        return refouter(leaf, per_row)
    if form == 'bucket':
        out = {}
        for (k, _), r in zip(rows, per_row):
            key = OKEYS[recipe['okey']][1]({'k': k})
            if key is SKIP:
                continue
            out.setdefault(key, []).append(r)
        return dict((key, refouter(leaf, rs)) for key, rs in out.items())
    if form == 'share':
        return {'x': refouter(leaf, per_row), 'y': list(per_row)} if rows else {}
    if form == 'key':
        out = {}
        for (k, _), r in zip(rows, per_row):
            out.setdefault(r, []).append(k)
        return out
    raise HarnessBug('nested: form %r' % (form,))


def check_nested(recipe, ctx):
    inner, form, leaf, pos = recipe['inner'], recipe['form'], recipe['leaf'], recipe['pos']
    kind = result_kind(inner)
    if leaf not in OLEAVES['any'] + OLEAVES[kind] or (pos == 'in-leaf' and leaf not in INLEAF) or (form == 'key' and kind != 'num') \
            or (inner[0] == 'limit' and inner[1] == 0 and needs_items(inner)):
        raise HarnessBug('nested: recipe outside the generated domain: %r' % (recipe,))
    # aggregators over no items at all are outside the statement (inner: no values; enclosing: no rows)
    rows = [[k, list(vals) if vals or not needs_items(inner) else [4]] for k, vals in recipe['rows']]
    olimit = recipe['olimit']
    if form == 'top' and not (leaf == 'list' and pos == 'in-leaf'):
        # (a Pipe that ends in [T] is no list spec: what its Group returns for no rows at all is not stated either)
        rows = rows or [[0, [4, 5]]]
    seen = rows if olimit is None else rows[:olimit]
    inner_group = Group(build(inner))
    spec = Group(build_nested(recipe, inner_group))
    exp = ref_nested(recipe, seen)
    # classes
    stops = [ends_by_stop(inner, len(vals)) for _, vals in seen]
    groups = nested_groups(recipe, seen)
    many = [g for g in groups if len(g) >= 2]
    accumulating = form == 'share' or (form != 'key' and pos == 'chain')      # ('share': the second entry always is Pipe(.., inner, [T]))
    ctx.label('form-' + form, 'leaf-' + leaf, 'pos-' + pos, 'inner-' + kind)
    if any(stops):
        ctx.label('inner-ends-by-stop')
    if accumulating and many:
        causes = set(stops[i] for g in many for i in g if stops[i])
        for c in sorted(causes):
            ctx.label('stop-by-%s-then-accumulating-step/rows>=2' % c)
        ctx.label('stop-then-accumulating-step/rows>=2' if causes else 'no-stop-then-accumulating-step/rows>=2')
        if causes and form == 'bucket':
            ctx.label('stop-then-accumulating-step-below-key/rows>=2')
    ctx.nontrivial(bool(many) and form != 'key')
    target = [{'k': k, 'vals': list(vals)} for k, vals in rows]
    where = 'glom(%r, %r)' % (target, spec)
    results = []
    for rep in range(2):
        try:
            got = glom.glom([dict(row, vals=list(row['vals'])) for row in target], spec)
        except Exception as e:
            raise Mismatch('nested-unexpected-error', '%s (evaluation #%d): %s: %r' % (where, rep + 1, type(e).__name__, e))
        if not same_with_order(got, exp):
            raise Mismatch('nested-wrong-result' if rep == 0 else 'nested-carry-over',
                           '%s (evaluation #%d of the same spec object): expected %r (per row the inner Group gives %r), got %r'
                           % (where, rep + 1, exp, [refgroup(inner, v) for _, v in seen], got))
        results.append(got)
    if mutable_ids(results[0]) & mutable_ids(results[1]):
        raise Mismatch('nested-results-share-state', '%s: two evaluations share a mutable object' % where)
    # the inner Group object evaluated on its own afterwards starts from scratch as well
    if rows:
        vals = list(rows[-1][1])
        try:
            alone = glom.glom(vals, inner_group)
        except Exception as e:
            raise Mismatch('nested-unexpected-error', 'glom(%r, %r) after %s: %s: %r' % (vals, inner_group, where, type(e).__name__, e))
        if not same_with_order(alone, refgroup(inner, vals)):
            raise Mismatch('nested-carry-over', 'glom(%r, %r) after %s: expected %r, got %r'
                           % (vals, inner_group, where, refgroup(inner, vals), alone))
    ctx.outcome([repr(spec)[:120], repr(exp)[:100]])


# ---------------------------------------------------------------------------
# a Pipe in a Group that starts with a level of its own and goes on with an accumulating step

def snapshot(v):
    return copy.deepcopy(v)


# the step(s) after the level: name -> build
LATER = {
    'count': lambda: [Count()],
    'snaps': lambda: [[snapshot]],
    'sumlen': lambda: [len, Sum()],
    'both': lambda: [{Val('n'): Count(), Val('snaps'): [snapshot]}],
}
PLEAVES = [k for k in LEAVES if k != 'listskip'] + ['list', 'list', 'sum']


def gen_pipelevel(draw):
    S = st.sampled_from
    place = draw(S(['top', 'top', 'bucket']))
    # (an aggregating Pipe over no items at all is outside the statement)
    items = [draw(S(SMALL)) for _ in range(draw(S([0, 2, 3, 4, 5, 6, 7, 8] if place == 'bucket' else [1, 1, 2, 3, 3, 4, 4, 5, 6, 8])))]
    first = draw(S(['dict'] * 6 + ['limit-dict'] * 2 + ['limit']))
    if first == 'limit':
        level = ['limit', len(items) + draw(S([0, 1, 3])), None]
    else:
        level = gen_tree(draw, draw(S([1, 1, 1, 2])), False, PLEAVES)
        if first == 'limit-dict':
            level = ['limit', len(items) + draw(S([0, 1, 3])), level]
    return {'level': level, 'later': draw(S(['count', 'count', 'snaps', 'snaps', 'sumlen', 'both'])), 'mid': draw(S([False, False, True])),
            'place': place, 'okey': draw(S(INTKEYS + ['const', 'mod2', 'big'])), 'olimit': draw(S([None] * 5 + [1, 2, 3, 5])),
            'items': items}


def build_pipelevel(recipe):
    chain = Pipe(*([build(recipe['level'])] + ([keep] if recipe['mid'] else []) + LATER[recipe['later']]()))
    spec = chain if recipe['place'] == 'top' else {KEYS[recipe['okey']][0](): chain}
    return spec if recipe['olimit'] is None else Limit(recipe['olimit'], spec)


def pipelevel_groups(recipe, seen):
    """the items that reach one and the same Pipe (one accumulator of the later step), per accumulator, keyed as in the result"""
    if recipe['place'] == 'top':
        return {None: list(seen)}
    groups = {}
    for x in seen:
        key = KEYS[recipe['okey']][1](x)
        if key is not SKIP:
            groups.setdefault(key, []).append(x)
    return groups


def ref_pipelevel(recipe, seen):
    """the hand-written loop: every item first updates the buckets of the level, then the later step sees the level's present value"""
    level, later = recipe['level'], recipe['later']

    def loop(xs):
        n, snaps, lens = 0, [], 0
        for i in range(len(xs)):
            state = refgroup(level, xs[:i + 1])       # the buckets after item i (a bucketing loop is the same on every prefix)
            n += 1
            snaps.append(state)
            lens += len(state)
        return {'count': n, 'snaps': snaps, 'sumlen': lens, 'both': {'n': n, 'snaps': snaps}}[later]
    groups = pipelevel_groups(recipe, seen)
    if recipe['place'] == 'top':
        return loop(groups[None])
    return dict((key, loop(xs)) for key, xs in groups.items())


def check_pipelevel(recipe, ctx):
    level, later, place, olimit = recipe['level'], recipe['later'], recipe['place'], recipe['olimit']
    items = list(recipe['items'])
    if place == 'top' and not items:
        raise HarnessBug('pipelevel: recipe outside the generated domain (an aggregating Pipe over no items at all): %r' % (recipe,))
    seen = items if olimit is None else items[:olimit]
    groups = pipelevel_groups(recipe, seen)
    if level[0] == 'limit' and level[1] < max([len(xs) for xs in groups.values()] + [0]):
        raise HarnessBug('pipelevel: recipe outside the generated domain (the Limit that starts the Pipe is used up): %r' % (recipe,))
    if later not in LATER or has_leaf(level, 'first') or (level[0] != 'limit' and level[0] != 'dict'):
        raise HarnessBug('pipelevel: recipe outside the generated domain: %r' % (recipe,))
    spec = Group(build_pipelevel(recipe))
    exp = ref_pipelevel(recipe, seen)
    top = level[2] if level[0] == 'limit' else level
    ctx.label('place-' + place, 'later-' + later, 'first-' + ('limit' if level[0] == 'limit' else 'dict'))
    many = [xs for xs in groups.values() if len(xs) >= 2]
    if many:
        ctx.label('level-then-accumulating-step/items>=2')
    # every key spec of the level's top dict sends the items of one accumulator of the later step different ways
    if top is not None and any(all(len(set(repr(KEYS[k][1](x)) for x in xs)) >= 2 for k, _ in top[1]) for xs in many):
        ctx.label('level-then-accumulating-step/buckets>=2')
        ctx.label('level-then-%s/buckets>=2' % ('count' if later in ('count', 'sumlen') else 'snaps'))
        if place == 'bucket':
            ctx.label('level-then-accumulating-step-below-key/buckets>=2')
    ctx.nontrivial(bool(many))
    where = 'glom(%r, %r)' % (items, spec)
    results = []
    for rep in range(2):
        try:
            got = glom.glom(list(items), spec)
        except Exception as e:
            raise Mismatch('pipelevel-unexpected-error', '%s (evaluation #%d): %s: %r' % (where, rep + 1, type(e).__name__, e))
        if not same_with_order(got, exp):
            raise Mismatch('pipelevel-wrong-result' if rep == 0 else 'pipelevel-carry-over',
                           '%s (evaluation #%d of the same spec object): expected %r, got %r' % (where, rep + 1, exp, got))
        results.append(got)
    if mutable_ids(results[0]) & mutable_ids(results[1]):
        raise Mismatch('pipelevel-results-share-state', '%s: two evaluations share a mutable object' % where)
    ctx.outcome([repr(spec)[:120], repr(exp)[:100]])


# ---------------------------------------------------------------------------
# First below a key level (F15)

def gen_first(draw):
    return {'key': draw(st.sampled_from(['mod2', 'mod3', 'big'])),
            'items': [draw(st.integers(0, 9)) for _ in range(draw(st.integers(1, 7)))]}


def emulate_f15(key, items):
    """what the unchanged tree computes: the first repeated bucket disables the whole key spec"""
    out = {}
    for x in items:
        k = KEYS[key][1](x)
        if k in out:
            break
        out[k] = x
    return out


def check_first(recipe, ctx):
    key, items = recipe['key'], recipe['items']
    spec = Group({KEYS[key][0](): First()})
    exp = refgroup(['dict', [[key, ['leaf', 'first']]]], items)
    ctx.nontrivial(len(exp) >= 2)
    ctx.label('buckets-%d' % min(len(exp), 3))
    try:
        got = glom.glom(list(items), spec)
    except Exception as e:
        raise Mismatch('unexpected-error', '%r on %r: %r' % (spec, items, e))
    if not same_with_order(got, exp):
        raise Mismatch('first-under-key', '%r on %r: expected %r, got %r' % (spec, items, exp, got))
    ctx.outcome([items, got])


def is_f15(recipe, mm):
    if mm.kind != 'first-under-key' or 'key' not in recipe:
        return False
    got = glom.glom(list(recipe['items']), Group({KEYS[recipe['key']][0](): First()}))
    return same_with_order(got, emulate_f15(recipe['key'], recipe['items']))


CLASSIFIERS = {'F15-first-under-key': is_f15}

SUBS = [
    Sub('group', check, gen=gen, quick=5000, thorough=20000,
        floors={'levels-2': 0.1, 'levels-3': 0.05, 'leaf-agg': 0.3, 'nest-rows': 0.1,
                'idkey': 0.065, 'idkey-followed': 0.06, 'avg-num-bigint': 0.03, 'avg-num-Fraction': 0.03, 'avg-num-Decimal': 0.03,
                'avg-needs-exact-sum': 0.06,
                'avg-vec': 0.07, 'avg-vec-radd-self/items>=2': 0.045, 'avg-vec-radd-copy': 0.008}),
    Sub('nested', check_nested, gen=gen_nested, quick=1200, thorough=8000,
        floors={'stop-then-accumulating-step/rows>=2': 0.15, 'stop-by-first-then-accumulating-step/rows>=2': 0.06,
                'stop-by-limit-then-accumulating-step/rows>=2': 0.08, 'stop-then-accumulating-step-below-key/rows>=2': 0.06,
                'no-stop-then-accumulating-step/rows>=2': 0.1, 'pos-in-leaf': 0.1, 'form-share': 0.065, 'form-key': 0.012}),
    Sub('pipelevel', check_pipelevel, gen=gen_pipelevel, quick=600, thorough=4000,
        floors={'level-then-accumulating-step/items>=2': 0.4, 'level-then-accumulating-step/buckets>=2': 0.13,
                'level-then-count/buckets>=2': 0.07, 'level-then-snaps/buckets>=2': 0.055,
                'level-then-accumulating-step-below-key/buckets>=2': 0.03, 'first-limit': 0.12}),
    Sub('first-under-key', check_first, gen=gen_first, quick=600, thorough=2000),
]
