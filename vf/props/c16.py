"""C16 — Group builds exactly the buckets and aggregates of a hand-written loop.

Sub-checks
  group        item sequences x Group spec trees with 1-3 key levels (T expressions, callables,
               SKIP-producing callables, constant Val) ending in [value_spec] / First (top level
               only) / Max / Min / Avg / Sum / Count / Flatten / Merge / dict-of-aggregators / a
               top-level Limit(n[, sub]); the same spec object evaluated repeatedly, per row of a
               list spec, and nested inside another Group's aggregator
  first-under-key   First() below one key level (known finding F15 lives here, by construction)

Oracle: refgroup() - an explicit bucketing loop with insertion-ordered dicts.
"""
from hypothesis import strategies as st

import glom
from glom import T, Val, SKIP, Sum, Flatten, Merge, GlomError
from glom.grouping import Group, First, Max, Min, Avg, Limit
from glom.reduction import Count

from ..runner import Sub, Mismatch
from .. import targets as tg

PROPERTY = 'C16'
RULE = ('items: 0-8 small ints (negative, zero, positive); spec trees: 0-3 key levels over {T % 2, T % 3, callable, SKIP-producing callable, Val} '
        '(key specs of one level have disjoint key ranges) and the listed leaves; every spec object is evaluated twice and '
        'also per row / inside another Group. Non-trivial = >= 2 key levels or an aggregator leaf, with >= 2 buckets of >= 2 items.')
ASSUMPTIONS = [
    'integer data, so Avg is exact',
    'top-level aggregators on empty input, Limit below a key level and two key specs producing the same bucket key are outside the statement and not generated',
    'First/STOP-producing leaves below a key level are generated only in the first-under-key sub-check (known finding F15)',
]


def big(x):
    return 'big' if x > 4 else 'small'


def skipodd(x):
    return SKIP if x % 2 else x % 4


def dup(x):
    return [x, x + 1]


def asdict(x):
    return {x % 2: x, 'last': x}


def skip3(x):
    return SKIP if x == 3 else x


KEYS = {
    'mod2': (lambda: T % 2, lambda x: x % 2, {0, 1}),
    'mod3': (lambda: T % 3, lambda x: x % 3, {0, 1, 2}),
    'big': (lambda: big, big, {'big', 'small'}),
    'skipodd': (lambda: skipodd, skipodd, {0, 2}),
    'const': (lambda: Val('all'), lambda x: 'all', {'all'}),
}
LEAVES = ['list', 'listx2', 'max', 'min', 'avg', 'sum', 'count', 'aggdict', 'listskip', 'flatten', 'merge']


def gen_tree(draw, levels, top=True):
    if levels == 0:
        return ['leaf', draw(st.sampled_from(LEAVES + (['first'] if top else [])))]
    names = sorted(KEYS)
    k1 = draw(st.sampled_from(names))
    entries = [[k1, gen_tree(draw, levels - 1, False)]]
    if draw(st.integers(0, 4)) == 0:
        others = [k for k in names if not (KEYS[k][2] & KEYS[k1][2])]
        if others:
            entries.append([draw(st.sampled_from(others)), gen_tree(draw, levels - 1, False)])
    return ['dict', entries]


def gen(draw):
    tree = gen_tree(draw, draw(st.integers(0, 3)))
    if draw(st.integers(0, 7)) == 0:
        tree = ['limit', draw(st.integers(0, 5)), tree if draw(st.booleans()) else None]
    n = draw(st.integers(0, 8))
    # ints plus a few equal-but-distinguishable values (1 / 1.0 / True, 2 / 2.0, 0 / 0.0 / False): ties must go to the first
    items = [draw(st.sampled_from(list(range(-4, 10)) + [1.0, 2.0, 0.0, True, False, 4.0])) for _ in range(n)]
    nest = draw(st.sampled_from(['plain', 'plain', 'rows', 'sum-of-groups']))
    if nest == 'sum-of-groups' and not (tree[0] == 'leaf' and tree[1] in ('count', 'sum', 'max', 'min')):
        nest = 'plain'
    rows = [[draw(st.integers(-4, 9)) for _ in range(draw(st.integers(1, 4)))] for _ in range(draw(st.integers(0, 3)))]
    return {'tree': tree, 'items': items, 'nest': nest, 'rows': rows}


def build(r):
    if r[0] == 'leaf':
        k = r[1]
        return {'list': lambda: [T], 'listx2': lambda: [T * 2], 'first': First, 'max': Max, 'min': Min, 'avg': Avg,
                'sum': Sum, 'count': Count, 'flatten': lambda: Flatten(dup), 'merge': lambda: Merge(asdict),
                'aggdict': lambda: {Val('mx'): Max(), Val('n'): Count(), Val('all'): [T]},
                'listskip': lambda: [skip3]}[k]()
    if r[0] == 'limit':
        return Limit(r[1]) if r[2] is None else Limit(r[1], build(r[2]))
    return dict((KEYS[k][0](), build(sub)) for k, sub in r[1])


EMPTY = object()


def refleaf(kind, items):
    if kind == 'list':
        return list(items)
    if kind == 'listx2':
        return [x * 2 for x in items]
    if kind == 'first':
        return items[0]
    if kind == 'max':
        return max(items)
    if kind == 'min':
        return min(items)
    if kind == 'avg':
        return sum(items) / float(len(items))
    if kind == 'sum':
        return sum(items)
    if kind == 'count':
        return len(items)
    if kind == 'flatten':
        out = []
        for x in items:
            out += dup(x)
        return out
    if kind == 'merge':
        out = {}
        for x in items:
            out.update(asdict(x))
        return out
    if kind == 'aggdict':
        return {'mx': max(items), 'n': len(items), 'all': list(items)}
    if kind == 'listskip':
        return [x for x in items if x != 3]
    raise ValueError(kind)


def refgroup(r, items):
    """the dictionary a hand-written bucketing loop builds"""
    if r[0] == 'leaf':
        return refleaf(r[1], items)
    if r[0] == 'limit':
        sub = r[2] if r[2] is not None else ['leaf', 'list']
        return refgroup(sub, items[:r[1]])
    buckets = {}
    order = []
    for x in items:
        for k, sub in r[1]:
            key = KEYS[k][1](x)
            if key is SKIP:
                continue
            if key not in buckets:
                buckets[key] = (sub, [])
                order.append(key)
            buckets[key][1].append(x)
    out = {}
    for key in order:
        sub, xs = buckets[key]
        out[key] = refgroup(sub, xs)
    return out


def needs_items(r):
    """specs whose result on an empty input is outside the statement"""
    if r[0] == 'leaf':
        return r[1] not in ('list', 'listx2', 'listskip')
    if r[0] == 'limit':
        # a limited list / dict starts out as the empty list / dict like an unlimited one
        return needs_items(r[2]) if r[2] is not None else False
    return False


def levels(r):
    if r[0] == 'dict':
        return 1 + max(levels(s) for _, s in r[1])
    if r[0] == 'limit':
        return levels(r[2]) if r[2] is not None else 0
    return 0


def has_agg(r):
    if r[0] == 'leaf':
        return r[1] not in ('list', 'listx2', 'listskip')
    if r[0] == 'limit':
        return has_agg(r[2]) if r[2] is not None else False
    return any(has_agg(s) for _, s in r[1])


def same_with_order(a, b):
    if type(a) is not type(b):
        return False
    if isinstance(a, float) and repr(a) != repr(b):
        return False
    if isinstance(a, dict):
        return list(a.keys()) == list(b.keys()) and all(same_with_order(a[k], b[k]) for k in a)
    if isinstance(a, list):
        return len(a) == len(b) and all(same_with_order(x, y) for x, y in zip(a, b))
    return a == b


def mutable_ids(v, acc=None):
    acc = set() if acc is None else acc
    if isinstance(v, (list, dict)):
        acc.add(id(v))
        for x in (v.values() if isinstance(v, dict) else v):
            mutable_ids(x, acc)
    return acc


def check(recipe, ctx):
    tree, items = recipe['tree'], list(recipe['items'])
    if tree[0] == 'limit' and tree[1] == 0 and needs_items(tree):
        tree = ['limit', 1, tree[2]]       # an aggregator over no items at all is outside the statement
    if not items and needs_items(tree):
        items = [4]
    if tree[0] == 'dict' and not items:
        pass
    spec = Group(build(tree))
    exp = refgroup(tree, items)
    nbuckets = len(exp) if isinstance(exp, dict) else 0
    ctx.label('levels-%d' % levels(tree), 'nest-' + recipe['nest'], 'leaf-agg' if has_agg(tree) else 'leaf-list')
    ctx.nontrivial((levels(tree) >= 2 or has_agg(tree)) and nbuckets >= 2 and len(items) >= 4)
    where = 'spec=%r items=%r' % (spec, items)
    results = []
    for rep in range(2):
        try:
            got = glom.glom(list(items), spec)
        except Exception as e:
            raise Mismatch('unexpected-error', '%s (evaluation #%d): %s: %r' % (where, rep + 1, type(e).__name__, e))
        if not same_with_order(got, exp):
            raise Mismatch('wrong-result' if rep == 0 else 'carry-over',
                           '%s (evaluation #%d of the same spec object): expected %r, got %r' % (where, rep + 1, exp, got))
        results.append(got)
    if mutable_ids(results[0]) & mutable_ids(results[1]):
        raise Mismatch('results-share-state', '%s: two evaluations share a mutable object' % where)
    # evaluation on a different input in between must not leak either
    other = [9, 9, 8]
    try:
        glom.glom(other, spec)
        again = glom.glom(list(items), spec)
    except Exception as e:
        raise Mismatch('unexpected-error', '%s: %r' % (where, e))
    if not same_with_order(again, exp):
        raise Mismatch('carry-over', '%s: after evaluating other data, expected %r, got %r' % (where, exp, again))
    if recipe['nest'] == 'rows':
        rows = [r for r in recipe['rows']]
        exp_rows = [refgroup(tree, r) for r in rows]
        try:
            got_rows = glom.glom([list(r) for r in rows], [spec])
        except Exception as e:
            raise Mismatch('unexpected-error', '%s rows=%r: %r' % (where, rows, e))
        if not same_with_order(got_rows, exp_rows):
            raise Mismatch('carry-over-rows', '%s applied per row to %r: expected %r, got %r' % (where, rows, exp_rows, got_rows))
    if recipe['nest'] == 'sum-of-groups' and recipe['rows']:
        rows = recipe['rows']
        outer = Group(Sum(spec))
        exp_sum = sum(refgroup(tree, r) for r in rows)
        try:
            got_sum = glom.glom([list(r) for r in rows], outer)
        except Exception as e:
            raise Mismatch('nested-group-error', '%r on %r: %s: %r' % (outer, rows, type(e).__name__, e))
        if got_sum != exp_sum:
            raise Mismatch('nested-group', '%r on %r: expected %r, got %r' % (outer, rows, exp_sum, got_sum))
        ctx.label('nested-group-evaluated')
    ctx.outcome([repr(spec)[:100], repr(exp)[:100]])


# ---------------------------------------------------------------------------
# First below a key level (F15)

def gen_first(draw):
    return {'key': draw(st.sampled_from(['mod2', 'mod3', 'big'])),
            'items': [draw(st.integers(0, 9)) for _ in range(draw(st.integers(1, 7)))]}


def emulate_f15(key, items):
    """what the unchanged tree computes: the first repeated bucket disables the whole key spec"""
    out = {}
    for x in items:
        k = KEYS[key][1](x)
        if k in out:
            break
        out[k] = x
    return out


def check_first(recipe, ctx):
    key, items = recipe['key'], recipe['items']
    spec = Group({KEYS[key][0](): First()})
    exp = refgroup(['dict', [[key, ['leaf', 'first']]]], items)
    ctx.nontrivial(len(exp) >= 2)
    ctx.label('buckets-%d' % min(len(exp), 3))
    try:
        got = glom.glom(list(items), spec)
    except Exception as e:
        raise Mismatch('unexpected-error', '%r on %r: %r' % (spec, items, e))
    if not same_with_order(got, exp):
        raise Mismatch('first-under-key', '%r on %r: expected %r, got %r' % (spec, items, exp, got))
    ctx.outcome([items, got])


def is_f15(recipe, mm):
    if mm.kind != 'first-under-key' or 'key' not in recipe:
        return False
    got = glom.glom(list(recipe['items']), Group({KEYS[recipe['key']][0](): First()}))
    return same_with_order(got, emulate_f15(recipe['key'], recipe['items']))


CLASSIFIERS = {'F15-first-under-key': is_f15}

SUBS = [
    Sub('group', check, gen=gen, quick=5000, thorough=20000,
        floors={'levels-2': 0.1, 'levels-3': 0.05, 'leaf-agg': 0.3, 'nest-rows': 0.1}),
    Sub('first-under-key', check_first, gen=gen_first, quick=600, thorough=2000),
]
