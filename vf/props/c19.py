"""C19 — The CLI prints what the library computes; default-format specs never execute.

Sub-checks
  cli        in-process glom.cli.main(argv) with redirected stdin/stdout: JSON-representable targets
             (json / python literal / yaml / toml), literal specs derived from the target (python / json
             spec format), target and spec delivered by argv, file or stdin, --indent, --scalar;
             malformed / unreadable targets
  hostile    spec texts from a grammar of calls, attribute access, lambdas, comprehensions, f-strings and
             dunder walks, each arranged so that *executing* it flips a canary planted in builtins;
             differential oracle: ast.literal_eval (literal -> library result, else rejection) or the
             text taken as a path string
  process    the same expectations against real `python -m glom` subprocesses (a sample)
"""
import io
import os
import ast
import sys
import json
import shutil
import builtins
import tempfile
import subprocess

from hypothesis import strategies as st

import glom
from glom import GlomError
from glom import cli

from .. import fuzzrun
from ..runner import Sub, Mismatch
from .. import boot

PROPERTY = 'C19'
RULE = ('targets: recursive JSON values (unicode, large ints, floats, empty containers, falsy scalars) serialised as json / python '
        'literal / yaml / toml; specs: literal specs derived from the target (paths, dicts, lists, tuples, nested; some failing) '
        'as python-literal or json text, raw path text when possible; channels argv / file / stdin; flags --indent, --scalar. '
        'hostile: generated non-literal spec texts with an execution canary. '
        'Non-trivial = spec with >= 2 levels, or a non-argv channel, or a non-default flag.')
ASSUMPTIONS = [
    'expected stdout: json.dumps(glom(target, spec), indent=indent or None, sort_keys=True) + newline; --scalar prints str(result) for scalar results',
    'malformed *spec* text is only required not to execute and not to print a result',
    'targets use string keys only (json.dumps(sort_keys=True) cannot order mixed keys)',
]


# ---------------------------------------------------------------------------
# running the CLI

class Result(object):
    def __init__(self, status, out, exc):
        self.status, self.out, self.exc = status, out, exc

    def __repr__(self):
        return 'status=%r stdout=%r exc=%r' % (self.status, self.out[:300], self.exc)


def run_inprocess(argv, stdin_text):
    old = sys.stdin, sys.stdout, sys.stderr
    sys.stdin = io.StringIO(stdin_text if stdin_text is not None else '')
    sys.stdout = out = io.StringIO()
    sys.stderr = io.StringIO()
    status, exc = None, None
    try:
        try:
            status = cli.main(['glom'] + list(argv))
        except SystemExit as e:
            status = e.code if e.code is not None else 0
            exc = type(e).__name__
        except BaseException as e:
            status = 'exception'
            exc = type(e).__name__
    finally:
        sys.stdin, sys.stdout, sys.stderr = old
    return Result(status, out.getvalue(), exc)


def run_subprocess(argv, stdin_text, cwd):
    env = dict(os.environ)
    env['PYTHONPATH'] = boot.REPO
    env['PYTHONDONTWRITEBYTECODE'] = '1'
    p = subprocess.run([sys.executable, '-B', '-m', 'glom'] + list(argv), input=(stdin_text or '').encode('utf8'),
                       stdout=subprocess.PIPE, stderr=subprocess.PIPE, env=env, cwd=cwd, timeout=120)
    return Result(p.returncode, p.stdout.decode('utf8', 'replace'), None)


# ---------------------------------------------------------------------------
# generation

KEYS = ['a', 'b', 'c', 'key', 'x y', 'é', 'n1', '\U0001f600k']      # (the last one: JSON text spells it as a surrogate pair)


def gen_value(draw, d):
    r = draw(st.sampled_from(range(12)))
    if d <= 0 or r < 4:
        return draw(st.sampled_from([0, 1, -7, 2 ** 70, 1.5, -0.25, True, False, None, '', 's', 'üñí', 'with "quote"', "it's", 'a.b']))
    if r < 8:
        ks = draw(st.lists(st.sampled_from(KEYS), max_size=3, unique=True))
        return dict((k, gen_value(draw, d - 1)) for k in ks)
    return [gen_value(draw, d - 1) for _ in range(draw(st.integers(0, 3)))]


def gen_spec(draw, value, d):
    """literal spec recipe valid (mostly) for value: ['s', path] ['d', [[k, S]..]] ['l', S] ['t', [S..]]"""
    r = draw(st.sampled_from(range(10)))
    if r == 0:
        return ['s', draw(st.sampled_from(['missing', 'a.missing', '9']))]
    if isinstance(value, dict) and value and (d <= 0 or r < 4):
        k = draw(st.sampled_from(sorted(value)))
        if '.' in k:
            return ['s', 'missing']
        sub = value[k]
        if isinstance(sub, dict) and sub and draw(st.booleans()):
            k2 = draw(st.sampled_from(sorted(sub)))
            if '.' not in k2:
                return ['s', k + '.' + k2]
        if isinstance(sub, list) and sub and draw(st.booleans()):
            return ['s', '%s.%d' % (k, draw(st.integers(0, len(sub) - 1)))]
        return ['s', k]
    if isinstance(value, list) and value and r < 6:
        if d > 0 and draw(st.booleans()):
            return ['l', gen_spec(draw, value[0], d - 1)]
        return ['s', str(draw(st.integers(0, len(value) - 1)))]
    if d > 0 and r < 8:
        n = draw(st.integers(0, 3))
        ks = draw(st.lists(st.sampled_from(['out', 'k2', 'z', 'ä']), min_size=n, max_size=n, unique=True))
        return ['d', [[k, gen_spec(draw, value, d - 1)] for k in ks]]
    if d > 0 and r == 8:
        first = gen_spec(draw, value, d - 1)
        try:
            mid = glom.glom(value, build_spec(first))
        except Exception:
            return ['t', [first]]
        return ['t', [first, gen_spec(draw, mid, d - 1)]]
    return ['t', []]          # the empty chain: the target itself


def build_spec(s):
    if s[0] == 's':
        return s[1]
    if s[0] == 'd':
        return dict((k, build_spec(v)) for k, v in s[1])
    if s[0] == 'l':
        return [build_spec(s[1])]
    return tuple(build_spec(x) for x in s[1])


def has_tuple(s):
    if s[0] == 't':
        return True
    if s[0] == 'd':
        return any(has_tuple(v) for _, v in s[1])
    if s[0] == 'l':
        return has_tuple(s[1])
    return False


def toml_ok(v, top=True):
    if top:
        return isinstance(v, dict) and all(toml_ok(x, False) for x in v.values())
    if v is None:
        return False
    if isinstance(v, dict):
        return all(toml_ok(x, False) for x in v.values())
    if isinstance(v, list):
        return all(toml_ok(x, False) for x in v)
    if isinstance(v, int) and not isinstance(v, bool):
        return -2 ** 63 <= v < 2 ** 63
    return True


def toml_value(v):
    if isinstance(v, bool):
        return 'true' if v else 'false'
    if isinstance(v, str):
        return json.dumps(v, ensure_ascii=False)      # (TOML has no surrogate-pair escapes)
    if isinstance(v, float):
        return repr(v)
    if isinstance(v, int):
        return str(v)
    if isinstance(v, list):
        return '[' + ', '.join(toml_value(x) for x in v) + ']'
    return '{' + ', '.join('%s = %s' % (json.dumps(k, ensure_ascii=False), toml_value(x)) for k, x in v.items()) + '}'


def toml_dumps(d):
    return ''.join('%s = %s\n' % (json.dumps(k, ensure_ascii=False), toml_value(v)) for k, v in d.items())


def serialise(value, fmt):
    if fmt == 'json':
        return json.dumps(value)
    if fmt == 'python':
        return repr(value)
    if fmt == 'yaml':
        import yaml
        return yaml.safe_dump(value, allow_unicode=True, sort_keys=False)      # (keys in the target's own order)
    return toml_dumps(value)


def gen_cli(draw):
    value = gen_value(draw, draw(st.sampled_from([1, 2, 3])))
    if draw(st.integers(0, 5)) == 0:
        value = draw(st.sampled_from([0, [], '', None, False, {}, [0]]))
    spec = gen_spec(draw, value, draw(st.sampled_from([0, 1, 2, 3])))
    if isinstance(value, dict) and 'zblk' not in value and draw(st.sampled_from(range(12))) == 0:
        value = dict(value)
        value['zblk'] = 'line one\nline two\n'
        spec = gen_spec(draw, value, draw(st.sampled_from([0, 1, 2]))) if draw(st.booleans()) else ['s', 'zblk']
        return {'target': value, 'tformat': 'yaml', 'spec': spec, 'sformat': 'python' if has_tuple(spec) else draw(st.sampled_from(['python', 'json'])),
                'tsource': draw(st.sampled_from(['argv', 'file', 'stdin-dash'])), 'ssource': 'argv', 'indent': None, 'scalar': False,
                'raw_path': False, 'malform': None, 'yaml_block_tail': True}
    fmts = ['json', 'json', 'python', 'yaml'] + (['toml', 'toml'] if toml_ok(value) else [])
    sformat = 'python' if has_tuple(spec) else draw(st.sampled_from(['python', 'python', 'json']))
    return {'target': value, 'tformat': draw(st.sampled_from(fmts)), 'spec': spec, 'sformat': sformat,
            'tsource': draw(st.sampled_from(['argv', 'argv', 'file', 'stdin-dash', 'stdin-file-dash', 'stdin-implicit'])),
            'ssource': draw(st.sampled_from(['argv', 'argv', 'file'])),
            'indent': draw(st.sampled_from([None, None, 0, 1, 2, 4, 8])),
            'scalar': draw(st.sampled_from([False, False, True])),
            'raw_path': draw(st.booleans()),
            'malform': draw(st.sampled_from([None] * 8 + ['truncate', 'wrong-format', 'missing-file', 'construct-error', 'undecodable-file']))}


def make_invocation(recipe, tmp):
    """returns (argv, stdin_text, expectation-kind)"""
    spec = build_spec(recipe['spec'])
    sformat = recipe['sformat']
    if sformat == 'json':
        spec_text = json.dumps(spec)
    else:
        spec_text = repr(spec)
        if isinstance(spec, str) and recipe['raw_path'] and spec and spec[0] not in '"\'[{(' and not spec.startswith('-'):
            spec_text = spec            # trivial path access: bare text
    if recipe.get('yaml_block_tail'):
        # hand-written YAML: the document ends in a block scalar, whose value keeps its final newline
        rest = dict((k, v) for k, v in recipe['target'].items() if k != 'zblk')
        target_text = (serialise(rest, 'yaml') if rest else '') + 'zblk: |\n  line one\n  line two\n'
    else:
        target_text = serialise(recipe['target'], recipe['tformat'])
    malform = recipe['malform']
    if malform == 'truncate':
        target_text = {'json': '{"a": [1, 2', 'python': "{'a': [1, 2", 'yaml': '{a: [1, 2', 'toml': 'a = [1, 2'}[recipe['tformat']]
    elif malform == 'construct-error':
        # syntactically fine, but the loader fails while constructing the value (not its nominal parse error)
        target_text = {'json': '{"a": 1e999999, "b": [1, 2', 'python': "{'a': {[1, 2]: 3}}", 'yaml': 'a: 2001-13-45',
                       'toml': 'a = 1\na = 2'}[recipe['tformat']]
    elif malform == 'wrong-format':
        # text that is well-formed in another format but not in this one
        target_text = {'json': 'a = 1', 'python': 'a = 1', 'yaml': 'a: b: [c', 'toml': '{"a": 1}'}[recipe['tformat']]
    argv = []
    stdin_text = None
    flags = ['--target-format', recipe['tformat']]
    if sformat != 'python':
        flags += ['--spec-format', sformat]
    if recipe['indent'] is not None:
        flags += ['--indent', str(recipe['indent'])]
    if recipe['scalar']:
        flags += ['--scalar']
    ssource, tsource = recipe['ssource'], recipe['tsource']
    if spec_text == '' and ssource == 'argv' and tsource == 'argv':
        tsource = 'file'
    if spec_text.startswith('-') and ssource == 'argv':
        ssource = 'file'
    pos = []
    if ssource == 'file':
        sp = os.path.join(tmp, 'spec.txt')
        with open(sp, 'w', encoding='utf8') as f:
            f.write(spec_text)
        flags += ['--spec-file', sp]
    else:
        pos.append(spec_text)
    if malform == 'missing-file':
        flags += ['--target-file', os.path.join(tmp, 'does-not-exist.json')]
    elif malform == 'undecodable-file':
        # a file that cannot be read as text at all (not UTF-8): unreadable, like a missing one
        tp = os.path.join(tmp, 'target.bin')
        with open(tp, 'wb') as f:
            f.write(b'{"a": "\xff\xfe\xfa"}')
        flags += ['--target-file', tp]
    elif tsource == 'argv':
        if ssource == 'file':
            # with a spec file the first positional would be taken as the spec: use a target file instead
            tp = os.path.join(tmp, 'target.txt')
            with open(tp, 'w', encoding='utf8') as f:
                f.write(target_text)
            flags += ['--target-file', tp]
        else:
            if target_text.startswith('-') and target_text != '-':
                tp = os.path.join(tmp, 'target.txt')
                with open(tp, 'w', encoding='utf8') as f:
                    f.write(target_text)
                flags += ['--target-file', tp]
            else:
                pos.append(target_text)
    elif tsource == 'file':
        tp = os.path.join(tmp, 'target.txt')
        with open(tp, 'w', encoding='utf8') as f:
            f.write(target_text)
        flags += ['--target-file', tp]
    elif tsource == 'stdin-dash' and ssource == 'argv':
        pos.append('-')
        stdin_text = target_text
    elif tsource in ('stdin-file-dash', 'stdin-dash'):
        flags += ['--target-file', '-']
        stdin_text = target_text
    else:
        stdin_text = target_text
    return flags + pos, stdin_text, spec, target_text


def expected_output(recipe, spec, target_value):
    """('ok', stdout) | ('glomerror', class name)"""
    try:
        result = glom.glom(target_value, spec)
    except GlomError as e:
        return ('glomerror', type(e).__name__)
    indent = recipe['indent'] if recipe['indent'] is not None else 2
    if recipe['scalar'] and (result is None or isinstance(result, (str, int, float, bool))):
        return ('ok', str(result))
    return ('ok', json.dumps(result, indent=indent or None, sort_keys=True) + '\n')


def judge(recipe, res, spec, target_text, where):
    malform = recipe['malform']
    if malform is not None:
        bad_status = res.status not in (0, None)
        if not bad_status:
            raise Mismatch('bad-target-accepted', '%s: malformed/unreadable target (%s) but %r' % (where, malform, res))
        if res.status == 'exception':
            raise Mismatch('bad-target-not-usage-error', '%s: expected a usage error, got exception %s' % (where, res.exc))
        if res.out.strip().startswith(('{', '[', '"')) or res.out.strip() in ('null', 'true', 'false'):
            raise Mismatch('bad-target-result-printed', '%s: a result was printed: %r' % (where, res.out[:200]))
        return 'usage-error'
    # what the loader of that format makes of the text is the target the library sees
    value = recipe['target']
    if target_text == '' or not target_text:
        value = {}
    exp = expected_output(recipe, spec, value)
    if exp[0] == 'ok':
        if res.status not in (0, None) or res.out != exp[1]:
            raise Mismatch('wrong-output', '%s: expected status 0 and stdout %r, got %r' % (where, exp[1], res))
        return 'ok'
    if res.status != 1:
        raise Mismatch('glomerror-status', '%s: library raises %s, expected exit status 1, got %r' % (where, exp[1], res))
    if not res.out.startswith(exp[1]):
        raise Mismatch('glomerror-message', '%s: output should name %s, got %r' % (where, exp[1], res.out[:200]))
    return 'glomerror'


def nontrivial(recipe):
    s = recipe['spec']
    deep = s[0] != 's' and any(x[0] != 's' for x in ([v for _, v in s[1]] if s[0] == 'd' else ([s[1]] if s[0] == 'l' else s[1])))
    return deep or recipe['tsource'] != 'argv' or recipe['ssource'] != 'argv' or recipe['indent'] is not None or recipe['scalar']


def check_cli(recipe, ctx):
    tmp = tempfile.mkdtemp(prefix='glomcli_')
    try:
        argv, stdin_text, spec, target_text = make_invocation(recipe, tmp)
        where = 'glom %s%s' % (' '.join(repr(a) for a in argv), (' <<< %r' % stdin_text) if stdin_text is not None else '')
        res = run_inprocess(argv, stdin_text)
        kind = judge(recipe, res, spec, target_text, where)
    finally:
        shutil.rmtree(tmp, ignore_errors=True)
    ctx.label('outcome-' + kind, 'tformat-' + recipe['tformat'], 'tsource-' + recipe['tsource'], 'sformat-' + recipe['sformat'])
    ctx.nontrivial(nontrivial(recipe))
    ctx.outcome([argv, kind])


def check_process(recipe, ctx):
    tmp = tempfile.mkdtemp(prefix='glomcli_')
    try:
        argv, stdin_text, spec, target_text = make_invocation(recipe, tmp)
        where = 'python -m glom %s%s' % (' '.join(repr(a) for a in argv), (' <<< %r' % stdin_text) if stdin_text is not None else '')
        res = run_subprocess(argv, stdin_text, tmp)
        kind = judge(recipe, res, spec, target_text, where)
    finally:
        shutil.rmtree(tmp, ignore_errors=True)
    ctx.label('outcome-' + kind, 'tsource-' + recipe['tsource'])
    ctx.nontrivial(nontrivial(recipe))
    ctx.outcome([argv, kind])


# ---------------------------------------------------------------------------
# hostile spec texts

CANARY = {'hits': 0}


def _canary(*a, **kw):
    CANARY['hits'] += 1
    return 'a'


def plant_canary():
    builtins.__dict__['verif_canary'] = _canary


GET_BUILTINS = ("[c for c in ().__class__.__base__.__subclasses__() if c.__name__ == 'catch_warnings'][0]()"
                "._module.__builtins__")

HOSTILE_TEMPLATES = [
    "(verif_canary())",
    "[verif_canary()]",
    "{'a': verif_canary()}",
    "(lambda: verif_canary())()",
    "[verif_canary() for _ in [1]]",
    "{k: verif_canary() for k in 'a'}",
    "(verif_canary(), 'a')",
    "{'x': (lambda f=verif_canary: f())()}",
    "'a' if verif_canary() else 'b'",
    "'%s' % verif_canary()",
    "''.join([verif_canary()])",
    "[1].__class__.__name__ and verif_canary()",
    "(" + GET_BUILTINS + "['verif_canary']())",
    "[" + GET_BUILTINS + "['verif_canary']()]",
    "{'a': ().__class__.__base__.__subclasses__()}",
    "(__import__('builtins').verif_canary())",
    "[x for x in [verif_canary]][0]()",
    "'a'.__class__('a') + verif_canary()",
    "(1).__add__(verif_canary() and 1)",
    "[*map(verif_canary, [1])]",
    "{**{'a': verif_canary()}}",
    "(yield verif_canary())",
    "[(verif_canary(), 'a')[1]]",
    "'a'[verif_canary() and 0:]",
    "verif_canary()",                       # bare text: a path string, never evaluated
    "verif_canary().a",
    "a.b if verif_canary() else c",
]


def gen_hostile(draw):
    t = draw(st.sampled_from(HOSTILE_TEMPLATES))
    k = draw(st.sampled_from(range(6)))
    if k == 0:
        t = '[' + t + ']' if t[0] in '([{\'"' else t
    elif k == 1:
        t = "{'out': " + t + "}" if t[0] in '([{\'"' else t
    elif k == 2:
        t = "(" + t + ", 'a')" if t[0] in '([{\'"' else t
    elif k == 3:
        t = ' ' + t if False else t
    via = draw(st.sampled_from(['argv', 'argv', 'file', 'explicit-format']))
    return {'text': t, 'via': via, 'target': {'a': 'A', 'b': {'a': 1}}}


def differential(text, target):
    """what the default spec format may do with this text (never: execute it)"""
    if text[0] not in ('"', "'", "[", "{", "("):
        spec = text
    else:
        try:
            spec = ast.literal_eval(text)
        except Exception:
            return ('reject',)
    try:
        result = glom.glom(target, spec)
    except GlomError as e:
        return ('glomerror', type(e).__name__)
    except Exception:
        return ('reject',)
    try:
        return ('ok', json.dumps(result, indent=2, sort_keys=True) + '\n')
    except Exception:
        return ('reject',)


def check_hostile(recipe, ctx):
    plant_canary()
    text, target = recipe['text'], recipe['target']
    before = CANARY['hits']
    tmp = tempfile.mkdtemp(prefix='glomcli_')
    try:
        if recipe['via'] == 'file':
            sp = os.path.join(tmp, 'spec.txt')
            with open(sp, 'w') as f:
                f.write(text)
            argv = ['--spec-file', sp, '--target-file', '-']
            res = run_inprocess(argv, json.dumps(target))
        elif recipe['via'] == 'explicit-format':
            argv = ['--spec-format', 'python', text, json.dumps(target)]
            res = run_inprocess(argv, None)
        else:
            argv = [text, json.dumps(target)]
            res = run_inprocess(argv, None)
    finally:
        shutil.rmtree(tmp, ignore_errors=True)
    where = 'glom %s' % ' '.join(repr(a) for a in argv)
    if CANARY['hits'] != before:
        raise Mismatch('spec-executed', '%s: the spec text was executed (canary called %d times)' % (where, CANARY['hits'] - before))
    exp = differential(text, target)
    ctx.label('diff-' + exp[0], 'via-' + recipe['via'])
    ctx.nontrivial(True)
    if exp[0] == 'ok':
        if res.status not in (0, None) or res.out != exp[1]:
            raise Mismatch('hostile-wrong-output', '%s: literal spec, expected %r, got %r' % (where, exp[1], res))
    elif exp[0] == 'glomerror':
        if res.status != 1 or not res.out.startswith(exp[1]):
            raise Mismatch('hostile-wrong-output', '%s: expected %s with status 1, got %r' % (where, exp[1], res))
    else:
        if res.status in (0, None):
            raise Mismatch('non-literal-accepted', '%s: not a Python literal, but the CLI exited 0 with %r' % (where, res.out[:200]))
        if res.out.strip():
            raise Mismatch('non-literal-result-printed', '%s: not a Python literal, but something was printed: %r' % (where, res.out[:200]))
    ctx.outcome([text[:80], exp[0]])


SUBS = [
    Sub('cli', check_cli, gen=gen_cli, quick=3000, thorough=10000,
        floors={'outcome-ok': 0.25, 'outcome-glomerror': 0.03, 'outcome-usage-error': 0.05, 'tformat-toml': 0.02, 'tformat-yaml': 0.07}),
    Sub('hostile', check_hostile, gen=gen_hostile, quick=1200, thorough=4000, floors={'diff-reject': 0.5}),
    Sub('process', check_process, gen=gen_cli, quick=64, thorough=128),
    fuzzrun.fuzz_sub('fuzz-spec-text', 'c19-spec-text', runs=20000, campaigns=4,
                     corpus=os.path.join(boot.VERIF, 'fuzz', 'corpus', 'c19-spec-text'), replay_sub='hostile'),
]
